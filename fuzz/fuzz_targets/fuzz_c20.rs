#![no_main]
//! C20 through libFuzzer: arbitrary JSON text as a persisted session document.
use harness_mac::props::c20::fuzz_document;
use libfuzzer_sys::fuzz_target;

fuzz_target!(|data: &[u8]| {
    if let Err(f) = fuzz_document(data) {
        panic!("C20 {}: {}", f.fingerprint, f.detail);
    }
});
