#![no_main]
//! History-based properties (C05..C12) through libFuzzer: the input is decoded into a device history
//! (region, front-end, activation, join bias, board, start counters; up to 14 steps whose MAC-command
//! bytes, CFLists and DLSettings/RxDelay octets are taken verbatim from the input) and judged by the
//! oracle of the property named in VERIF_FUZZ_JUDGE (all of them when unset).
use harness_mac::props::cross::fuzz_hist;
use libfuzzer_sys::fuzz_target;
use std::sync::OnceLock;

static JUDGE: OnceLock<String> = OnceLock::new();

fuzz_target!(|data: &[u8]| {
    let own = JUDGE.get_or_init(|| std::env::var("VERIF_FUZZ_JUDGE").unwrap_or_else(|_| "ALL".into()));
    if let Err(f) = fuzz_hist(data, own) {
        if f.rule != "harness" {
            panic!("{} {}: {}", own, f.fingerprint, f.detail);
        }
    }
});
