#![no_main]
//! C04 through libFuzzer: the input selects a region / front-end / activation and a history of up to
//! 14 steps; the MAC-command bytes of authentic downlinks, CFLists and DLSettings/RxDelay octets are
//! taken verbatim from it. Oracle (in the target): no panic, no hang, a joined device still transmits.
use harness_mac::props::c04::fuzz_history;
use libfuzzer_sys::fuzz_target;

fuzz_target!(|data: &[u8]| {
    if let Err(f) = fuzz_history(data) {
        if f.rule != "harness" {
            panic!("C04 {}: {}", f.fingerprint, f.detail);
        }
    }
});
