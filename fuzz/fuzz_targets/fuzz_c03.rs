#![no_main]
//! C03 through libFuzzer: every entry point, oracle inside the target.
use harness_mac::props::c03::{check_frame, check_new, check_stream, SETS};
use libfuzzer_sys::fuzz_target;

fuzz_target!(|data: &[u8]| {
    let data = &data[..data.len().min(255)];
    for s in SETS {
        if let Err(f) = check_stream(s, data) {
            panic!("C03 {}: {}", f.fingerprint, f.detail);
        }
    }
    if let Err(f) = check_new(data) {
        panic!("C03 {}: {}", f.fingerprint, f.detail);
    }
    if let Err(f) = check_frame(data) {
        panic!("C03 {}: {}", f.fingerprint, f.detail);
    }
});
