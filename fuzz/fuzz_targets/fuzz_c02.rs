#![no_main]
//! C02 through libFuzzer: bytes -> (keys, counter argument, frame), reference decoder inside the target.
use harness_mac::props::c02::{check_bytes, fuzz_decode};
use libfuzzer_sys::fuzz_target;

fuzz_target!(|data: &[u8]| {
    let (frame, nwk, app, fcnt) = fuzz_decode(data);
    if let Err(f) = check_bytes(&frame, &nwk, app.as_ref(), fcnt) {
        panic!("C02 {}: {}", f.fingerprint, f.detail);
    }
});
