//! Driving both device front-ends deterministically: the harness owns the radio, the timer, the
//! clock and every random draw. No threads, no wall clock, futures are polled by hand.

pub mod fronts;
pub mod history;
pub mod net;

use lora_modulation::BaseBandModulationParams;
use serde_json::{json, Value};
use std::cell::RefCell;
use std::rc::Rc;
use verif_core::SplitMix;

#[derive(Debug, Clone, Copy, PartialEq, Eq, Hash, PartialOrd, Ord)]
pub enum Slot {
    Gap1,
    Rx1,
    Gap2,
    Rx2,
    Idle,
}

impl Slot {
    pub fn name(self) -> &'static str {
        match self {
            Slot::Gap1 => "GAP1",
            Slot::Rx1 => "RX1",
            Slot::Gap2 => "GAP2",
            Slot::Rx2 => "RX2",
            Slot::Idle => "IDLE",
        }
    }
    pub fn from_name(s: &str) -> Slot {
        match s {
            "GAP1" => Slot::Gap1,
            "RX1" => Slot::Rx1,
            "GAP2" => Slot::Gap2,
            "RX2" => Slot::Rx2,
            _ => Slot::Idle,
        }
    }
    pub fn index(self) -> usize {
        self as usize
    }
}

#[derive(Debug, Clone, Copy, PartialEq, Eq, Hash)]
pub struct Rf {
    pub freq: u32,
    pub sf: u8,
    pub bw_hz: u32,
    pub cr: u8,
    pub max_payload: u8,
}

impl Rf {
    pub fn from_parts(freq: u32, bb: &BaseBandModulationParams, max_payload: u8) -> Rf {
        Rf { freq, sf: bb.sf.factor() as u8, bw_hz: bb.bw.hz(), cr: bb.cr.denom() as u8, max_payload }
    }
    pub fn json(&self) -> Value {
        json!({"freq": self.freq, "sf": self.sf, "bw_hz": self.bw_hz, "max_payload": self.max_payload})
    }
}

/// Everything observable at the device's environment boundary, in order.
#[derive(Debug, Clone, PartialEq, Eq)]
pub enum Ev {
    Tx { pw: i8, rf: Rf, bytes: Vec<u8> },
    /// async: setup_rx(config); single_ms = Some(buffer ms) for RxMode::Single, None for Continuous
    SetupRx { rf: Rf, single_ms: Option<u32> },
    /// nb: RxRequest
    RxRequest { rf: Rf },
    CancelRx,
    LowPower,
    TimerReset,
    TimerAt(u64),
    TimerDelay(u64),
    /// nb: Response::TimeoutRequest
    TimeoutReq(u32),
    Deliver { slot: Slot, bytes: Vec<u8> },
    Resp(String),
    Fault(usize),
    /// async: rx_continuous() started inside a transaction (between TX and RX1, or between the windows)
    /// although the radio's last configuration event is not a continuous receive set-up (the
    /// transmission, a single-shot window or low power came after it). Never recorded otherwise.
    ListenUnarmed,
}

impl Ev {
    pub fn json(&self) -> Value {
        match self {
            Ev::Tx { pw, rf, bytes } => json!({"tx": verif_core::hex(bytes), "pw": pw, "rf": rf.json()}),
            Ev::SetupRx { rf, single_ms } => json!({"setup_rx": rf.json(), "single_ms": single_ms}),
            Ev::RxRequest { rf } => json!({"rx_request": rf.json()}),
            Ev::CancelRx => json!("cancel_rx"),
            Ev::LowPower => json!("low_power"),
            Ev::TimerReset => json!("timer_reset"),
            Ev::TimerAt(t) => json!({"timer_at": t}),
            Ev::TimerDelay(t) => json!({"timer_delay": t}),
            Ev::TimeoutReq(t) => json!({"timeout_request": t}),
            Ev::Deliver { slot, bytes } => json!({"deliver": slot.name(), "bytes": verif_core::hex(bytes)}),
            Ev::Resp(s) => json!({"response": s}),
            Ev::Fault(k) => json!({"radio_fault_at_call": k}),
            Ev::ListenUnarmed => json!("rx_continuous_without_continuous_setup"),
        }
    }
}

pub const RNG_BUDGET: u64 = 20_000;
pub const HANG_MSG: &str = "verif-hang: RNG draw budget exceeded within one API call";

pub type Resolver = Box<dyn FnMut(Slot, usize, Option<&[u8]>) -> Option<Vec<u8>>>;

pub struct EnvInner {
    pub trace: Vec<Ev>,
    pub radio_calls: usize,
    pub fault_at: Option<usize>,
    pub fault_len: usize,
    pub faults_injected: usize,
    // rng
    pub rng_script: Vec<u32>,
    pub rng_pos: usize,
    pub rng_tail: SplitMix,
    pub rng_draws_this_call: u64,
    pub rng_log: Vec<u32>,
    // transaction tracking
    pub in_transaction: bool,
    /// a join attempt is in progress: the network answers exactly 5 s / 6 s after the end of the
    /// transmission, so a JoinAccept is only heard in a window that the device opened at that time
    pub joining_tx: bool,
    pub front_is_nb: bool,
    /// time of the last window start the device asked for (nb: TimeoutRequest, async: Timer::at)
    pub window_req: Option<u64>,
    pub singles: u8,
    pub last_tx: Option<Vec<u8>>,
    pub slot_counts: [usize; 5],
    /// C20: record (serialised, Debug) of the session at every event of an nb transaction
    pub capture_sessions: bool,
    pub captured_sessions: Vec<(String, String)>,
    /// RF configuration of the most recent receive set-up (survives take_trace)
    pub last_window: Option<Rf>,
    /// the radio's last configuration event was a continuous (Class C) receive set-up
    pub rxc_armed: bool,
    pub resolver: Option<Resolver>,
    // board behaviour
    pub tx_ms: u32,
    pub nb_async_tx: bool,
    pub snr: i8,
    pub rssi: i16,
    pub lead_ms: u32,
    pub buffer_ms: u32,
    pub nb_offset_ms: i32,
    pub nb_duration_ms: u32,
    pub nb_meddle: u32,
    /// refused calls made in mid-transaction so far (evidence)
    pub meddles: u64,
}

#[derive(Clone)]
pub struct Env(pub Rc<RefCell<EnvInner>>);

#[derive(Debug, Clone, Copy, PartialEq, Eq)]
pub struct RadioFault;

impl Env {
    pub fn new(seed: u64) -> Env {
        Env(Rc::new(RefCell::new(EnvInner {
            trace: vec![],
            radio_calls: 0,
            fault_at: None,
            fault_len: 1,
            faults_injected: 0,
            rng_script: vec![],
            rng_pos: 0,
            rng_tail: SplitMix::new(seed),
            rng_draws_this_call: 0,
            rng_log: vec![],
            in_transaction: false,
            joining_tx: false,
            front_is_nb: false,
            window_req: None,
            singles: 0,
            last_tx: None,
            slot_counts: [0; 5],
            capture_sessions: false,
            captured_sessions: vec![],
            last_window: None,
            rxc_armed: false,
            resolver: None,
            tx_ms: 0,
            nb_async_tx: false,
            snr: 0,
            rssi: -60,
            lead_ms: 0,
            buffer_ms: 0,
            nb_offset_ms: 0,
            nb_duration_ms: 100,
            nb_meddle: 0,
            meddles: 0,
        })))
    }
    pub fn push(&self, e: Ev) {
        let mut inner = self.0.borrow_mut();
        match &e {
            Ev::SetupRx { rf, single_ms } => {
                inner.last_window = Some(*rf);
                inner.rxc_armed = single_ms.is_none();
            }
            Ev::RxRequest { rf } => {
                inner.last_window = Some(*rf);
                inner.rxc_armed = false;
            }
            Ev::LowPower | Ev::Tx { .. } => inner.rxc_armed = false,
            _ => {}
        }
        inner.trace.push(e);
    }
    /// Counts one radio interaction; Err when this is the interaction chosen to fail.
    pub fn radio_call(&self) -> Result<(), RadioFault> {
        let mut e = self.0.borrow_mut();
        let k = e.radio_calls;
        e.radio_calls += 1;
        if e.fault_at.map(|f| k >= f && k < f + e.fault_len.max(1)).unwrap_or(false) {
            e.faults_injected += 1;
            e.trace.push(Ev::Fault(k));
            return Err(RadioFault);
        }
        Ok(())
    }
    pub fn begin_call(&self) {
        self.0.borrow_mut().rng_draws_this_call = 0;
    }
    pub fn begin_transaction(&self) {
        let mut e = self.0.borrow_mut();
        e.in_transaction = true;
        e.singles = 0;
        e.last_tx = None;
        e.slot_counts = [0; 5];
    }
    pub fn end_transaction(&self) {
        let mut e = self.0.borrow_mut();
        e.in_transaction = false;
        e.resolver = None;
    }
    pub fn set_resolver(&self, r: Resolver) {
        // a new script starts at its first frame in every slot (two RxcListen steps in a row never
        // pass through begin_transaction)
        let mut e = self.0.borrow_mut();
        e.slot_counts = [0; 5];
        e.resolver = Some(r);
    }
    /// Next scripted frame for `slot`, if any.
    pub fn next_frame(&self, slot: Slot) -> Option<Vec<u8>> {
        let (mut r, idx, tx) = {
            let mut e = self.0.borrow_mut();
            let r = e.resolver.take()?;
            let idx = e.slot_counts[slot.index()];
            (r, idx, e.last_tx.clone())
        };
        let f = r(slot, idx, tx.as_deref());
        let mut e = self.0.borrow_mut();
        e.resolver = Some(r);
        if let Some(b) = &f {
            e.slot_counts[slot.index()] += 1;
            e.trace.push(Ev::Deliver { slot, bytes: b.clone() });
            // join windows are time-respecting: the network's answer is on the air 5 s (RX1) / 6 s (RX2)
            // after the end of the JoinRequest; a window opened at another time hears nothing
            if e.joining_tx && matches!(slot, Slot::Rx1 | Slot::Rx2) {
                let second = if slot == Slot::Rx2 { 1000u64 } else { 0 };
                let expected = if e.front_is_nb {
                    (e.tx_ms.wrapping_add(5000).wrapping_add_signed(e.nb_offset_ms) as u64 + second) & 0xFFFF_FFFF
                } else {
                    (5000 + second + e.tx_ms as u64).saturating_sub(e.lead_ms as u64)
                };
                if e.window_req.map(|w| w & if e.front_is_nb { 0xFFFF_FFFF } else { u64::MAX }) != Some(expected) {
                    let w = e.window_req;
                    e.trace.push(Ev::Resp(format!("not heard: window opened at {w:?}, the join answer is on the air at {expected}")));
                    return None;
                }
            }
        }
        f
    }
    pub fn take_trace(&self) -> Vec<Ev> {
        std::mem::take(&mut self.0.borrow_mut().trace)
    }
    pub fn next_u32(&self) -> u32 {
        let mut e = self.0.borrow_mut();
        e.rng_draws_this_call += 1;
        if e.rng_draws_this_call > RNG_BUDGET {
            drop(e);
            panic!("{}", HANG_MSG);
        }
        let v = if e.rng_pos < e.rng_script.len() {
            let v = e.rng_script[e.rng_pos];
            e.rng_pos += 1;
            v
        } else {
            e.rng_tail.next_u32()
        };
        if e.rng_log.len() < 4096 {
            e.rng_log.push(v);
        }
        v
    }
}

/// The device's RNG: a script followed by a fair deterministic continuation, with a draw budget.
pub struct ScriptRng(pub Env);

impl rand_core::RngCore for ScriptRng {
    fn next_u32(&mut self) -> u32 {
        self.0.next_u32()
    }
    fn next_u64(&mut self) -> u64 {
        ((self.0.next_u32() as u64) << 32) | self.0.next_u32() as u64
    }
    fn fill_bytes(&mut self, dest: &mut [u8]) {
        for b in dest.iter_mut() {
            *b = self.0.next_u32() as u8;
        }
    }
    fn try_fill_bytes(&mut self, dest: &mut [u8]) -> Result<(), rand_core::Error> {
        self.fill_bytes(dest);
        Ok(())
    }
}

/// A stand-alone scripted RNG for the channel-selector dry run (hook), same budget rule.
pub struct DryRng {
    pub script: Vec<u32>,
    pub pos: usize,
    pub tail: SplitMix,
    pub draws: u64,
}

impl DryRng {
    pub fn new(script: Vec<u32>, seed: u64) -> Self {
        DryRng { script, pos: 0, tail: SplitMix::new(seed), draws: 0 }
    }
}

impl rand_core::RngCore for DryRng {
    fn next_u32(&mut self) -> u32 {
        self.draws += 1;
        if self.draws > RNG_BUDGET {
            panic!("{}", HANG_MSG);
        }
        if self.pos < self.script.len() {
            self.pos += 1;
            self.script[self.pos - 1]
        } else {
            self.tail.next_u32()
        }
    }
    fn next_u64(&mut self) -> u64 {
        ((self.next_u32() as u64) << 32) | self.next_u32() as u64
    }
    fn fill_bytes(&mut self, dest: &mut [u8]) {
        for b in dest.iter_mut() {
            *b = self.next_u32() as u8;
        }
    }
    fn try_fill_bytes(&mut self, dest: &mut [u8]) -> Result<(), rand_core::Error> {
        self.fill_bytes(dest);
        Ok(())
    }
}
