//! The two device front-ends behind one object-safe trait, with scripted radio / timer / RNG.

use super::*;
use lorawan_device::mac::{Session, VerifSnapshot, VerifTx};
use lorawan_device::region::{self, Configuration, Region, Subband, AU915, US915};
use lorawan_device::{async_device, nb_device, AppEui, AppKey, AppSKey, DevAddr, DevEui, JoinMode, NwkSKey};
use std::future::Future;
use std::task::{Context, Poll, Waker};
use verif_core::catch;
use rand_core::RngCore;

#[derive(Debug, Clone, Copy, PartialEq, Eq, Hash)]
pub enum RegionId {
    As923_1,
    As923_2,
    As923_3,
    As923_4,
    Au915,
    Eu868,
    Eu433,
    In865,
    Us915,
}

pub const REGIONS: [RegionId; 9] = [RegionId::Eu868, RegionId::Us915, RegionId::As923_1, RegionId::Au915, RegionId::Eu433, RegionId::In865, RegionId::As923_2, RegionId::As923_3, RegionId::As923_4];

impl RegionId {
    pub fn name(self) -> &'static str {
        match self {
            RegionId::As923_1 => "AS923_1",
            RegionId::As923_2 => "AS923_2",
            RegionId::As923_3 => "AS923_3",
            RegionId::As923_4 => "AS923_4",
            RegionId::Au915 => "AU915",
            RegionId::Eu868 => "EU868",
            RegionId::Eu433 => "EU433",
            RegionId::In865 => "IN865",
            RegionId::Us915 => "US915",
        }
    }
    pub fn from_name(s: &str) -> Option<RegionId> {
        REGIONS.into_iter().find(|r| r.name() == s)
    }
    pub fn fixed(self) -> bool {
        matches!(self, RegionId::Au915 | RegionId::Us915)
    }
}

#[derive(Debug, Clone, Copy, PartialEq, Eq, Hash)]
pub enum FrontKind {
    Nb,
    Async,
    AsyncClassC,
    /// async + Class C with a radio buffer of 64 / 255 bytes instead of 256 (board (14, 0) only; used by
    /// the buffer-boundary cases of C05, not by the shared generators)
    AsyncBuf64,
    AsyncBuf255,
    /// nb with a radio buffer of 64 / 255 bytes (board (14, 0) only)
    NbBuf64,
    NbBuf255,
    /// downlink queue of depth 1 — the crate's default `D` — instead of the harness's usual 4
    /// (nb / async + Class C, radio buffer 256, board (14, 0) only)
    NbQ1,
    AsyncQ1,
    /// async + Class C built by `new_with_seed` / `new_with_seed_and_session`: the crate's own PRNG instead of
    /// the scripted one (no RNG script, no draw budget), its default queue depth 1 (board (14, 0) only)
    AsyncSeeded,
}

impl FrontKind {
    pub fn name(self) -> &'static str {
        match self {
            FrontKind::Nb => "nb",
            FrontKind::Async => "async",
            FrontKind::AsyncClassC => "async+classC",
            FrontKind::AsyncBuf64 => "async+classC/buf64",
            FrontKind::AsyncBuf255 => "async+classC/buf255",
            FrontKind::NbBuf64 => "nb/buf64",
            FrontKind::NbBuf255 => "nb/buf255",
            FrontKind::NbQ1 => "nb/queue1",
            FrontKind::AsyncQ1 => "async+classC/queue1",
            FrontKind::AsyncSeeded => "async+classC/seeded",
        }
    }
    pub fn from_name(s: &str) -> FrontKind {
        match s {
            "nb" => FrontKind::Nb,
            "async+classC" => FrontKind::AsyncClassC,
            "async+classC/buf64" => FrontKind::AsyncBuf64,
            "async+classC/buf255" => FrontKind::AsyncBuf255,
            "nb/buf64" => FrontKind::NbBuf64,
            "nb/buf255" => FrontKind::NbBuf255,
            "nb/queue1" => FrontKind::NbQ1,
            "async+classC/queue1" => FrontKind::AsyncQ1,
            "async+classC/seeded" => FrontKind::AsyncSeeded,
            _ => FrontKind::Async,
        }
    }
    pub fn is_async(self) -> bool {
        !self.is_nb()
    }
    pub fn is_nb(self) -> bool {
        matches!(self, FrontKind::Nb | FrontKind::NbBuf64 | FrontKind::NbBuf255 | FrontKind::NbQ1)
    }
    /// size N of the device's radio buffer
    pub fn buf_size(self) -> usize {
        match self {
            FrontKind::AsyncBuf64 | FrontKind::NbBuf64 => 64,
            FrontKind::AsyncBuf255 | FrontKind::NbBuf255 => 255,
            _ => 256,
        }
    }
    /// depth D of the device's downlink queue
    pub fn queue_depth(self) -> usize {
        if matches!(self, FrontKind::NbQ1 | FrontKind::AsyncQ1 | FrontKind::AsyncSeeded) { 1 } else { 4 }
    }
    pub fn class_c(self) -> bool {
        matches!(self, FrontKind::AsyncClassC | FrontKind::AsyncBuf64 | FrontKind::AsyncBuf255 | FrontKind::AsyncQ1 | FrontKind::AsyncSeeded)
    }
}

/// (MAX_RADIO_POWER, ANTENNA_GAIN) combinations that are monomorphised
pub const BOARDS: [(u8, i8); 5] = [(14, 0), (10, 0), (22, -2), (30, 3), (14, 3)];

#[derive(Debug, Clone, PartialEq, Eq, Hash)]
pub struct DevCfg {
    pub region: RegionId,
    /// fixed plans only: (subband 1..=8, retries)
    pub join_bias: Option<(u8, usize)>,
    pub front: FrontKind,
    pub board: (u8, i8),
}

impl DevCfg {
    pub fn json(&self) -> Value {
        json!({"region": self.region.name(), "join_bias": self.join_bias.map(|(s, r)| json!([s, r])), "front": self.front.name(), "board": [self.board.0, self.board.1]})
    }
    pub fn from_json(v: &Value) -> DevCfg {
        DevCfg {
            region: RegionId::from_name(v["region"].as_str().unwrap_or("EU868")).unwrap_or(RegionId::Eu868),
            join_bias: v["join_bias"].as_array().map(|a| (a[0].as_u64().unwrap_or(1) as u8, a[1].as_u64().unwrap_or(1) as usize)),
            front: FrontKind::from_name(v["front"].as_str().unwrap_or("async")),
            board: (v["board"][0].as_u64().unwrap_or(14) as u8, v["board"][1].as_i64().unwrap_or(0) as i8),
        }
    }
    pub fn region_configuration(&self) -> Configuration {
        let sb = |n: u8| match n {
            1 => Subband::_1,
            2 => Subband::_2,
            3 => Subband::_3,
            4 => Subband::_4,
            5 => Subband::_5,
            6 => Subband::_6,
            7 => Subband::_7,
            _ => Subband::_8,
        };
        match self.region {
            RegionId::As923_1 => Configuration::new(Region::AS923_1),
            RegionId::As923_2 => Configuration::new(Region::AS923_2),
            RegionId::As923_3 => Configuration::new(Region::AS923_3),
            RegionId::As923_4 => Configuration::new(Region::AS923_4),
            RegionId::Eu868 => Configuration::new(Region::EU868),
            RegionId::Eu433 => Configuration::new(Region::EU433),
            RegionId::In865 => Configuration::new(Region::IN865),
            RegionId::Au915 => {
                let mut r = AU915::new();
                if let Some((s, n)) = self.join_bias {
                    if n == 1 {
                        r.set_join_bias(sb(s));
                    } else if n == 255 {
                        // a bias configured and withdrawn again before the device is built
                        r.set_join_bias(sb(s));
                        r.clear_join_bias();
                    } else {
                        r.set_join_bias_and_noncompliant_retries(sb(s), n);
                    }
                }
                r.into()
            }
            RegionId::Us915 => {
                let mut r = US915::new();
                if let Some((s, n)) = self.join_bias {
                    if n == 1 {
                        r.set_join_bias(sb(s));
                    } else if n == 255 {
                        // a bias configured and withdrawn again before the device is built
                        r.set_join_bias(sb(s));
                        r.clear_join_bias();
                    } else {
                        r.set_join_bias_and_noncompliant_retries(sb(s), n);
                    }
                }
                r.into()
            }
        }
    }
}

#[derive(Debug, Clone, PartialEq, Eq)]
pub enum Outcome {
    /// terminal response of the transaction, normalised across front-ends
    Resp(String),
    /// the API call returned an error
    Err(String),
    /// the API call panicked (message @ file:line); the device must be discarded
    Panic(String),
    /// async only: the top-level future is pending on the environment (nothing more will arrive)
    Blocked,
}

impl Outcome {
    pub fn text(&self) -> String {
        match self {
            Outcome::Resp(s) => s.clone(),
            Outcome::Err(s) => format!("Err({s})"),
            Outcome::Panic(s) => format!("PANIC({s})"),
            Outcome::Blocked => "Blocked".into(),
        }
    }
    pub fn is_panic(&self) -> bool {
        matches!(self, Outcome::Panic(_))
    }
}

pub trait Front {
    fn env(&self) -> Env;
    fn join_otaa(&mut self, dev_eui_wire: [u8; 8], join_eui_wire: [u8; 8], app_key: [u8; 16]) -> Outcome;
    fn join_abp(&mut self, nwk: [u8; 16], app: [u8; 16], dev_addr: u32) -> Outcome;
    fn send(&mut self, data: &[u8], port: u8, confirmed: bool) -> Outcome;
    fn rxc_listen(&mut self) -> Outcome;
    fn set_datarate(&mut self, dr: u8);
    fn get_datarate(&mut self) -> u8;
    fn set_adr(&mut self, on: bool);
    fn get_adr(&mut self) -> bool;
    fn session_json(&mut self) -> Option<Value>;
    /// `{:?}` of the session (every field, whether persisted or not), transient bookkeeping masked
    fn session_debug(&mut self) -> Option<String>;
    fn session_keys(&mut self) -> Option<([u8; 16], [u8; 16], u32)>;
    /// `get_fcnt_up()` where the front-end has that getter (outer None: it has not)
    fn api_fcnt_up(&mut self) -> Option<Option<u32>> {
        None
    }
    fn snapshot(&self) -> VerifSnapshot;
    fn tx_outcome(&self, rng: &mut DryRng, join: bool) -> VerifTx;
    fn take_downlinks(&mut self) -> Vec<(u8, Vec<u8>)>;
    fn set_class_c(&mut self, on: bool);
    /// Installs a session on the live device where the front-end offers that (`nb_device::Device::set_session`);
    /// false = this front-end has no such call (async: sessions are only accepted by the constructor).
    fn set_session(&mut self, session: &Value) -> Result<bool, String>;
    /// nb: `get_session()` and `set_session()` with that same session (cloned, or through its serialised
    /// form); Ok(false) where the front-end has no such call or there is no session
    fn hand_back(&mut self, _via_serde: bool) -> Result<bool, String> {
        Ok(false)
    }
}

/// `Uplink::overflowed` is transient by design (cleared before it is read again): masked.
pub fn norm_session_debug(s: &str) -> String {
    s.replace("overflowed: true", "overflowed: _").replace("overflowed: false", "overflowed: _")
}

fn dr_from(v: u8) -> region::DR {
    region::DR::from(v)
}

fn poll_limited<F: Future>(fut: F, max_polls: usize) -> Option<F::Output> {
    let mut fut = std::pin::pin!(fut);
    let mut cx = Context::from_waker(Waker::noop());
    for _ in 0..max_polls {
        if let Poll::Ready(v) = fut.as_mut().poll(&mut cx) {
            return Some(v);
        }
    }
    None
}

fn quality(env: &Env) -> lorawan_device::async_device::radio::RxQuality {
    let e = env.0.borrow();
    lorawan_device::async_device::radio::RxQuality::new(e.rssi, e.snr)
}

// ---------------------------------------------------------------- async front-end

pub struct ARadio<const P: u8, const G: i8> {
    env: Env,
}

pub struct ATimer {
    env: Env,
}

impl async_device::radio::Timer for ATimer {
    fn reset(&mut self) {
        self.env.push(Ev::TimerReset);
    }
    async fn at(&mut self, millis: u64) {
        self.env.0.borrow_mut().window_req = Some(millis);
        self.env.push(Ev::TimerAt(millis));
    }
    async fn delay_ms(&mut self, millis: u64) {
        self.env.push(Ev::TimerDelay(millis));
    }
}

impl<const P: u8, const G: i8> async_device::Timings for ARadio<P, G> {
    fn get_rx_window_lead_time_ms(&self) -> u32 {
        self.env.0.borrow().lead_ms
    }
    fn get_rx_window_buffer(&self) -> u32 {
        self.env.0.borrow().buffer_ms
    }
}

impl<const P: u8, const G: i8> async_device::radio::PhyRxTx for ARadio<P, G> {
    type PhyError = RadioFault;
    const ANTENNA_GAIN: i8 = G;
    const MAX_RADIO_POWER: u8 = P;

    async fn tx(&mut self, config: async_device::radio::TxConfig, buf: &[u8]) -> Result<u32, RadioFault> {
        // the frame is "handed to the radio" even when the call then fails
        self.env.push(Ev::Tx { pw: config.pw, rf: Rf::from_parts(config.rf.frequency, &config.rf.bb, config.rf.max_payload_len), bytes: buf.to_vec() });
        self.env.0.borrow_mut().last_tx = Some(buf.to_vec());
        self.env.radio_call()?;
        Ok(self.env.0.borrow().tx_ms)
    }

    async fn setup_rx(&mut self, config: async_device::radio::RxConfig) -> Result<(), RadioFault> {
        let single_ms = match config.mode {
            async_device::radio::RxMode::Single { ms } => Some(ms),
            async_device::radio::RxMode::Continuous => None,
        };
        self.env.push(Ev::SetupRx { rf: Rf::from_parts(config.rf.frequency, &config.rf.bb, config.rf.max_payload_len), single_ms });
        self.env.radio_call()?;
        if single_ms.is_some() {
            self.env.0.borrow_mut().singles += 1;
        }
        Ok(())
    }

    async fn rx_continuous(&mut self, rx_buf: &mut [u8]) -> Result<(usize, async_device::radio::RxQuality), RadioFault> {
        let env = self.env.clone();
        let mut counted = false;
        std::future::poll_fn(move |_cx| {
            if !counted {
                counted = true;
                if env.radio_call().is_err() {
                    return Poll::Ready(Err(RadioFault));
                }
                let unarmed = {
                    let e = env.0.borrow();
                    e.in_transaction && e.singles <= 1 && !e.rxc_armed
                };
                if unarmed {
                    env.push(Ev::ListenUnarmed);
                }
            }
            let slot = {
                let e = env.0.borrow();
                if !e.in_transaction {
                    Slot::Idle
                } else if e.singles == 0 {
                    Slot::Gap1
                } else if e.singles == 1 {
                    Slot::Gap2
                } else {
                    Slot::Idle
                }
            };
            match env.next_frame(slot) {
                Some(f) => {
                    let n = f.len().min(rx_buf.len());
                    rx_buf[..n].copy_from_slice(&f[..n]);
                    Poll::Ready(Ok((n, quality(&env))))
                }
                None => Poll::Pending,
            }
        })
        .await
    }

    async fn rx_single(&mut self, buf: &mut [u8]) -> Result<async_device::radio::RxStatus, RadioFault> {
        self.env.radio_call()?;
        let slot = if self.env.0.borrow().singles <= 1 { Slot::Rx1 } else { Slot::Rx2 };
        match self.env.next_frame(slot) {
            Some(f) => {
                let n = f.len().min(buf.len());
                buf[..n].copy_from_slice(&f[..n]);
                Ok(async_device::radio::RxStatus::Rx(n, quality(&self.env)))
            }
            None => Ok(async_device::radio::RxStatus::RxTimeout),
        }
    }

    async fn low_power(&mut self) -> Result<(), RadioFault> {
        self.env.push(Ev::LowPower);
        self.env.radio_call()?;
        Ok(())
    }
}

pub struct AsyncFront<const P: u8, const G: i8, const N: usize = 256, const D: usize = 4, RG: RngCore = ScriptRng> {
    dev: async_device::Device<ARadio<P, G>, ATimer, RG, N, D>,
    env: Env,
}

impl<const P: u8, const G: i8, const N: usize> AsyncFront<P, G, N, 1, lorawan_device::Prng> {
    /// the device built by the seed constructors (the crate's own PRNG)
    pub fn new_seeded(cfg: &DevCfg, env: Env, session: Option<&Value>, seed: u64) -> Result<Self, String> {
        let region = cfg.region_configuration();
        let (radio, timer) = (ARadio::<P, G> { env: env.clone() }, ATimer { env: env.clone() });
        let mut dev = match session {
            Some(v) => async_device::Device::new_with_seed_and_session(region, radio, timer, seed, Some(serde_json::from_value(v.clone()).map_err(|e| e.to_string())?)),
            None => async_device::Device::new_with_seed(region, radio, timer, seed),
        };
        if cfg.front.class_c() {
            dev.enable_class_c();
        }
        Ok(AsyncFront { dev, env })
    }
}

fn norm_async_err<E: std::fmt::Debug>(e: &async_device::Error<E>) -> String {
    match e {
        async_device::Error::Radio(_) => "Radio".into(),
        async_device::Error::Mac(m) => format!("Mac({m:?})"),
    }
}

impl<const P: u8, const G: i8, const N: usize, const D: usize> AsyncFront<P, G, N, D> {
    pub fn new(cfg: &DevCfg, env: Env, session: Option<&Value>) -> Result<Self, String> {
        let session: Option<Session> = match session {
            Some(v) => Some(serde_json::from_value(v.clone()).map_err(|e| e.to_string())?),
            None => None,
        };
        let (radio, timer) = (ARadio::<P, G> { env: env.clone() }, ATimer { env: env.clone() });
        let mut dev = match session {
            Some(s) => async_device::Device::new_with_session(cfg.region_configuration(), radio, timer, ScriptRng(env.clone()), Some(s)),
            None => async_device::Device::new(cfg.region_configuration(), radio, timer, ScriptRng(env.clone())),
        };
        if cfg.front.class_c() {
            dev.enable_class_c();
        }
        Ok(AsyncFront { dev, env })
    }
}

impl<const P: u8, const G: i8, const N: usize, const D: usize, RG: RngCore> Front for AsyncFront<P, G, N, D, RG> {
    fn env(&self) -> Env {
        self.env.clone()
    }
    fn join_otaa(&mut self, dev_eui_wire: [u8; 8], join_eui_wire: [u8; 8], app_key: [u8; 16]) -> Outcome {
        self.env.begin_call();
        self.env.begin_transaction();
        { let mut e = self.env.0.borrow_mut(); e.joining_tx = true; e.front_is_nb = false; e.window_req = None; }
        let mode = JoinMode::OTAA { deveui: DevEui::from(dev_eui_wire), appeui: AppEui::from(join_eui_wire), appkey: AppKey::from(app_key) };
        let dev = &mut self.dev;
        let r = catch(|| poll_limited(dev.join(&mode), 64));
        self.env.0.borrow_mut().joining_tx = false;
        self.env.end_transaction();
        let o = match r {
            Err(p) => Outcome::Panic(p),
            Ok(None) => Outcome::Blocked,
            Ok(Some(Ok(r))) => Outcome::Resp(format!("{r:?}")),
            Ok(Some(Err(e))) => Outcome::Err(norm_async_err(&e)),
        };
        self.env.push(Ev::Resp(o.text()));
        o
    }
    fn join_abp(&mut self, nwk: [u8; 16], app: [u8; 16], dev_addr: u32) -> Outcome {
        self.env.begin_call();
        let mode = JoinMode::ABP { nwkskey: NwkSKey::from(nwk), appskey: AppSKey::from(app), devaddr: DevAddr::from_value(dev_addr) };
        let dev = &mut self.dev;
        match catch(|| poll_limited(dev.join(&mode), 8)) {
            Err(p) => Outcome::Panic(p),
            Ok(Some(Ok(r))) => Outcome::Resp(format!("{r:?}")),
            Ok(Some(Err(e))) => Outcome::Err(norm_async_err(&e)),
            Ok(None) => Outcome::Blocked,
        }
    }
    fn send(&mut self, data: &[u8], port: u8, confirmed: bool) -> Outcome {
        self.env.begin_call();
        self.env.begin_transaction();
        let dev = &mut self.dev;
        let r = catch(|| poll_limited(dev.send(data, port, confirmed), 64));
        self.env.end_transaction();
        let o = match r {
            Err(p) => Outcome::Panic(p),
            Ok(None) => Outcome::Blocked,
            Ok(Some(Ok(r))) => Outcome::Resp(format!("{r:?}")),
            Ok(Some(Err(e))) => Outcome::Err(norm_async_err(&e)),
        };
        self.env.push(Ev::Resp(o.text()));
        o
    }
    fn rxc_listen(&mut self) -> Outcome {
        self.env.begin_call();
        let dev = &mut self.dev;
        let r = catch(|| poll_limited(dev.rxc_listen(), 4));
        let o = match r {
            Err(p) => Outcome::Panic(p),
            Ok(None) => Outcome::Blocked,
            Ok(Some(Ok(r))) => Outcome::Resp(format!("{r:?}")),
            Ok(Some(Err(e))) => Outcome::Err(norm_async_err(&e)),
        };
        self.env.0.borrow_mut().resolver = None;
        self.env.push(Ev::Resp(o.text()));
        o
    }
    fn set_datarate(&mut self, dr: u8) {
        self.dev.set_datarate(dr_from(dr));
    }
    fn get_datarate(&mut self) -> u8 {
        self.dev.get_datarate() as u8
    }
    fn set_adr(&mut self, on: bool) {
        self.dev.set_adr(on);
    }
    fn get_adr(&mut self) -> bool {
        self.dev.get_adr()
    }
    fn session_json(&mut self) -> Option<Value> {
        self.dev.get_session().map(|s| serde_json::to_value(s).expect("session serialises"))
    }
    fn session_debug(&mut self) -> Option<String> {
        self.dev.get_session().map(|s| norm_session_debug(&format!("{s:?}")))
    }
    fn session_keys(&mut self) -> Option<([u8; 16], [u8; 16], u32)> {
        self.dev.get_session().map(|s| (s.nwkskey().inner().0, s.appskey().inner().0, s.devaddr().value()))
    }
    fn snapshot(&self) -> VerifSnapshot {
        self.dev.verif_snapshot()
    }
    fn tx_outcome(&self, rng: &mut DryRng, join: bool) -> VerifTx {
        self.dev.verif_tx_outcome(rng, join)
    }
    fn take_downlinks(&mut self) -> Vec<(u8, Vec<u8>)> {
        let mut v = vec![];
        while let Some(d) = self.dev.take_downlink() {
            v.push((d.fport, d.data.to_vec()));
        }
        v
    }
    fn set_class_c(&mut self, on: bool) {
        if on {
            self.dev.enable_class_c()
        } else {
            self.dev.disable_class_c()
        }
    }
    fn set_session(&mut self, _session: &Value) -> Result<bool, String> {
        Ok(false)
    }
}

// ---------------------------------------------------------------- non-blocking front-end

#[derive(Debug)]
pub enum NbPhyEvent {
    TxComplete,
    RxDone,
}

pub struct NRadio<const P: u8, const G: i8> {
    env: Env,
    packet: Vec<u8>,
}

impl<const P: u8, const G: i8> lorawan_device::Timings for NRadio<P, G> {
    fn get_rx_window_offset_ms(&self) -> i32 {
        self.env.0.borrow().nb_offset_ms
    }
    fn get_rx_window_duration_ms(&self) -> u32 {
        self.env.0.borrow().nb_duration_ms
    }
}

impl<const P: u8, const G: i8> nb_device::radio::PhyRxTx for NRadio<P, G> {
    type PhyEvent = NbPhyEvent;
    type PhyError = RadioFault;
    type PhyResponse = ();
    const ANTENNA_GAIN: i8 = G;
    const MAX_RADIO_POWER: u8 = P;

    fn get_mut_radio(&mut self) -> &mut Self {
        self
    }
    fn get_received_packet(&mut self) -> &mut [u8] {
        &mut self.packet
    }
    fn handle_event(&mut self, event: nb_device::radio::Event<'_, Self>) -> Result<nb_device::radio::Response<Self>, RadioFault> {
        use nb_device::radio::{Event, Response};
        match event {
            Event::TxRequest(config, buf) => {
                self.env.push(Ev::Tx { pw: config.pw, rf: Rf::from_parts(config.rf.frequency, &config.rf.bb, config.rf.max_payload_len), bytes: buf.to_vec() });
                self.env.0.borrow_mut().last_tx = Some(buf.to_vec());
                self.env.radio_call()?;
                let e = self.env.0.borrow();
                if e.nb_async_tx {
                    Ok(Response::Txing)
                } else {
                    Ok(Response::TxDone(e.tx_ms))
                }
            }
            Event::RxRequest(rf) => {
                self.env.push(Ev::RxRequest { rf: Rf::from_parts(rf.frequency, &rf.bb, rf.max_payload_len) });
                self.env.radio_call()?;
                self.env.0.borrow_mut().singles += 1;
                Ok(Response::Rxing)
            }
            Event::CancelRx => {
                self.env.push(Ev::CancelRx);
                self.env.radio_call()?;
                Ok(Response::Idle)
            }
            Event::Phy(NbPhyEvent::TxComplete) => {
                self.env.radio_call()?;
                Ok(Response::TxDone(self.env.0.borrow().tx_ms))
            }
            Event::Phy(NbPhyEvent::RxDone) => {
                self.env.radio_call()?;
                let e = self.env.0.borrow();
                Ok(Response::RxDone(nb_device::radio::RxQuality::new(e.rssi, e.snr)))
            }
        }
    }
}

pub struct NbFront<const P: u8, const G: i8, const N: usize = 256, const D: usize = 4> {
    dev: nb_device::Device<NRadio<P, G>, ScriptRng, N, D>,
    env: Env,
}

impl<const P: u8, const G: i8, const N: usize, const D: usize> NbFront<P, G, N, D> {
    pub fn new(cfg: &DevCfg, env: Env, session: Option<&Value>) -> Result<Self, String> {
        let mut dev = nb_device::Device::new(cfg.region_configuration(), NRadio::<P, G> { env: env.clone(), packet: vec![] }, ScriptRng(env.clone()));
        if let Some(v) = session {
            let s: Session = serde_json::from_value(v.clone()).map_err(|e| e.to_string())?;
            dev.set_session(s);
        }
        Ok(NbFront { dev, env })
    }

    /// Drives one transaction after the initial API response.
    fn drive(&mut self, first: Result<nb_device::Response, nb_device::Error<NRadio<P, G>>>) -> Outcome {
        use nb_device::{Event, Response};
        let mut resp = first;
        // phases: 0 = waiting for RX1 start, 1 = in RX1, 2 = waiting for RX2 start, 3 = in RX2
        let mut phase = 0u8;
        let mut retried = false;
        let mut last_event_was: u8 = 0; // 0 = api call, 1 = timeout, 2 = rx done, 3 = tx complete
        for it in 0..2000u32 {
            // the application is free to call into the device while a transaction is in flight; the state
            // machine must refuse such calls and carry on. What the device answers is what the
            // application reacts to (a refusal: nothing; anything else: the new response).
            let pattern = self.env.0.borrow().nb_meddle;
            if pattern >> (it % 32) & 1 == 1 {
                let in_flight = match &resp {
                    Ok(Response::UplinkSending(_)) | Ok(Response::JoinRequestSending) => Some(0u8),
                    Ok(Response::TimeoutRequest(_)) => Some(if phase == 0 || phase == 2 { 1 } else { 2 }),
                    Ok(Response::NoUpdate) if phase == 1 || phase == 3 => Some(2),
                    _ => None,
                };
                if let Some(st) = in_flight {
                    self.env.0.borrow_mut().meddles += 1;
                    let pick = (pattern.rotate_right(it % 32 + 7) ^ it) % 5;
                    if pick == 4 {
                        // the application takes the session out and hands the very same session back in
                        // mid-transaction (cloned or through its serialised form): an identity, the
                        // transaction goes on
                        if let Err(e) = self.hand_back(pattern & 0x200 != 0) {
                            return if e.starts_with("panic") { Outcome::Panic(e) } else { Outcome::Err(e) };
                        }
                    } else {
                        let got = match (pick, st) {
                            (0, _) => self.dev.send(&[0xEE, 0xEE, 0xEE], 9, pattern & 0x100 != 0),
                            (1, _) => self.dev.join(JoinMode::OTAA { deveui: DevEui::from([0x11; 8]), appeui: AppEui::from([0x22; 8]), appkey: AppKey::from([0x33; 16]) }),
                            // a timer that fires although nothing was asked of it is tolerated while the frame is being sent
                            (2, 0) => self.dev.handle_event(Event::TimeoutFired),
                            // a radio interrupt while the device waits for a window to start: refused without touching the radio
                            (2, 1) | (3, 1) => self.dev.handle_event(Event::RadioEvent(nb_device::radio::Event::Phy(NbPhyEvent::RxDone))),
                            _ => self.dev.send(&[], 1, false),
                        };
                        match got {
                            Err(nb_device::Error::State(_)) => {}
                            Ok(Response::NoUpdate) if st == 0 => {}
                            other => {
                                // not refused: the application sees this response now
                                self.env.push(Ev::Resp("meddling call was not refused".into()));
                                resp = other;
                            }
                        }
                    }
                }
            }
            if self.env.0.borrow().capture_sessions {
                if let Some(sess) = self.dev.get_session() {
                    let pair = (serde_json::to_string(sess).expect("session serialises"), norm_session_debug(&format!("{sess:?}")));
                    self.env.0.borrow_mut().captured_sessions.push(pair);
                }
            }
            match resp {
                Err(e) => {
                    let txt = match &e {
                        nb_device::Error::Radio(_) => "Radio".to_string(),
                        nb_device::Error::State(s) => format!("State({s:?})"),
                        nb_device::Error::Mac(m) => format!("Mac({m:?})"),
                    };
                    // a radio error is one-shot (fault injection): a real application retries the event once
                    if matches!(e, nb_device::Error::Radio(_)) && !retried && last_event_was != 0 {
                        retried = true;
                        self.env.push(Ev::Resp(format!("Err({txt})")));
                        resp = match last_event_was {
                            1 => self.dev.handle_event(Event::TimeoutFired),
                            2 => self.dev.handle_event(Event::RadioEvent(nb_device::radio::Event::Phy(NbPhyEvent::RxDone))),
                            _ => self.dev.handle_event(Event::RadioEvent(nb_device::radio::Event::Phy(NbPhyEvent::TxComplete))),
                        };
                        continue;
                    }
                    // a packet that does not fit the device's radio buffer is refused with an error while the
                    // window stays open: the application carries on feeding events
                    if txt.contains("BufferTooSmall") && (phase == 1 || phase == 3) {
                        self.env.push(Ev::Resp(format!("Err({txt})")));
                        let slot = if phase == 1 { Slot::Rx1 } else { Slot::Rx2 };
                        resp = match self.env.next_frame(slot) {
                            Some(f) => {
                                self.dev.get_radio().packet = f;
                                last_event_was = 2;
                                self.dev.handle_event(Event::RadioEvent(nb_device::radio::Event::Phy(NbPhyEvent::RxDone)))
                            }
                            None => {
                                phase += 1;
                                last_event_was = 1;
                                self.dev.handle_event(Event::TimeoutFired)
                            }
                        };
                        continue;
                    }
                    return Outcome::Err(txt);
                }
                Ok(r) => {
                    retried = false;
                    match r {
                        Response::UplinkSending(_) | Response::JoinRequestSending => {
                            // asynchronous TX: complete it
                            last_event_was = 3;
                            resp = self.dev.handle_event(Event::RadioEvent(nb_device::radio::Event::Phy(NbPhyEvent::TxComplete)));
                        }
                        Response::TimeoutRequest(t) => {
                            self.env.push(Ev::TimeoutReq(t));
                            match phase {
                                0 | 2 => {
                                    self.env.0.borrow_mut().window_req = Some(t as u64);
                                    // window start timer: fire it
                                    phase += 1;
                                    last_event_was = 1;
                                    resp = self.dev.handle_event(Event::TimeoutFired);
                                }
                                _ => {
                                    // window is open: deliver the scripted frames, then let it time out
                                    let slot = if phase == 1 { Slot::Rx1 } else { Slot::Rx2 };
                                    match self.env.next_frame(slot) {
                                        Some(f) => {
                                            self.dev.get_radio().packet = f;
                                            last_event_was = 2;
                                            resp = self.dev.handle_event(Event::RadioEvent(nb_device::radio::Event::Phy(NbPhyEvent::RxDone)));
                                        }
                                        None => {
                                            phase += 1;
                                            last_event_was = 1;
                                            resp = self.dev.handle_event(Event::TimeoutFired);
                                        }
                                    }
                                }
                            }
                        }
                        Response::NoUpdate => {
                            // frame ignored, window still open (phase 1 or 3)
                            self.env.push(Ev::Resp("NoUpdate".into()));
                            if phase == 1 || phase == 3 {
                                let slot = if phase == 1 { Slot::Rx1 } else { Slot::Rx2 };
                                match self.env.next_frame(slot) {
                                    Some(f) => {
                                        self.dev.get_radio().packet = f;
                                        last_event_was = 2;
                                        resp = self.dev.handle_event(Event::RadioEvent(nb_device::radio::Event::Phy(NbPhyEvent::RxDone)));
                                    }
                                    None => {
                                        phase += 1;
                                        last_event_was = 1;
                                        resp = self.dev.handle_event(Event::TimeoutFired);
                                    }
                                }
                            } else {
                                return Outcome::Resp("NoUpdate".into());
                            }
                        }
                        other => return Outcome::Resp(format!("{other:?}")),
                    }
                }
            }
        }
        Outcome::Err("harness: nb transaction did not finish in 2000 steps".into())
    }
}

impl<const P: u8, const G: i8, const N: usize, const D: usize> Front for NbFront<P, G, N, D> {
    fn env(&self) -> Env {
        self.env.clone()
    }
    fn join_otaa(&mut self, dev_eui_wire: [u8; 8], join_eui_wire: [u8; 8], app_key: [u8; 16]) -> Outcome {
        self.env.begin_call();
        self.env.begin_transaction();
        { let mut e = self.env.0.borrow_mut(); e.joining_tx = true; e.front_is_nb = true; e.window_req = None; }
        let r = catch(|| {
            let first = self.dev.join(JoinMode::OTAA { deveui: DevEui::from(dev_eui_wire), appeui: AppEui::from(join_eui_wire), appkey: AppKey::from(app_key) });
            self.drive(first)
        });
        self.env.0.borrow_mut().joining_tx = false;
        self.env.end_transaction();
        let o = r.unwrap_or_else(Outcome::Panic);
        self.env.push(Ev::Resp(o.text()));
        o
    }
    fn join_abp(&mut self, nwk: [u8; 16], app: [u8; 16], dev_addr: u32) -> Outcome {
        self.env.begin_call();
        match catch(|| self.dev.join(JoinMode::ABP { nwkskey: NwkSKey::from(nwk), appskey: AppSKey::from(app), devaddr: DevAddr::from_value(dev_addr) })) {
            Err(p) => Outcome::Panic(p),
            Ok(Ok(r)) => Outcome::Resp(format!("{r:?}")),
            Ok(Err(_)) => Outcome::Err("abp".into()),
        }
    }
    fn send(&mut self, data: &[u8], port: u8, confirmed: bool) -> Outcome {
        self.env.begin_call();
        self.env.begin_transaction();
        let r = catch(|| {
            let first = self.dev.send(data, port, confirmed);
            self.drive(first)
        });
        self.env.end_transaction();
        let o = r.unwrap_or_else(Outcome::Panic);
        self.env.push(Ev::Resp(o.text()));
        o
    }
    fn rxc_listen(&mut self) -> Outcome {
        Outcome::Err("nb front-end has no Class C".into())
    }
    fn set_datarate(&mut self, dr: u8) {
        self.dev.set_datarate(dr_from(dr));
    }
    fn get_datarate(&mut self) -> u8 {
        self.dev.get_datarate() as u8
    }
    fn set_adr(&mut self, on: bool) {
        self.dev.set_adr(on);
    }
    fn get_adr(&mut self) -> bool {
        self.dev.get_adr()
    }
    fn session_json(&mut self) -> Option<Value> {
        self.dev.get_session().map(|s| serde_json::to_value(s).expect("session serialises"))
    }
    fn session_debug(&mut self) -> Option<String> {
        self.dev.get_session().map(|s| norm_session_debug(&format!("{s:?}")))
    }
    fn session_keys(&mut self) -> Option<([u8; 16], [u8; 16], u32)> {
        self.dev.get_session_keys().map(|k| (k.nwkskey.inner().0, k.appskey.inner().0, k.devaddr.value()))
    }
    fn api_fcnt_up(&mut self) -> Option<Option<u32>> {
        Some(self.dev.get_fcnt_up())
    }
    fn snapshot(&self) -> VerifSnapshot {
        self.dev.verif_snapshot()
    }
    fn tx_outcome(&self, rng: &mut DryRng, join: bool) -> VerifTx {
        self.dev.verif_tx_outcome(rng, join)
    }
    fn take_downlinks(&mut self) -> Vec<(u8, Vec<u8>)> {
        let mut v = vec![];
        while let Some(d) = self.dev.take_downlink() {
            v.push((d.fport, d.data.to_vec()));
        }
        v
    }
    fn set_class_c(&mut self, _on: bool) {}
    fn set_session(&mut self, session: &Value) -> Result<bool, String> {
        let s: Session = serde_json::from_value(session.clone()).map_err(|e| e.to_string())?;
        self.env.begin_call();
        catch(|| self.dev.set_session(s)).map_err(|p| format!("panic in set_session: {p}"))?;
        Ok(true)
    }
    fn hand_back(&mut self, via_serde: bool) -> Result<bool, String> {
        self.env.begin_call();
        let r = catch(|| -> Result<bool, String> {
            let Some(s) = self.dev.get_session().cloned() else { return Ok(false) };
            let s = if via_serde {
                let text = serde_json::to_string(&s).map_err(|e| format!("session does not serialise: {e}"))?;
                serde_json::from_str::<Session>(&text).map_err(|e| format!("the device's own session document is refused: {e}"))?
            } else {
                s
            };
            self.dev.set_session(s);
            Ok(true)
        });
        match r {
            Ok(x) => x,
            Err(p) => Err(format!("panic in get_session/set_session: {p}")),
        }
    }
}

// ---------------------------------------------------------------- construction

pub fn make_front(cfg: &DevCfg, env: Env, session: Option<&Value>) -> Result<Box<dyn Front>, String> {
    macro_rules! mk {
        ($p:literal, $g:literal) => {
            match cfg.front {
                FrontKind::Nb => Ok(Box::new(NbFront::<$p, $g, 256>::new(cfg, env, session)?) as Box<dyn Front>),
                _ => Ok(Box::new(AsyncFront::<$p, $g>::new(cfg, env, session)?) as Box<dyn Front>),
            }
        };
    }
    match (cfg.front, cfg.board) {
        (FrontKind::AsyncBuf64, (14, 0)) => return Ok(Box::new(AsyncFront::<14, 0, 64>::new(cfg, env, session)?) as Box<dyn Front>),
        (FrontKind::AsyncBuf255, (14, 0)) => return Ok(Box::new(AsyncFront::<14, 0, 255>::new(cfg, env, session)?) as Box<dyn Front>),
        (FrontKind::NbBuf64, (14, 0)) => return Ok(Box::new(NbFront::<14, 0, 64>::new(cfg, env, session)?) as Box<dyn Front>),
        (FrontKind::NbBuf255, (14, 0)) => return Ok(Box::new(NbFront::<14, 0, 255>::new(cfg, env, session)?) as Box<dyn Front>),
        (FrontKind::NbQ1, (14, 0)) => return Ok(Box::new(NbFront::<14, 0, 256, 1>::new(cfg, env, session)?) as Box<dyn Front>),
        (FrontKind::AsyncQ1, (14, 0)) => return Ok(Box::new(AsyncFront::<14, 0, 256, 1>::new(cfg, env, session)?) as Box<dyn Front>),
        (FrontKind::AsyncSeeded, (14, 0)) => {
            let seed = env.0.borrow().rng_tail.0;
            return Ok(Box::new(AsyncFront::<14, 0, 256, 1, lorawan_device::Prng>::new_seeded(cfg, env, session, seed)?) as Box<dyn Front>);
        }
        (FrontKind::AsyncBuf64 | FrontKind::AsyncBuf255 | FrontKind::NbBuf64 | FrontKind::NbBuf255 | FrontKind::NbQ1 | FrontKind::AsyncQ1 | FrontKind::AsyncSeeded, other) => return Err(format!("small radio buffers and depth-1 queues are only monomorphised for board (14, 0), not {other:?}")),
        _ => {}
    }
    match cfg.board {
        (14, 0) => mk!(14, 0),
        (10, 0) => mk!(10, 0),
        (22, -2) => mk!(22, -2),
        (30, 3) => mk!(30, 3),
        (14, 3) => mk!(14, 3),
        other => Err(format!("board {other:?} is not monomorphised")),
    }
}
