//! The harness's "network server": crafts downlinks / JoinAccepts with the independent reference
//! codec, decodes uplinks, and decides (reference model) whether a delivered frame must be accepted.

use serde_json::{json, Value};
use verif_core::oracle::refcodec::*;
use verif_core::{hex, unhex};

/// Downlink MAC commands as field values (encoded by hand, LoRaWAN 1.0.x section 5).
#[derive(Debug, Clone, PartialEq, Eq, Hash)]
pub enum Cmd {
    LinkAdrReq { dr: u8, txp: u8, mask: u16, cntl: u8, nbtrans: u8 },
    /// raw redundancy byte variant (RFU bit 7 reachable)
    LinkAdrReqRaw { dr_txp: u8, mask: u16, redundancy: u8 },
    DutyCycleReq(u8),
    RxParamSetupReq { dl_settings: u8, freq: u32 },
    DevStatusReq,
    NewChannelReq { idx: u8, freq: u32, dr_range: u8 },
    RxTimingSetupReq(u8),
    TxParamSetupReq(u8),
    DlChannelReq { idx: u8, freq: u32 },
    LinkCheckAns { margin: u8, gw: u8 },
    DeviceTimeAns { secs: u32, frac: u8 },
    Raw(Vec<u8>),
}

impl Cmd {
    /// freq in Hz (encoded /100, 24 bit)
    pub fn encode(&self, out: &mut Vec<u8>) {
        let f24 = |f: u32| {
            let v = (f / 100).to_le_bytes();
            [v[0], v[1], v[2]]
        };
        match self {
            Cmd::LinkAdrReq { dr, txp, mask, cntl, nbtrans } => {
                out.extend_from_slice(&[0x03, (dr << 4) | (txp & 15), *mask as u8, (*mask >> 8) as u8, ((cntl & 7) << 4) | (nbtrans & 15)]);
            }
            Cmd::LinkAdrReqRaw { dr_txp, mask, redundancy } => out.extend_from_slice(&[0x03, *dr_txp, *mask as u8, (*mask >> 8) as u8, *redundancy]),
            Cmd::DutyCycleReq(v) => out.extend_from_slice(&[0x04, *v]),
            Cmd::RxParamSetupReq { dl_settings, freq } => {
                out.extend_from_slice(&[0x05, *dl_settings]);
                out.extend_from_slice(&f24(*freq));
            }
            Cmd::DevStatusReq => out.push(0x06),
            Cmd::NewChannelReq { idx, freq, dr_range } => {
                out.extend_from_slice(&[0x07, *idx]);
                out.extend_from_slice(&f24(*freq));
                out.push(*dr_range);
            }
            Cmd::RxTimingSetupReq(v) => out.extend_from_slice(&[0x08, *v]),
            Cmd::TxParamSetupReq(v) => out.extend_from_slice(&[0x09, *v]),
            Cmd::DlChannelReq { idx, freq } => {
                out.extend_from_slice(&[0x0A, *idx]);
                out.extend_from_slice(&f24(*freq));
            }
            Cmd::LinkCheckAns { margin, gw } => out.extend_from_slice(&[0x02, *margin, *gw]),
            Cmd::DeviceTimeAns { secs, frac } => {
                out.push(0x0D);
                out.extend_from_slice(&secs.to_le_bytes());
                out.push(*frac);
            }
            Cmd::Raw(b) => out.extend_from_slice(b),
        }
    }
    pub fn encode_all(cmds: &[Cmd]) -> Vec<u8> {
        let mut o = vec![];
        for c in cmds {
            c.encode(&mut o);
        }
        o
    }
    pub fn json(&self) -> Value {
        match self {
            Cmd::LinkAdrReq { dr, txp, mask, cntl, nbtrans } => json!({"LinkADRReq": {"dr": dr, "txp": txp, "mask": format!("{mask:04x}"), "cntl": cntl, "nbtrans": nbtrans}}),
            Cmd::LinkAdrReqRaw { dr_txp, mask, redundancy } => json!({"LinkADRReqRaw": {"dr_txp": dr_txp, "mask": format!("{mask:04x}"), "redundancy": redundancy}}),
            Cmd::DutyCycleReq(v) => json!({"DutyCycleReq": v}),
            Cmd::RxParamSetupReq { dl_settings, freq } => json!({"RXParamSetupReq": {"dl_settings": dl_settings, "freq": freq}}),
            Cmd::DevStatusReq => json!("DevStatusReq"),
            Cmd::NewChannelReq { idx, freq, dr_range } => json!({"NewChannelReq": {"idx": idx, "freq": freq, "dr_range": dr_range}}),
            Cmd::RxTimingSetupReq(v) => json!({"RXTimingSetupReq": v}),
            Cmd::TxParamSetupReq(v) => json!({"TXParamSetupReq": v}),
            Cmd::DlChannelReq { idx, freq } => json!({"DlChannelReq": {"idx": idx, "freq": freq}}),
            Cmd::LinkCheckAns { margin, gw } => json!({"LinkCheckAns": [margin, gw]}),
            Cmd::DeviceTimeAns { secs, frac } => json!({"DeviceTimeAns": [secs, frac]}),
            Cmd::Raw(b) => json!({"Raw": hex(b)}),
        }
    }
    pub fn from_json(v: &Value) -> Cmd {
        let u = |x: &Value| x.as_u64().unwrap_or(0);
        let m = |x: &Value| u16::from_str_radix(x.as_str().unwrap_or("0"), 16).unwrap_or(0);
        if v.as_str() == Some("DevStatusReq") {
            return Cmd::DevStatusReq;
        }
        if let Some(o) = v.get("LinkADRReq") {
            return Cmd::LinkAdrReq { dr: u(&o["dr"]) as u8, txp: u(&o["txp"]) as u8, mask: m(&o["mask"]), cntl: u(&o["cntl"]) as u8, nbtrans: u(&o["nbtrans"]) as u8 };
        }
        if let Some(o) = v.get("LinkADRReqRaw") {
            return Cmd::LinkAdrReqRaw { dr_txp: u(&o["dr_txp"]) as u8, mask: m(&o["mask"]), redundancy: u(&o["redundancy"]) as u8 };
        }
        if let Some(o) = v.get("DutyCycleReq") {
            return Cmd::DutyCycleReq(u(o) as u8);
        }
        if let Some(o) = v.get("RXParamSetupReq") {
            return Cmd::RxParamSetupReq { dl_settings: u(&o["dl_settings"]) as u8, freq: u(&o["freq"]) as u32 };
        }
        if let Some(o) = v.get("NewChannelReq") {
            return Cmd::NewChannelReq { idx: u(&o["idx"]) as u8, freq: u(&o["freq"]) as u32, dr_range: u(&o["dr_range"]) as u8 };
        }
        if let Some(o) = v.get("RXTimingSetupReq") {
            return Cmd::RxTimingSetupReq(u(o) as u8);
        }
        if let Some(o) = v.get("TXParamSetupReq") {
            return Cmd::TxParamSetupReq(u(o) as u8);
        }
        if let Some(o) = v.get("DlChannelReq") {
            return Cmd::DlChannelReq { idx: u(&o["idx"]) as u8, freq: u(&o["freq"]) as u32 };
        }
        if let Some(o) = v.get("LinkCheckAns") {
            return Cmd::LinkCheckAns { margin: u(&o[0]) as u8, gw: u(&o[1]) as u8 };
        }
        if let Some(o) = v.get("DeviceTimeAns") {
            return Cmd::DeviceTimeAns { secs: u(&o[0]) as u32, frac: u(&o[1]) as u8 };
        }
        Cmd::Raw(unhex(v["Raw"].as_str().unwrap_or("")))
    }
}

/// What to deliver at a receive opportunity. Turned into bytes at interpretation time because
/// counters / keys / DevNonce depend on the run so far.
#[derive(Debug, Clone, PartialEq, Eq, Hash)]
pub enum Recipe {
    /// authentic downlink with counter = (last accepted, or -1 if none) + delta
    Auth { delta: i64, confirmed: bool, port: Option<u8>, payload_len: u8, fopts: Vec<Cmd>, frm_cmds: Vec<Cmd>, ack: bool, fpending: bool },
    /// byte-for-byte repetition of the i-th frame delivered so far (index scaled into range)
    Replay(u16),
    /// authentic frame (delta 1, empty) with one bit flipped (bit index scaled)
    BitFlip { bit: u16, with_cmds: bool },
    /// right wire counter, MIC computed for the neighbouring 16-bit epoch
    WrongEpoch { plus: bool },
    /// authentic frame of a foreign session (other keys)
    Foreign { same_addr: bool },
    /// longer than the window's data rate allows: payload such that the frame is max+5+excess bytes
    Oversize { authentic: bool, excess: u8 },
    /// JoinAccept for the pending JoinRequest
    JoinAccept { dl_settings: u8, rx_delay: u8, cflist: Option<RefCfList>, wrong_key: bool, stale_nonce: bool, flip_bit: Option<u16>, dev_addr: u32, net_id: u32, join_nonce: u32 },
    /// authentic frame whose length is exactly the largest the window's data rate allows (M + 5)
    MaxFit { confirmed: bool },
    Random(Vec<u8>),
    /// exact bytes
    Bytes(Vec<u8>),
    /// authentic frame with verbatim FOpts bytes (<= 15) and verbatim FRMPayload plaintext on any port,
    /// including the combination the specification forbids a sender to produce (FOpts together with a
    /// non-empty port-0 payload); only C04 generates it
    AuthRaw { delta: i64, confirmed: bool, fopts: Vec<u8>, port: Option<u8>, frm: Vec<u8> },
}

impl Recipe {
    pub fn auth_empty(delta: i64) -> Recipe {
        Recipe::Auth { delta, confirmed: false, port: None, payload_len: 0, fopts: vec![], frm_cmds: vec![], ack: false, fpending: false }
    }
    pub fn auth_cmds(delta: i64, fopts: Vec<Cmd>) -> Recipe {
        Recipe::Auth { delta, confirmed: false, port: None, payload_len: 0, fopts, frm_cmds: vec![], ack: false, fpending: false }
    }
    pub fn json(&self) -> Value {
        match self {
            Recipe::Auth { delta, confirmed, port, payload_len, fopts, frm_cmds, ack, fpending } => json!({"auth": {"delta": delta, "confirmed": confirmed, "port": port, "payload_len": payload_len,
                "fopts": fopts.iter().map(|c| c.json()).collect::<Vec<_>>(), "frm_cmds": frm_cmds.iter().map(|c| c.json()).collect::<Vec<_>>(), "ack": ack, "fpending": fpending}}),
            Recipe::Replay(i) => json!({"replay": i}),
            Recipe::BitFlip { bit, with_cmds } => json!({"bitflip": bit, "with_cmds": with_cmds}),
            Recipe::WrongEpoch { plus } => json!({"wrong_epoch": plus}),
            Recipe::Foreign { same_addr } => json!({"foreign": same_addr}),
            Recipe::Oversize { authentic, excess } => json!({"oversize": {"authentic": authentic, "excess": excess}}),
            Recipe::JoinAccept { dl_settings, rx_delay, cflist, wrong_key, stale_nonce, flip_bit, dev_addr, net_id, join_nonce } => {
                let c = match cflist {
                    None => json!(null),
                    Some(RefCfList::Type0(f)) => json!({"type0": f}),
                    Some(RefCfList::Type1(m)) => json!({"type1": hex(m)}),
                    Some(RefCfList::Raw(r)) => json!({"raw": hex(r)}),
                };
                json!({"join_accept": {"dl_settings": dl_settings, "rx_delay": rx_delay, "cflist": c, "wrong_key": wrong_key, "stale_nonce": stale_nonce, "flip_bit": flip_bit, "dev_addr": dev_addr, "net_id": net_id, "join_nonce": join_nonce}})
            }
            Recipe::MaxFit { confirmed } => json!({"max_fit": confirmed}),
            Recipe::Random(b) => json!({"random": hex(b)}),
            Recipe::Bytes(b) => json!({"bytes": hex(b)}),
            Recipe::AuthRaw { delta, confirmed, fopts, port, frm } => json!({"auth_raw": {"delta": delta, "confirmed": confirmed, "fopts": hex(fopts), "port": port, "frm": hex(frm)}}),
        }
    }
    pub fn from_json(v: &Value) -> Recipe {
        let u = |x: &Value| x.as_u64().unwrap_or(0);
        if let Some(o) = v.get("auth") {
            let cmds = |x: &Value| x.as_array().map(|a| a.iter().map(Cmd::from_json).collect()).unwrap_or_default();
            return Recipe::Auth { delta: o["delta"].as_i64().unwrap_or(1), confirmed: o["confirmed"].as_bool().unwrap_or(false), port: o["port"].as_u64().map(|p| p as u8), payload_len: u(&o["payload_len"]) as u8,
                fopts: cmds(&o["fopts"]), frm_cmds: cmds(&o["frm_cmds"]), ack: o["ack"].as_bool().unwrap_or(false), fpending: o["fpending"].as_bool().unwrap_or(false) };
        }
        if let Some(o) = v.get("auth_raw") {
            return Recipe::AuthRaw { delta: o["delta"].as_i64().unwrap_or(1), confirmed: o["confirmed"].as_bool().unwrap_or(false), fopts: unhex(o["fopts"].as_str().unwrap_or("")), port: o["port"].as_u64().map(|p| p as u8), frm: unhex(o["frm"].as_str().unwrap_or("")) };
        }
        if let Some(o) = v.get("replay") {
            return Recipe::Replay(u(o) as u16);
        }
        if let Some(o) = v.get("bitflip") {
            return Recipe::BitFlip { bit: u(o) as u16, with_cmds: v["with_cmds"].as_bool().unwrap_or(false) };
        }
        if let Some(o) = v.get("wrong_epoch") {
            return Recipe::WrongEpoch { plus: o.as_bool().unwrap_or(true) };
        }
        if let Some(o) = v.get("foreign") {
            return Recipe::Foreign { same_addr: o.as_bool().unwrap_or(true) };
        }
        if let Some(o) = v.get("oversize") {
            return Recipe::Oversize { authentic: o["authentic"].as_bool().unwrap_or(true), excess: u(&o["excess"]) as u8 };
        }
        if let Some(o) = v.get("join_accept") {
            let c = &o["cflist"];
            let cflist = if c.is_null() {
                None
            } else if let Some(a) = c["type0"].as_array() {
                let mut f = [0u32; 5];
                for (x, y) in f.iter_mut().zip(a.iter()) {
                    *x = y.as_u64().unwrap_or(0) as u32;
                }
                Some(RefCfList::Type0(f))
            } else if let Some(m) = c["type1"].as_str() {
                Some(RefCfList::Type1(unhex(m).try_into().unwrap_or([0; 9])))
            } else {
                Some(RefCfList::Raw(unhex(c["raw"].as_str().unwrap_or("")).try_into().unwrap_or([0; 16])))
            };
            return Recipe::JoinAccept { dl_settings: u(&o["dl_settings"]) as u8, rx_delay: u(&o["rx_delay"]) as u8, cflist, wrong_key: o["wrong_key"].as_bool().unwrap_or(false), stale_nonce: o["stale_nonce"].as_bool().unwrap_or(false),
                flip_bit: o["flip_bit"].as_u64().map(|b| b as u16), dev_addr: u(&o["dev_addr"]) as u32, net_id: u(&o["net_id"]) as u32, join_nonce: u(&o["join_nonce"]) as u32 };
        }
        if let Some(o) = v.get("max_fit") {
            return Recipe::MaxFit { confirmed: o.as_bool().unwrap_or(false) };
        }
        if let Some(o) = v.get("random") {
            return Recipe::Random(unhex(o.as_str().unwrap_or("")));
        }
        Recipe::Bytes(unhex(v["bytes"].as_str().unwrap_or("")))
    }
}

/// The statement's counter rule: the unique N congruent to `wire` (mod 2^16) with
/// last < N <= last + 16384 (any wire value when there is no accepted downlink yet).
pub fn fresh_counter(last: Option<u32>, wire: u16) -> Option<u32> {
    let Some(last) = last else { return Some(wire as u32) };
    let last = last as u64;
    let epoch = last & !0xFFFF;
    [epoch + wire as u64, epoch + 0x10000 + wire as u64].into_iter().find(|c| *c <= u32::MAX as u64 && *c > last && *c <= last + 16384).map(|c| c as u32)
}

#[derive(Debug, Clone)]
pub struct NetSession {
    pub nwk: [u8; 16],
    pub app: [u8; 16],
    pub dev_addr: u32,
    /// reference model: counter of the last downlink that had to be accepted
    pub last_down: Option<u32>,
}

#[derive(Debug, Clone)]
pub struct Net {
    pub app_key: [u8; 16],
    pub dev_eui: u64,
    pub join_eui: u64,
    pub session: Option<NetSession>,
    /// every frame delivered so far (for Replay)
    pub delivered: Vec<Vec<u8>>,
    /// DevNonce of the JoinRequest currently in flight / of the previous attempt
    pub cur_dev_nonce: Option<u16>,
    pub prev_dev_nonce: Option<u16>,
    pub fill: u8,
}

#[derive(Debug, Clone, PartialEq)]
pub enum Verdict {
    /// data frame that the statement says must be acted upon
    Accept { n: u32, confirmed: bool, fport: Option<u8>, plain: Vec<u8>, fopts: Vec<u8>, ftype: FType, ack: bool },
    /// valid JoinAccept for the pending request
    JoinAccept { desc: JoinAcceptDesc, nwk: [u8; 16], app: [u8; 16] },
    /// structurally a data frame but longer than the window's data rate allows
    Oversize,
    /// length between the admissible maxima of different RP002 revisions: not judged
    SizeDontCare,
    Reject(&'static str),
}

impl Net {
    pub fn new(app_key: [u8; 16], dev_eui: u64, join_eui: u64) -> Net {
        Net { app_key, dev_eui, join_eui, session: None, delivered: vec![], cur_dev_nonce: None, prev_dev_nonce: None, fill: 0 }
    }

    fn payload_bytes(&mut self, n: usize) -> Vec<u8> {
        (0..n)
            .map(|i| {
                self.fill = self.fill.wrapping_mul(31).wrapping_add(17);
                self.fill ^ i as u8
            })
            .collect()
    }

    /// Builds the bytes of a recipe. `fit` = (smallest, largest) admissible M of the window:
    /// Oversize frames exceed the largest, MaxFit frames have exactly the smallest.
    pub fn build(&mut self, r: &Recipe, fit: (u8, u8)) -> Vec<u8> {
        let max_payload = fit.1;
        let sess = self.session.clone();
        let base = |s: &NetSession, delta: i64| -> u32 {
            let last: i64 = s.last_down.map(|x| x as i64).unwrap_or(-1);
            (last + delta).clamp(0, u32::MAX as i64) as u32
        };
        match r {
            Recipe::Auth { delta, confirmed, port, payload_len, fopts, frm_cmds, ack, fpending } => {
                let Some(s) = sess else { return vec![0x60, 0, 0, 0, 0, 0, 0, 0, 1, 2, 3, 4] };
                let fo = Cmd::encode_all(fopts);
                let fc = Cmd::encode_all(frm_cmds);
                let payload = if !fc.is_empty() && fo.is_empty() {
                    RefPayload::Mac(fc)
                } else if let Some(p) = port {
                    if *p == 0 {
                        if fo.is_empty() { RefPayload::Mac(self.payload_bytes(*payload_len as usize)) } else { RefPayload::None }
                    } else {
                        RefPayload::Data { port: *p, data: self.payload_bytes(*payload_len as usize) }
                    }
                } else {
                    RefPayload::None
                };
                let mut fo = fo;
                fo.truncate(15);
                let d = DataDesc { ftype: if *confirmed { FType::ConfDown } else { FType::UnconfDown }, dev_addr: s.dev_addr, adr: false, adr_ack_req: false, ack: *ack, f_pending: *fpending, fcnt: base(&s, *delta), fopts: fo, payload };
                encode_data(&d, &s.nwk, Some(&s.app))
            }
            Recipe::AuthRaw { delta, confirmed, fopts, port, frm } => {
                let Some(s) = sess else { return vec![0x60, 0, 0, 0, 0, 0, 0, 0, 1, 2, 3, 4] };
                let mut fo = fopts.clone();
                fo.truncate(15);
                let payload = match port {
                    None => RefPayload::None,
                    Some(0) => RefPayload::Mac(frm.clone()),
                    Some(p) => RefPayload::Data { port: *p, data: frm.clone() },
                };
                let d = DataDesc { ftype: if *confirmed { FType::ConfDown } else { FType::UnconfDown }, dev_addr: s.dev_addr, adr: false, adr_ack_req: false, ack: false, f_pending: false, fcnt: base(&s, *delta), fopts: fo, payload };
                encode_data(&d, &s.nwk, Some(&s.app))
            }
            Recipe::Replay(i) => {
                if self.delivered.is_empty() {
                    return vec![];
                }
                let k = (*i as usize * self.delivered.len()) >> 16;
                self.delivered[k].clone()
            }
            Recipe::BitFlip { bit, with_cmds } => {
                let inner = if *with_cmds { Recipe::auth_cmds(1, vec![Cmd::DevStatusReq, Cmd::RxTimingSetupReq(3)]) } else { Recipe::Auth { delta: 1, confirmed: true, port: Some(7), payload_len: 5, fopts: vec![], frm_cmds: vec![], ack: false, fpending: false } };
                let mut f = self.build(&inner, fit);
                if !f.is_empty() {
                    let b = (*bit as usize * (f.len() * 8)) >> 16;
                    f[b / 8] ^= 1 << (b % 8);
                }
                f
            }
            Recipe::WrongEpoch { plus } => {
                let Some(s) = sess else { return vec![] };
                let n = base(&s, 1);
                let d = DataDesc { ftype: FType::UnconfDown, dev_addr: s.dev_addr, adr: false, adr_ack_req: false, ack: false, f_pending: false, fcnt: n, fopts: vec![], payload: RefPayload::Data { port: 3, data: vec![1, 2, 3] } };
                let mut f = encode_data(&d, &s.nwk, Some(&s.app));
                let l = f.len();
                let wrong = if *plus { n.wrapping_add(0x10000) } else { n.wrapping_sub(0x10000) };
                let mic = data_mic(&s.nwk, &f[..l - 4], wrong);
                f[l - 4..].copy_from_slice(&mic);
                f
            }
            Recipe::Foreign { same_addr } => {
                let (addr, last) = sess.as_ref().map(|s| (s.dev_addr, base(s, 1))).unwrap_or((0x11223344, 0));
                let d = DataDesc { ftype: FType::UnconfDown, dev_addr: if *same_addr { addr } else { addr ^ 0x0101_0101 }, adr: false, adr_ack_req: false, ack: true, f_pending: false, fcnt: last, fopts: Cmd::encode_all(&[Cmd::RxTimingSetupReq(5)]), payload: RefPayload::Data { port: 9, data: vec![9; 4] } };
                encode_data(&d, &[0xF0; 16], Some(&[0x0F; 16]))
            }
            Recipe::Oversize { authentic, excess } => {
                let total = (max_payload as usize + 5 + 1 + *excess as usize).min(255);
                let (nwk, app, addr, n) = match (&sess, authentic) {
                    (Some(s), true) => (s.nwk, s.app, s.dev_addr, base(s, 1)),
                    (Some(s), false) => ([0xEE; 16], [0xDD; 16], s.dev_addr, base(s, 1)),
                    _ => ([0xEE; 16], [0xDD; 16], 0, 0),
                };
                // MHDR(1) FHDR(7) FPort(1) payload MIC(4)
                let plen = total.saturating_sub(13);
                let d = DataDesc { ftype: FType::UnconfDown, dev_addr: addr, adr: false, adr_ack_req: false, ack: false, f_pending: false, fcnt: n, fopts: vec![], payload: RefPayload::Data { port: 5, data: self.payload_bytes(plen) } };
                encode_data(&d, &nwk, Some(&app))
            }
            Recipe::MaxFit { confirmed } => {
                let Some(s) = sess else { return vec![] };
                let total = (fit.0 as usize + 5).min(255);
                let plen = total.saturating_sub(13);
                let d = DataDesc { ftype: if *confirmed { FType::ConfDown } else { FType::UnconfDown }, dev_addr: s.dev_addr, adr: false, adr_ack_req: false, ack: false, f_pending: false, fcnt: base(&s, 1), fopts: vec![], payload: RefPayload::Data { port: 6, data: self.payload_bytes(plen) } };
                encode_data(&d, &s.nwk, Some(&s.app))
            }
            Recipe::JoinAccept { dl_settings, rx_delay, cflist, wrong_key, stale_nonce: _, flip_bit, dev_addr, net_id, join_nonce } => {
                let d = JoinAcceptDesc { join_nonce: *join_nonce & 0xFFFFFF, net_id: *net_id & 0xFFFFFF, dev_addr: *dev_addr, dl_settings: *dl_settings, rx_delay: *rx_delay, cflist: cflist.clone() };
                let key = if *wrong_key { [0x77; 16] } else { self.app_key };
                let mut f = encode_join_accept(&d, &key);
                if let Some(b) = flip_bit {
                    let k = (*b as usize * (f.len() * 8)) >> 16;
                    f[k / 8] ^= 1 << (k % 8);
                }
                f
            }
            Recipe::Random(b) | Recipe::Bytes(b) => b.clone(),
        }
    }

    /// Reference decision for a frame delivered while a session exists (data) or a join is pending.
    /// `joining`: the device has a JoinRequest in flight (OTAA state).
    pub fn judge(&self, frame: &[u8], fit: (u8, u8), joining: bool) -> Verdict {
        if joining {
            let Ok(clear) = join_accept_clear(frame, &self.app_key) else { return Verdict::Reject("not a JoinAccept") };
            if !join_accept_clear_mic_ok(&clear, &self.app_key) {
                return Verdict::Reject("JoinAccept MIC");
            }
            let desc = decode_join_accept_clear(&clear);
            let dn = self.cur_dev_nonce.unwrap_or(0);
            let nwk = derive_skey(&self.app_key, 1, desc.join_nonce, desc.net_id, dn);
            let app = derive_skey(&self.app_key, 2, desc.join_nonce, desc.net_id, dn);
            return Verdict::JoinAccept { desc, nwk, app };
        }
        let Some(s) = &self.session else { return Verdict::Reject("no session") };
        let Ok(v) = decode_data(frame) else { return Verdict::Reject("structure") };
        if frame.len() > fit.1 as usize + 5 {
            return Verdict::Oversize;
        }
        if frame.len() > fit.0 as usize + 5 {
            return Verdict::SizeDontCare;
        }
        // unique N == wire (mod 2^16) with last < N <= last + 16384 and N <= 2^32 - 1
        let n = fresh_counter(s.last_down, v.fcnt16);
        let Some(n) = n else { return Verdict::Reject("counter not fresh") };
        if !data_mic_ok(frame, &s.nwk, n) {
            return Verdict::Reject("MIC");
        }
        let plain = v.plaintext(Some(&s.nwk), Some(&s.app), n).unwrap_or_default();
        Verdict::Accept { n, confirmed: v.ftype.confirmed(), fport: v.fport, plain, fopts: v.fopts.clone(), ftype: v.ftype, ack: v.ack() }
    }
}
