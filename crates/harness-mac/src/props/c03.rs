//! C03 — parsing arbitrary bytes is total, bounds-safe and terminating.

use crate::visit::*;
use lorawan::certification::{parse_downlink_dut_commands, parse_uplink_dut_commands};
use lorawan::default_crypto::DefaultCrypto;
use lorawan::keys::AES128;
use lorawan::maccommands::{parse_downlink_mac_commands, parse_uplink_mac_commands, ParseError};
use lorawan::multicast::{parse_downlink_multicast_commands, parse_uplink_multicast_commands};
use lorawan::parser::{self, DecryptedDataPayload, DecryptedJoinAcceptPayload, DevNonce, EncryptedDataPayload, EncryptedJoinAcceptPayload, FrmPayload, JoinRequestPayload, PhyPayload};
use serde_json::{json, Value};
use verif_core::oracle::refcodec;
use verif_core::*;

#[derive(Debug, Clone, Copy, PartialEq, Eq)]
pub enum Set {
    DownMac,
    UpMac,
    DownDut,
    UpDut,
    DownMc,
    UpMc,
}

pub const SETS: [Set; 6] = [Set::DownMac, Set::UpMac, Set::DownDut, Set::UpDut, Set::DownMc, Set::UpMc];

impl Set {
    pub fn name(self) -> &'static str {
        match self {
            Set::DownMac => "down_mac",
            Set::UpMac => "up_mac",
            Set::DownDut => "down_dut",
            Set::UpDut => "up_dut",
            Set::DownMc => "down_mc",
            Set::UpMc => "up_mc",
        }
    }
    pub fn from_name(s: &str) -> Option<Set> {
        SETS.into_iter().find(|x| x.name() == s)
    }
    /// longest command payload of the set (without CID), for the framing grid
    pub fn longest(self) -> usize {
        match self {
            Set::DownMac => 5,
            Set::UpMac => 2,
            Set::DownDut => 8,
            Set::UpDut => 12,
            Set::DownMc => 29,
            Set::UpMc => 21,
        }
    }
}

pub struct Item {
    pub name: &'static str,
    pub cid: u8,
    pub bytes: Vec<u8>,
    pub fields: Fields,
}

type StreamOut = (Vec<Item>, Option<ParseError>);

macro_rules! run_set {
    ($iter:expr, $visit:path, $data:expr) => {{
        let mut it = $iter;
        let mut out: Vec<Item> = Vec::new();
        let mut err: Option<ParseError> = None;
        let mut steps = 0usize;
        loop {
            steps += 1;
            if steps > $data.len() + 4 {
                return Err(("terminates", format!("iterator yielded more than len+4 = {} items", $data.len() + 4)));
            }
            match it.next() {
                None => break,
                Some(Ok(c)) => {
                    if err.is_some() {
                        return Err(("fused-after-error", "iterator yielded a command after an error".to_string()));
                    }
                    let (name, fields) = $visit(&c);
                    let (cid, bytes, plen) = framing(&c);
                    let len = c.len();
                    if plen != len || bytes.len() != len || c.bytes() != &bytes[..] {
                        return Err(("len-consistent", format!("{name}: len() {len}, payload_len() {plen}, bytes().len() {}", bytes.len())));
                    }
                    out.push(Item { name, cid, bytes, fields });
                }
                Some(Err(e)) => {
                    if err.is_some() {
                        return Err(("one-error", "iterator yielded a second error".to_string()));
                    }
                    err = Some(e);
                }
            }
        }
        for _ in 0..3 {
            if it.next().is_some() {
                return Err(("fused-after-end", "iterator yielded an item after returning None".to_string()));
            }
        }
        Ok::<StreamOut, (&'static str, String)>((out, err))
    }};
}

fn run_stream(set: Set, data: &[u8]) -> Result<StreamOut, (&'static str, String)> {
    match set {
        Set::DownMac => run_set!(parse_downlink_mac_commands(data), visit_down_mac, data),
        Set::UpMac => run_set!(parse_uplink_mac_commands(data), visit_up_mac, data),
        Set::DownDut => run_set!(parse_downlink_dut_commands(data), visit_down_dut, data),
        Set::UpDut => run_set!(parse_uplink_dut_commands(data), visit_up_dut, data),
        Set::DownMc => run_set!(parse_downlink_multicast_commands(data), visit_down_mc, data),
        Set::UpMc => run_set!(parse_uplink_multicast_commands(data), visit_up_mc, data),
    }
}

fn stream_case(set: Set, data: &[u8]) -> Value {
    json!({"kind":"stream","set":set.name(),"data":hex(data)})
}

/// Returns (commands yielded, had error) on success.
pub fn check_stream(set: Set, data: &[u8]) -> Result<(usize, bool), Failure> {
    let r = match catch(|| run_stream(set, data)) {
        Ok(r) => r,
        Err(pm) => return Err(Failure::panic(stream_case(set, data), &pm).with_fp(format!("{} [{}]", panic_fingerprint(&pm), set.name()))),
    };
    let (items, err) = match r {
        Ok(x) => x,
        Err((rule, detail)) => return Err(Failure::new(rule, stream_case(set, data), detail).with_fp(format!("{rule}/{}", set.name()))),
    };
    // whole commands forming a prefix of the input
    let mut off = 0usize;
    for it in &items {
        let end = off + 1 + it.bytes.len();
        if end > data.len() || data[off] != it.cid || data[off + 1..end] != it.bytes[..] {
            return Err(Failure::new("prefix", stream_case(set, data), format!("command {} (cid {:#x}, {} bytes) at offset {off} is not the corresponding slice of the input", it.name, it.cid, it.bytes.len())).with_fp(format!("prefix/{}", set.name())));
        }
        off = end;
    }
    match err {
        None => {
            if off != data.len() {
                return Err(Failure::new("prefix", stream_case(set, data), format!("iterator ended without error after {off} of {} bytes", data.len())).with_fp(format!("silent-stop/{}", set.name())));
            }
        }
        Some(e) => {
            let c = match e {
                ParseError::UnknownCid(c) => c,
                ParseError::Truncated { cid } => cid,
            };
            if off >= data.len() || data[off] != c {
                return Err(Failure::new("error-position", stream_case(set, data), format!("error {e:?} does not name the CID at offset {off}")).with_fp(format!("error-position/{}", set.name())));
            }
        }
    }
    // the two LoRaWAN MAC sets: (CID, payload) list equals the specification's length table
    if matches!(set, Set::DownMac | Set::UpMac) {
        let (want, wend) = refcodec::split_cmds(data, set == Set::UpMac);
        let got: Vec<(u8, Vec<u8>)> = items.iter().map(|i| (i.cid, i.bytes.clone())).collect();
        if want != got || wend.is_err() != err.is_some() {
            return Err(Failure::new("spec-framing", stream_case(set, data), format!("reference split {want:?} (end {wend:?}) vs iterator {got:?} (err {err:?})")).with_fp(format!("spec-framing/{}", set.name())));
        }
        if let (Err(p), Some(e)) = (wend, err) {
            let unknown = if set == Set::UpMac { refcodec::up_len(data[p]).is_none() } else { refcodec::down_len(data[p]).is_none() };
            if unknown != matches!(e, ParseError::UnknownCid(_)) {
                return Err(Failure::new("spec-framing", stream_case(set, data), format!("error kind {e:?} but reference says unknown={unknown}")).with_fp(format!("spec-error-kind/{}", set.name())));
            }
        }
    }
    // the multicast-setup (TS005) and certification (TS009) sets: framing per the documents' own
    // length tables, written down here independently of the crate's `len` attributes and helpers
    if let Some((want, wend)) = ref_split_pkg(set, data) {
        let got: Vec<(u8, Vec<u8>)> = items.iter().map(|i| (i.cid, i.bytes.clone())).collect();
        let err_kind = err.map(|e| matches!(e, ParseError::UnknownCid(_)));
        let want_kind = wend.err().map(|(_, unknown)| unknown);
        if want != got || want_kind != err_kind {
            return Err(Failure::new("spec-framing", stream_case(set, data), format!("reference split {want:?} (end {wend:?}) vs iterator {got:?} (err {err:?})")).with_fp(format!("spec-framing/{}", set.name())));
        }
    }
    std::hint::black_box(&items.iter().map(|i| i.fields.len()).sum::<usize>());
    Ok((items.len(), err.is_some()))
}

/// Reference framing of the package command sets. `None` for the LoRaWAN MAC sets (refcodec owns
/// those). Lengths exclude the CID. Error = (offset, unknown CID?) — otherwise truncated.
///  TS005 downlink: PackageVersionReq 0, McGroupStatusReq 1, McGroupSetupReq 29 (id 1 + addr 4 + key 16
///  + min/max FCnt 4+4), McGroupDeleteReq 1, McClassCSessionReq 10 (id 1 + time 4 + timeout 1 + freq 3
///  + DR 1), McClassBSessionReq 10 (id 1 + time 4 + periodicity/timeout 1 + freq 3 + DR 1).
///  TS005 uplink: PackageVersionAns 2, McGroupStatusAns 1 + 5 per bit set in AnsGroupMask (low nibble
///  of the status octet), McGroupSetupAns 1, McGroupDeleteAns 1, McClassCSessionAns 4, McClassBSessionAns 4.
///  TS009 (the subset the crate names): DutResetReq/DutJoinReq/RxAppCntReq/LinkCheckReq/DutVersionsReq 0,
///  AdrBitChangeReq 1, TxPeriodicityChangeReq 1, RxAppCntAns 2, DutVersionsAns 12; TxFramesCtrlReq and
///  EchoIncPayloadReq/Ans carry no length and extend to the end of the frame (at least one octet).
fn ref_split_pkg(set: Set, data: &[u8]) -> Option<(Vec<(u8, Vec<u8>)>, Result<(), (usize, bool)>)> {
    enum L {
        Fixed(usize),
        Rest,
        GroupStatus,
    }
    let table = |cid: u8| -> Option<L> {
        Some(match (set, cid) {
            (Set::DownMc, 0x00) => L::Fixed(0),
            (Set::DownMc, 0x01) => L::Fixed(1),
            (Set::DownMc, 0x02) => L::Fixed(29),
            (Set::DownMc, 0x03) => L::Fixed(1),
            (Set::DownMc, 0x04) => L::Fixed(10),
            (Set::DownMc, 0x05) => L::Fixed(10),
            (Set::UpMc, 0x00) => L::Fixed(2),
            (Set::UpMc, 0x01) => L::GroupStatus,
            (Set::UpMc, 0x02) => L::Fixed(1),
            (Set::UpMc, 0x03) => L::Fixed(1),
            (Set::UpMc, 0x04) => L::Fixed(4),
            (Set::UpMc, 0x05) => L::Fixed(4),
            (Set::DownDut, 0x01 | 0x02 | 0x09 | 0x20 | 0x7F) => L::Fixed(0),
            (Set::DownDut, 0x04 | 0x06) => L::Fixed(1),
            (Set::DownDut, 0x07 | 0x08) => L::Rest,
            (Set::UpDut, 0x08) => L::Rest,
            (Set::UpDut, 0x09) => L::Fixed(2),
            (Set::UpDut, 0x7F) => L::Fixed(12),
            _ => return None,
        })
    };
    if matches!(set, Set::DownMac | Set::UpMac) {
        return None;
    }
    let mut out = vec![];
    let mut i = 0usize;
    while i < data.len() {
        let cid = data[i];
        let Some(l) = table(cid) else { return Some((out, Err((i, true)))) };
        let rest = &data[i + 1..];
        let n = match l {
            L::Fixed(n) => n,
            L::Rest => rest.len().max(1),
            L::GroupStatus => match rest.first() {
                Some(st) => 1 + 5 * (st & 0x0F).count_ones() as usize,
                None => 1,
            },
        };
        if rest.len() < n {
            return Some((out, Err((i, false))));
        }
        out.push((cid, rest[..n].to_vec()));
        i += 1 + n;
    }
    Some((out, Ok(())))
}

fn frame_case(data: &[u8]) -> Value {
    json!({"kind":"frame","data":hex(data)})
}

/// Calls every frame parser and every accessor of every successfully parsed view.
/// Returns how many of the parsers returned Ok.
pub fn check_frame(data: &[u8]) -> Result<u32, Failure> {
    let k1 = DefaultCrypto::new(&AES128([0x11; 16]));
    let k2 = DefaultCrypto::new(&AES128([0x22; 16]));
    let r = catch(|| {
        let mut oks = 0u32;
        let mut sink = 0u64;
        match parser::parse(data) {
            Ok(PhyPayload::Data(d)) => {
                oks += 1;
                sink = sink.wrapping_add(d.fhdr().fcnt() as u64);
            }
            Ok(PhyPayload::JoinRequest(j)) => {
                oks += 1;
                sink = sink.wrapping_add(j.dev_nonce().value() as u64);
            }
            Ok(PhyPayload::JoinAccept(j)) => {
                oks += 1;
                sink = sink.wrapping_add(j.as_bytes().len() as u64);
            }
            Err(e) => sink = sink.wrapping_add(e.to_string().len() as u64),
        }
        if let Ok(p) = EncryptedDataPayload::parse(data) {
            oks += 1;
            let h = p.fhdr();
            let fc = h.fctrl();
            sink = sink.wrapping_add(h.dev_addr().value() as u64 + h.mc_addr().value() as u64 + h.fcnt() as u64 + h.f_opts().len() as u64 + fc.f_opts_len() as u64 + fc.raw_value() as u64);
            sink = sink.wrapping_add((fc.adr() as u64) + (fc.adr_ack_req() as u64) + (fc.ack() as u64) + (fc.f_pending() as u64));
            sink = sink.wrapping_add(p.f_port().unwrap_or(0) as u64 + p.mic().0[0] as u64 + p.as_bytes().len() as u64 + p.is_uplink() as u64 + p.is_confirmed() as u64 + p.frame_type() as u64);
            sink = sink.wrapping_add(p.validate_mic(&k1, 0) as u64 + p.validate_mic(&k1, u32::MAX) as u64);
            if h.f_opts().len() != fc.f_opts_len() {
                return Err(("fopts-len", "f_opts().len() != fctrl().f_opts_len()".to_string()));
            }
            // MAC commands in FOpts through both MAC sets
            for c in parse_downlink_mac_commands(h.f_opts()).take(20) {
                if let Ok(c) = c {
                    sink = sink.wrapping_add(visit_down_mac(&c).1.len() as u64);
                }
            }
            for c in parse_uplink_mac_commands(h.f_opts()).take(20) {
                if let Ok(c) = c {
                    sink = sink.wrapping_add(visit_up_mac(&c).1.len() as u64);
                }
            }
        }
        // the caller's 32-bit counter is an input too: every epoch position relative to the wire counter
        const COUNTERS: [u32; 10] = [0xFFFF_0000, 0, 1, 0xFFFF, 0x1_0000, 0x7FFF_FFFF, 0x8000_0000, 0xFFFF_0002, 0xFFFF_FFFE, 0xFFFF_FFFF];
        for (ki, (nk, ak)) in [(Some(&k1), Some(&k2)), (None, Some(&k2)), (Some(&k1), None)].into_iter().enumerate() {
          for (ci, fcnt_arg) in COUNTERS.iter().enumerate() {
            if ci > 0 && (data.len() < 12 || ki > 0) {
                break; // shorter strings cannot be data frames; the other counters with the full key pair only
            }
            let mut b = data.to_vec();
            if let Ok(d) = DecryptedDataPayload::decrypt_in_place(&mut b, nk, ak, *fcnt_arg) {
                oks += 1;
                sink = sink.wrapping_add(d.fhdr().f_opts().len() as u64 + d.f_port().unwrap_or(0) as u64 + d.mic().0[3] as u64 + d.as_bytes().len() as u64 + d.frame_type() as u64 + d.is_uplink() as u64 + d.is_confirmed() as u64);
                match d.frm_payload() {
                    FrmPayload::Data(x) => sink = sink.wrapping_add(x.len() as u64),
                    FrmPayload::MacCommands(x) => {
                        for c in parse_downlink_mac_commands(x).take(300) {
                            if let Ok(c) = c {
                                sink = sink.wrapping_add(visit_down_mac(&c).1.len() as u64);
                            }
                        }
                    }
                    FrmPayload::None => {}
                }
            }
          }
        }
        let mut b = data.to_vec();
        if let Ok(d) = DecryptedDataPayload::check_mic_and_decrypt_in_place(&mut b, &k1, Some(&k2), COUNTERS[data.len() % COUNTERS.len()]) {
            oks += 1;
            sink = sink.wrapping_add(d.as_bytes().len() as u64);
        }
        if let Ok(j) = JoinRequestPayload::parse(data) {
            oks += 1;
            sink = sink.wrapping_add(j.join_eui().value() ^ j.dev_eui().value() ^ j.dev_nonce().value() as u64 ^ j.mic().0[0] as u64 ^ j.validate_mic(&k1) as u64 ^ j.as_bytes().len() as u64);
        }
        if let Ok(j) = EncryptedJoinAcceptPayload::parse(data) {
            oks += 1;
            sink = sink.wrapping_add(j.as_bytes().len() as u64);
        }
        let mut b = data.to_vec();
        if let Ok(j) = DecryptedJoinAcceptPayload::decrypt_in_place(&mut b, &k1) {
            oks += 1;
            sink = sink.wrapping_add(j.join_nonce().value() as u64 + j.net_id().value() as u64 + j.dev_addr().value() as u64 + j.dl_settings().raw_value() as u64 + j.rx_delay() as u64 + j.mic().0[1] as u64 + j.as_bytes().len() as u64);
            sink = sink.wrapping_add(j.validate_mic(&k1) as u64);
            sink = sink.wrapping_add(match j.c_f_list() {
                Some(parser::CfList::DynamicChannel(f)) => f.iter().map(|x| x.hz() as u64).sum::<u64>(),
                Some(parser::CfList::FixedChannel(m)) => m.as_ref().len() as u64,
                None => 0,
            });
            sink = sink.wrapping_add(j.derive_nwkskey(DevNonce::from_value(1), &k1).inner().0[0] as u64 + j.derive_appskey(DevNonce::from_value(1), &k1).inner().0[0] as u64);
        }
        let mut b = data.to_vec();
        if DecryptedJoinAcceptPayload::check_mic_and_decrypt_in_place(&mut b, &k2).is_ok() {
            oks += 1;
        }
        std::hint::black_box(sink);
        Ok(oks)
    });
    match r {
        Ok(Ok(n)) => Ok(n),
        Ok(Err((rule, d))) => Err(Failure::new(rule, frame_case(data), d)),
        Err(pm) => Err(Failure::panic(frame_case(data), &pm)),
    }
}

/// The checked per-command constructors (`XPayload::new(&[u8]) -> Result<..>`): whatever they accept
/// must be a view on which every accessor is callable, with `bytes().len() == len()`.
/// Returns the number of constructors that accepted the bytes.
pub fn check_new(data: &[u8]) -> Result<u32, Failure> {
    use lorawan::certification as ce;
    use lorawan::maccommands as mc;
    use lorawan::multicast as mu;
    let mut accepted = 0u32;
    macro_rules! via_new {
        ($( $ty:path => $wrap:path, $visit:path );* $(;)?) => {$(
            let r = catch(|| match <$ty>::new(data) {
                Ok(p) => {
                    let (bl, l) = (p.bytes().len(), p.len());
                    let c = $wrap(p);
                    let (name, fields) = $visit(&c);
                    Some((name, fields.len(), bl, l))
                }
                Err(_) => None,
            });
            match r {
                Err(pm) => return Err(Failure::panic(json!({"kind":"new","type":stringify!($ty),"data":hex(data)}), &pm).with_fp(format!("{} [new {}]", panic_fingerprint(&pm), stringify!($ty)))),
                Ok(Some((name, _, bl, l))) => {
                    accepted += 1;
                    if bl != l {
                        return Err(Failure::new("len-consistent", json!({"kind":"new","type":stringify!($ty),"data":hex(data)}), format!("{name}: new() accepted {} bytes; bytes().len() = {bl} but len() = {l}", data.len())).with_fp(format!("len-consistent/new/{name}")));
                    }
                }
                Ok(None) => {}
            }
        )*};
    }
    via_new! {
        mc::LinkCheckAnsPayload => mc::DownlinkMacCommand::LinkCheckAns, visit_down_mac;
        mc::LinkADRReqPayload => mc::DownlinkMacCommand::LinkADRReq, visit_down_mac;
        mc::DutyCycleReqPayload => mc::DownlinkMacCommand::DutyCycleReq, visit_down_mac;
        mc::RXParamSetupReqPayload => mc::DownlinkMacCommand::RXParamSetupReq, visit_down_mac;
        mc::NewChannelReqPayload => mc::DownlinkMacCommand::NewChannelReq, visit_down_mac;
        mc::RXTimingSetupReqPayload => mc::DownlinkMacCommand::RXTimingSetupReq, visit_down_mac;
        mc::TXParamSetupReqPayload => mc::DownlinkMacCommand::TXParamSetupReq, visit_down_mac;
        mc::DlChannelReqPayload => mc::DownlinkMacCommand::DlChannelReq, visit_down_mac;
        mc::DeviceTimeAnsPayload => mc::DownlinkMacCommand::DeviceTimeAns, visit_down_mac;
        mc::LinkADRAnsPayload => mc::UplinkMacCommand::LinkADRAns, visit_up_mac;
        mc::RXParamSetupAnsPayload => mc::UplinkMacCommand::RXParamSetupAns, visit_up_mac;
        mc::DevStatusAnsPayload => mc::UplinkMacCommand::DevStatusAns, visit_up_mac;
        mc::NewChannelAnsPayload => mc::UplinkMacCommand::NewChannelAns, visit_up_mac;
        mc::DlChannelAnsPayload => mc::UplinkMacCommand::DlChannelAns, visit_up_mac;
        ce::AdrBitChangeReqPayload => ce::DownlinkDUTCommand::AdrBitChangeReq, visit_down_dut;
        ce::TxPeriodicityChangeReqPayload => ce::DownlinkDUTCommand::TxPeriodicityChangeReq, visit_down_dut;
        ce::TxFramesCtrlReqPayload => ce::DownlinkDUTCommand::TxFramesCtrlReq, visit_down_dut;
        ce::EchoIncPayloadReqPayload => ce::DownlinkDUTCommand::EchoIncPayloadReq, visit_down_dut;
        ce::EchoIncPayloadAnsPayload => ce::UplinkDUTCommand::EchoIncPayloadAns, visit_up_dut;
        ce::RxAppCntAnsPayload => ce::UplinkDUTCommand::RxAppCntAns, visit_up_dut;
        ce::DutVersionsAnsPayload => ce::UplinkDUTCommand::DutVersionsAns, visit_up_dut;
        mu::McGroupStatusReqPayload => mu::DownlinkRemoteSetup::McGroupStatusReq, visit_down_mc;
        mu::McGroupSetupReqPayload => mu::DownlinkRemoteSetup::McGroupSetupReq, visit_down_mc;
        mu::McGroupDeleteReqPayload => mu::DownlinkRemoteSetup::McGroupDeleteReq, visit_down_mc;
        mu::McClassCSessionReqPayload => mu::DownlinkRemoteSetup::McClassCSessionReq, visit_down_mc;
        mu::McClassBSessionReqPayload => mu::DownlinkRemoteSetup::McClassBSessionReq, visit_down_mc;
        mu::PackageVersionAnsPayload => mu::UplinkRemoteSetup::PackageVersionAns, visit_up_mc;
        mu::McGroupStatusAnsPayload => mu::UplinkRemoteSetup::McGroupStatusAns, visit_up_mc;
        mu::McGroupSetupAnsPayload => mu::UplinkRemoteSetup::McGroupSetupAns, visit_up_mc;
        mu::McGroupDeleteAnsPayload => mu::UplinkRemoteSetup::McGroupDeleteAns, visit_up_mc;
        mu::McClassCSessionAnsPayload => mu::UplinkRemoteSetup::McClassCSessionAns, visit_up_mc;
        mu::McClassBSessionAnsPayload => mu::UplinkRemoteSetup::McClassBSessionAns, visit_up_mc;
    }
    Ok(accepted)
}

pub fn replay(case: &Value, _kf: &KnownFindings) -> Result<(), Failure> {
    let data = unhex(case["data"].as_str().unwrap_or(""));
    verif_core::hang::begin("all", &data);
    let r = replay_inner(case, &data);
    verif_core::hang::end();
    r
}

fn replay_inner(case: &Value, data: &[u8]) -> Result<(), Failure> {
    let data = data.to_vec();
    if case["kind"] == "new" {
        return check_new(&data).map(|_| ());
    }
    match case["kind"].as_str() {
        Some("stream") => check_stream(Set::from_name(case["set"].as_str().unwrap_or("")).unwrap_or(Set::DownMac), &data).map(|_| ()),
        Some("frame") => check_frame(&data).map(|_| ()),
        Some("all") | Some("fuzz_raw") => {
            for s in SETS {
                check_stream(s, &data)?;
            }
            check_new(&data)?;
            check_frame(&data).map(|_| ())
        }
        _ => Err(Failure::new("bad-replay", case.clone(), "unknown case kind")),
    }
}

fn one(st: &mut Stats, data: &[u8], sets: &[Set], frames: bool, distinct: bool) {
    // "terminating": a case that never returns is reported by the non-termination monitor
    verif_core::hang::begin("all", data);
    one_inner(st, data, sets, frames, distinct);
    verif_core::hang::end();
}

fn one_inner(st: &mut Stats, data: &[u8], sets: &[Set], frames: bool, distinct: bool) {
    let mut nt = false;
    for s in sets {
        st.eval();
        match check_stream(*s, data) {
            Ok((n, e)) => {
                if n > 0 {
                    nt = true;
                    st.class("stream-with-commands");
                }
                if e {
                    st.class("stream-with-error");
                    if n > 0 {
                        st.class("error-after-commands");
                    }
                }
            }
            Err(f) => st.fail(f),
        }
    }
    if frames {
        st.eval();
        match check_new(data) {
            Ok(n) => {
                if n > 0 {
                    nt = true;
                    st.class("checked-constructor-accepted");
                }
            }
            Err(f) => st.fail(f),
        }
        st.eval();
        match check_frame(data) {
            Ok(n) => {
                if n > 0 {
                    nt = true;
                    st.class("frame-parsed-ok");
                }
            }
            Err(f) => st.fail(f),
        }
    }
    if nt {
        if distinct {
            st.nt_distinct();
        } else {
            st.nt_hash(fnv64(data));
        }
        if st.want_sample() && st.evaluations % 7919 < 7 {
            st.sample(json!({"kind":"all","data":hex(data)}));
        }
    }
}

pub fn run(ctx: &mut Ctx) {
    let thorough = ctx.tier == Tier::Thorough;
    ctx.rule = format!("(a) exhaustive: every byte string of length 0..={} through the 6 MAC-command iterators and all frame parsers/decrypt entry points; (b) exhaustive framing grid: every CID 0..=255 x every payload length 0..=longest+2 x 4 fill patterns x 3 continuations per command set; (c) frame header grid: all 65536 MHDR x FCtrl pairs x lengths {{0..=33, 64, 255}}; (d) structured random streams <= 255 bytes (valid commands + mutations); (e) the checked per-command constructors XPayload::new(bytes) of all 32 non-empty payload types on every string of (a), on every payload of the framing grid and on the inputs of the frame grid, with every accessor of an accepted view called. Oracle: no panic, termination (a non-termination monitor reports any case that stays inside the code under test for more than 20 s), bounded steps, Ok* Err? None forever, yielded commands are consecutive slices of the input, error names the CID at its offset, bytes().len()==len(), LoRaWAN MAC, TS005 and TS009 sets agree with the documents' CID/length tables (written down independently), every accessor called. Non-trivial: some parser returned Ok with >= 1 command/field read; (a)-(c) distinct by construction, (d) by hash", if thorough { 3 } else { 2 });
    ctx.exhaustive = true;
    ctx.assumptions = vec!["the visitor (harness-mac/src/visit.rs) calls every public accessor; exhaustive matches make a new command a compile error".into(), "exhaustive only for the finite sub-spaces (a)-(c); (d) is sampled".into()];
    let seed = ctx.seed;
    // (a) exhaustive short strings
    let maxlen = if thorough { 3 } else { 2 };
    ctx.parallel(|ti, n, st| {
        one(st, &[], &SETS, true, true);
        for len in 1..=maxlen {
            let total: u64 = 1 << (8 * len);
            let mut v = ti as u64;
            while v < total {
                let b = v.to_be_bytes();
                one(st, &b[8 - len..], &SETS, true, true);
                v += n as u64;
            }
        }
        if ti == 0 {
            st.class_n("exhaustive-short-strings", 1);
        }
    });
    // (b) framing grid
    ctx.parallel(|ti, n, st| {
        let mut rng = SplitMix::new(seed ^ 0xC03B ^ ti as u64);
        for (si, set) in SETS.iter().enumerate() {
            for cid in 0..=255u8 {
                if (cid as usize + si) % n != ti {
                    continue;
                }
                for plen in 0..=set.longest() + 2 {
                    for fill in 0..4 {
                        let payload: Vec<u8> = match fill {
                            0 => vec![0; plen],
                            1 => vec![0xff; plen],
                            2 => (0..plen).map(|i| i as u8).collect(),
                            _ => rng.bytes(plen),
                        };
                        // the payload alone through the checked per-command constructors
                        if cid == 0 {
                            st.eval();
                            st.class("constructor-grid");
                            verif_core::hang::begin("new", &payload);
                            let r = check_new(&payload);
                            verif_core::hang::end();
                            match r {
                                Ok(k) => {
                                    if k > 0 {
                                        st.nt_distinct();
                                    }
                                }
                                Err(f) => st.fail(f),
                            }
                        }
                        for cont in 0..3 {
                            let mut d = vec![cid];
                            d.extend_from_slice(&payload);
                            match cont {
                                1 => d.extend_from_slice(&[0x06]),
                                2 => d.extend_from_slice(&[0x02, 1, 2, 0x06]),
                                _ => {}
                            }
                            st.class("framing-grid");
                            one(st, &d, &[*set], false, true);
                        }
                    }
                }
            }
        }
    });
    // (c) frame header grid
    let lens: Vec<usize> = (0..=33).chain([64usize, 255]).collect();
    ctx.parallel(|ti, n, st| {
        let mut rng = SplitMix::new(seed ^ 0xC03C ^ ti as u64);
        for mhdr in 0..=255u8 {
            if mhdr as usize % n != ti {
                continue;
            }
            let stride = if thorough { 1 } else { 5 };
            let mut fctrl = (mhdr as usize) % stride;
            while fctrl < 256 {
                for &l in &lens {
                    let mut d = rng.bytes(l);
                    if l > 0 {
                        d[0] = mhdr;
                    }
                    if l > 5 {
                        d[5] = fctrl as u8;
                    }
                    st.class("frame-header-grid");
                    one(st, &d, &[], true, true);
                }
                fctrl += stride;
            }
        }
    });
    // (d) structured random streams
    let n_random = ctx.tier.pick(200_000usize, 4_000_000);
    ctx.parallel(|ti, n, st| {
        let mut rng = SplitMix::new(seed ^ 0xC03D ^ ((ti as u64) << 20));
        for _ in 0..n_random / n {
            let set = *rng.pick(&SETS);
            let mut d = vec![];
            let ncmd = rng.below(8);
            for _ in 0..ncmd {
                // a plausible CID of the set followed by a payload of plausible length
                let cid = match rng.below(10) {
                    0 => rng.next_u32() as u8,
                    _ => *rng.pick(&[0u8, 1, 2, 3, 4, 5, 6, 7, 8, 9, 0x0a, 0x0d, 0x20, 0x7f]),
                };
                d.push(cid);
                let l = match rng.below(6) {
                    0 => rng.below(32) as usize,
                    _ => *rng.pick(&[0usize, 1, 2, 4, 5, 10, 12, 29]),
                };
                d.extend(rng.bytes(l));
            }
            // mutations
            if !d.is_empty() && rng.below(3) == 0 {
                let i = rng.below(d.len() as u64) as usize;
                d[i] ^= 1 << rng.below(8);
            }
            if rng.below(5) == 0 {
                let k = rng.below(d.len() as u64 + 1) as usize;
                d.truncate(k);
            }
            d.truncate(255);
            st.class("random-stream");
            one(st, &d, &[set], rng.below(8) == 0, false);
        }
    });
}
