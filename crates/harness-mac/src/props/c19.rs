//! C19 — MAC-command builders, parsers and identifier text forms round-trip.

use crate::props::c03::{check_stream, Set};
use crate::visit::*;
use lorawan::certification::*;
use lorawan::default_crypto::DefaultNetworkCrypto;
use lorawan::keys::{self, AES128};
use lorawan::maccommandcreator::*;
use lorawan::maccommands::{mac_commands_len, parse_downlink_mac_commands, parse_uplink_mac_commands, SerializableMacCommand};
use lorawan::multicast::*;
use lorawan::parser::{DevAddr, DevEui, DevNonce, JoinEui, JoinNonce, McAddr, NetId};
use serde_json::{json, Value};
use std::collections::BTreeMap;
use std::str::FromStr;
use verif_core::oracle::aes::Aes128;
use verif_core::oracle::refcodec;
use verif_core::*;

/// MaxEIRP coding of TXParamSetupReq (LoRaWAN 1.0.2+ section 5.9 table)
const MAX_EIRP_DBM: [i64; 16] = [8, 10, 12, 13, 14, 16, 18, 20, 21, 24, 26, 27, 29, 30, 33, 36];

/// how a setter argument maps to the values read back through the parser's accessors
#[derive(Clone, Copy)]
enum Map {
    /// unsigned field of `bits` bits, read back as is under `name`
    U(&'static str, u32),
    Bool(&'static str),
    /// 6-bit two's complement (DevStatusAns margin), argument is an i8
    Margin,
    /// 24-bit raw frequency, accessor reports Hz (raw * 100)
    Freq,
    DlSettings,
    Redundancy,
    Mask16,
    DrRange,
    MaxEirp,
    /// u32 nanoseconds stored as 1/256 s
    Nanos,
    /// u32 seconds (spec: little-endian)
    Seconds,
}

struct Field {
    setter: &'static str,
    map: Map,
    /// width of the setter's argument type in bits (domain of generated values)
    arg_bits: u32,
}

struct Cmd {
    name: &'static str,
    set: Set,
    fields: &'static [Field],
    /// applies (field index, value) in order to a fresh creator; returns built bytes and per-step "accepted"
    build: fn(&[(usize, u64)]) -> (Vec<u8>, Vec<bool>),
}

macro_rules! f {
    ($s:expr, $m:expr, $b:expr) => {
        Field { setter: $s, map: $m, arg_bits: $b }
    };
}

fn fr(v: u64) -> [u8; 3] {
    let b = (v as u32).to_le_bytes();
    [b[0], b[1], b[2]]
}

macro_rules! builder {
    ($ty:ty, |$c:ident, $i:ident, $v:ident| $body:expr) => {
        |steps: &[(usize, u64)]| -> (Vec<u8>, Vec<bool>) {
            let mut $c = <$ty>::new();
            let mut acc = vec![];
            for &($i, $v) in steps {
                let ok: bool = $body;
                acc.push(ok);
            }
            ($c.build().to_vec(), acc)
        }
    };
}

fn commands() -> Vec<Cmd> {
    vec![
        Cmd { name: "LinkCheckAns", set: Set::DownMac, fields: &[f!("set_margin", Map::U("margin", 8), 8), f!("set_gateway_count", Map::U("gateway_count", 8), 8)],
              build: builder!(LinkCheckAnsCreator, |c, i, v| { match i { 0 => { c.set_margin(v as u8); } _ => { c.set_gateway_count(v as u8); } } true }) },
        Cmd { name: "LinkADRReq", set: Set::DownMac, fields: &[f!("set_data_rate", Map::U("data_rate", 4), 8), f!("set_tx_power", Map::U("tx_power", 4), 8), f!("set_channel_mask", Map::Mask16, 16), f!("set_redundancy", Map::Redundancy, 8)],
              build: builder!(LinkADRReqCreator, |c, i, v| match i { 0 => c.set_data_rate(v as u8).is_ok(), 1 => c.set_tx_power(v as u8).is_ok(), 2 => { c.set_channel_mask([v as u8, (v >> 8) as u8]); true } _ => { c.set_redundancy(v as u8); true } }) },
        Cmd { name: "DutyCycleReq", set: Set::DownMac, fields: &[f!("set_max_duty_cycle", Map::U("max_duty_cycle_raw", 4), 8)],
              build: builder!(DutyCycleReqCreator, |c, _i, v| c.set_max_duty_cycle(v as u8).is_ok()) },
        Cmd { name: "RXParamSetupReq", set: Set::DownMac, fields: &[f!("set_dl_settings", Map::DlSettings, 8), f!("set_frequency", Map::Freq, 24)],
              build: builder!(RXParamSetupReqCreator, |c, i, v| { match i { 0 => { c.set_dl_settings(v as u8); } _ => { let b = fr(v); c.set_frequency(&b); } } true }) },
        Cmd { name: "DevStatusReq", set: Set::DownMac, fields: &[], build: builder!(DevStatusReqCreator, |c, _i, _v| { let _ = &c; true }) },
        Cmd { name: "NewChannelReq", set: Set::DownMac, fields: &[f!("set_channel_index", Map::U("channel_index", 8), 8), f!("set_frequency", Map::Freq, 24), f!("set_data_rate_range", Map::DrRange, 8)],
              build: builder!(NewChannelReqCreator, |c, i, v| { match i { 0 => { c.set_channel_index(v as u8); } 1 => { let b = fr(v); c.set_frequency(&b); } _ => { c.set_data_rate_range(v as u8); } } true }) },
        Cmd { name: "RXTimingSetupReq", set: Set::DownMac, fields: &[f!("set_delay", Map::U("delay", 4), 8)],
              build: builder!(RXTimingSetupReqCreator, |c, _i, v| c.set_delay(v as u8).is_ok()) },
        Cmd { name: "TXParamSetupReq", set: Set::DownMac, fields: &[f!("set_downlink_dwell_time", Map::Bool("downlink_dwell_time"), 1), f!("set_uplink_dwell_time", Map::Bool("uplink_dwell_time"), 1), f!("set_max_eirp", Map::MaxEirp, 8)],
              build: builder!(TXParamSetupReqCreator, |c, i, v| match i { 0 => { c.set_downlink_dwell_time(v != 0); true } 1 => { c.set_uplink_dwell_time(v != 0); true } _ => c.set_max_eirp(v as u8).is_ok() }) },
        Cmd { name: "DlChannelReq", set: Set::DownMac, fields: &[f!("set_channel_index", Map::U("channel_index", 8), 8), f!("set_frequency", Map::Freq, 24)],
              build: builder!(DlChannelReqCreator, |c, i, v| { match i { 0 => { c.set_channel_index(v as u8); } _ => { let b = fr(v); c.set_frequency(&b); } } true }) },
        Cmd { name: "DeviceTimeAns", set: Set::DownMac, fields: &[f!("set_seconds", Map::Seconds, 32), f!("set_nano_seconds", Map::Nanos, 32)],
              build: builder!(DeviceTimeAnsCreator, |c, i, v| match i { 0 => { c.set_seconds(v as u32); true } _ => c.set_nano_seconds(v as u32).is_ok() }) },
        // ---- uplink MAC
        Cmd { name: "LinkCheckReq", set: Set::UpMac, fields: &[], build: builder!(lorawan::maccommandcreator::LinkCheckReqCreator, |c, _i, _v| { let _ = &c; true }) },
        Cmd { name: "LinkADRAns", set: Set::UpMac, fields: &[f!("set_channel_mask_ack", Map::Bool("channel_mask_ack"), 1), f!("set_data_rate_ack", Map::Bool("data_rate_ack"), 1), f!("set_tx_power_ack", Map::Bool("power_ack"), 1)],
              build: builder!(LinkADRAnsCreator, |c, i, v| { match i { 0 => { c.set_channel_mask_ack(v != 0); } 1 => { c.set_data_rate_ack(v != 0); } _ => { c.set_tx_power_ack(v != 0); } } true }) },
        Cmd { name: "DutyCycleAns", set: Set::UpMac, fields: &[], build: builder!(DutyCycleAnsCreator, |c, _i, _v| { let _ = &c; true }) },
        Cmd { name: "RXParamSetupAns", set: Set::UpMac, fields: &[f!("set_channel_ack", Map::Bool("channel_ack"), 1), f!("set_rx2_data_rate_ack", Map::Bool("rx2_data_rate_ack"), 1), f!("set_rx1_data_rate_offset_ack", Map::Bool("rx1_dr_offset_ack"), 1)],
              build: builder!(RXParamSetupAnsCreator, |c, i, v| { match i { 0 => { c.set_channel_ack(v != 0); } 1 => { c.set_rx2_data_rate_ack(v != 0); } _ => { c.set_rx1_data_rate_offset_ack(v != 0); } } true }) },
        Cmd { name: "DevStatusAns", set: Set::UpMac, fields: &[f!("set_battery", Map::U("battery", 8), 8), f!("set_margin", Map::Margin, 8)],
              build: builder!(DevStatusAnsCreator, |c, i, v| match i { 0 => { c.set_battery(v as u8); true } _ => c.set_margin(v as u8 as i8).is_ok() }) },
        Cmd { name: "NewChannelAns", set: Set::UpMac, fields: &[f!("set_channel_frequency_ack", Map::Bool("channel_freq_ack"), 1), f!("set_data_rate_range_ack", Map::Bool("data_rate_range_ack"), 1)],
              build: builder!(NewChannelAnsCreator, |c, i, v| { match i { 0 => { c.set_channel_frequency_ack(v != 0); } _ => { c.set_data_rate_range_ack(v != 0); } } true }) },
        Cmd { name: "RXTimingSetupAns", set: Set::UpMac, fields: &[], build: builder!(RXTimingSetupAnsCreator, |c, _i, _v| { let _ = &c; true }) },
        Cmd { name: "TXParamSetupAns", set: Set::UpMac, fields: &[], build: builder!(TXParamSetupAnsCreator, |c, _i, _v| { let _ = &c; true }) },
        Cmd { name: "DlChannelAns", set: Set::UpMac, fields: &[f!("set_channel_frequency_ack", Map::Bool("channel_freq_ack"), 1), f!("set_uplink_frequency_exists_ack", Map::Bool("uplink_freq_ack"), 1)],
              build: builder!(DlChannelAnsCreator, |c, i, v| { match i { 0 => { c.set_channel_frequency_ack(v != 0); } _ => { c.set_uplink_frequency_exists_ack(v != 0); } } true }) },
        Cmd { name: "DeviceTimeReq", set: Set::UpMac, fields: &[], build: builder!(DeviceTimeReqCreator, |c, _i, _v| { let _ = &c; true }) },
        // ---- multicast setup (fixed-length creators with setters)
        Cmd { name: "PackageVersionAns", set: Set::UpMc, fields: &[f!("package_identifier", Map::U("package_identifier", 8), 8), f!("package_version", Map::U("package_version", 8), 8)],
              build: builder!(PackageVersionAnsCreator, |c, i, v| { match i { 0 => { c.package_identifier(v as u8); } _ => { c.package_version(v as u8); } } true }) },
        Cmd { name: "McGroupDeleteReq", set: Set::DownMc, fields: &[f!("mc_group_id_header", Map::U("mc_group_id_header", 2), 8)],
              build: builder!(McGroupDeleteReqCreator, |c, _i, v| { c.mc_group_id_header(v as u8); true }) },
        Cmd { name: "McGroupDeleteAns", set: Set::UpMc, fields: &[f!("mc_group_id_header", Map::U("mc_group_id_header", 2), 8), f!("mc_group_undefined", Map::Bool("mc_group_undefined"), 1)],
              build: builder!(McGroupDeleteAnsCreator, |c, i, v| { match i { 0 => { c.mc_group_id_header(v as u8); } _ => { c.mc_group_undefined(v != 0); } } true }) },
        Cmd { name: "McGroupSetupAns", set: Set::UpMc, fields: &[f!("mc_group_id_header", Map::U("mc_group_id_header", 2), 8)],
              build: builder!(McGroupSetupAnsCreator, |c, _i, v| { c.mc_group_id_header(v as u8); true }) },
        Cmd { name: "McGroupStatusReq", set: Set::DownMc, fields: &[f!("req_group_mask", Map::U("req_group_mask", 4), 8)],
              build: builder!(McGroupStatusReqCreator, |c, _i, v| { c.req_group_mask(v as u8); true }) },
    ]
}

/// expected accessor values for one field after `set(v)`; `None` = the value is out of range
fn expect(map: Map, v: u64, out: &mut BTreeMap<&'static str, i64>, truncated: bool) -> bool {
    // returns whether v is inside the field's range
    match map {
        Map::U(name, bits) => {
            let m = (1u64 << bits) - 1;
            let inr = v <= m;
            out.insert(name, if inr || truncated { (v & m) as i64 } else { 0 });
            inr
        }
        Map::Bool(name) => {
            out.insert(name, (v != 0) as i64);
            true
        }
        Map::Margin => {
            let s = v as u8 as i8;
            let inr = (-32..=31).contains(&s);
            let val = if inr {
                s as i64
            } else if truncated {
                // low 6 bits, sign-extended
                (((s as u8) << 2) as i8 >> 2) as i64
            } else {
                0
            };
            out.insert("margin", val);
            inr
        }
        Map::Freq => {
            let inr = v <= 0xFF_FFFF;
            out.insert("frequency", ((v & 0xFF_FFFF) * 100) as i64);
            inr
        }
        Map::DlSettings => {
            out.insert("rx1_dr_offset", ((v >> 4) & 7) as i64);
            out.insert("rx2_data_rate", (v & 15) as i64);
            out.insert("dl_raw", (v & 0xff) as i64);
            true
        }
        Map::Redundancy => {
            out.insert("ch_mask_cntl", ((v >> 4) & 7) as i64);
            out.insert("nb_trans", (v & 15) as i64);
            out.insert("redundancy_raw", (v & 0xff) as i64);
            true
        }
        Map::Mask16 => {
            out.insert("mask0", (v & 0xff) as i64);
            out.insert("mask1", ((v >> 8) & 0xff) as i64);
            true
        }
        Map::DrRange => {
            let (mn, mx) = (v & 15, (v >> 4) & 15);
            if mx < mn {
                out.insert("dr_range_err", 1);
            } else {
                out.insert("dr_min", mn as i64);
                out.insert("dr_max", mx as i64);
                out.insert("dr_raw", (v & 0xff) as i64);
            }
            true
        }
        Map::MaxEirp => {
            let inr = v <= 15;
            out.insert("max_eirp", if inr || truncated { MAX_EIRP_DBM[(v & 15) as usize] } else { MAX_EIRP_DBM[0] });
            inr
        }
        Map::Nanos => {
            let inr = v <= 999_999_999;
            let raw = v / 3_906_250;
            out.insert("nano_seconds", if inr || truncated { ((raw & 0xff) * 3_906_250) as i64 } else { 0 });
            inr
        }
        Map::Seconds => {
            out.insert("seconds", (v & 0xFFFF_FFFF) as i64);
            true
        }
    }
}

fn parse_one(set: Set, bytes: &[u8]) -> Result<(&'static str, Fields), String> {
    macro_rules! one {
        ($it:expr, $visit:path) => {{
            let mut it = $it;
            let first = it.next();
            let rest = it.next();
            match (first, rest) {
                (Some(Ok(c)), None) => {
                    if 1 + c.len() != bytes.len() {
                        return Err(format!("parsed command covers {} of {} built bytes", 1 + c.len(), bytes.len()));
                    }
                    Ok($visit(&c))
                }
                (a, b) => Err(format!("built bytes do not parse as exactly one command: first={:?} second_present={}", a.map(|x| x.is_ok()), b.is_some())),
            }
        }};
    }
    match set {
        Set::DownMac => one!(parse_downlink_mac_commands(bytes), visit_down_mac),
        Set::UpMac => one!(parse_uplink_mac_commands(bytes), visit_up_mac),
        Set::DownDut => one!(parse_downlink_dut_commands(bytes), visit_down_dut),
        Set::UpDut => one!(parse_uplink_dut_commands(bytes), visit_up_dut),
        Set::DownMc => one!(parse_downlink_multicast_commands(bytes), visit_down_mc),
        Set::UpMc => one!(parse_uplink_multicast_commands(bytes), visit_up_mc),
    }
}

fn cmd_case(cmd: &Cmd, steps: &[(usize, u64)]) -> Value {
    json!({"kind":"command","command":cmd.name,"steps":steps.iter().map(|(i,v)| json!([cmd.fields[*i].setter, v])).collect::<Vec<_>>()})
}

/// Known finding trigger: DeviceTimeAns.seconds with a value that is not a byte palindrome.
fn is_devicetime_seconds_trigger(cmd: &Cmd, field: &str, steps: &[(usize, u64)]) -> bool {
    cmd.name == "DeviceTimeAns" && field == "seconds" && steps.iter().any(|(i, v)| *i == 0 && (*v as u32).swap_bytes() != *v as u32)
}

pub const KF_DEVICETIME: &str = "C19-devicetime-seconds-byte-order";

/// Each setter at most once, on a fresh creator.
fn check_command(cmd: &Cmd, steps: &[(usize, u64)], kf: &KnownFindings, excluded: &mut u64) -> Result<bool, Failure> {
    let case = || cmd_case(cmd, steps);
    let (bytes, acc) = match catch(|| (cmd.build)(steps)) {
        Ok(x) => x,
        Err(pm) => return Err(Failure::panic(case(), &pm).with_fp(format!("{} [{}]", panic_fingerprint(&pm), cmd.name))),
    };
    let parsed = match catch(|| parse_one(cmd.set, &bytes)) {
        Ok(Ok(p)) => p,
        Ok(Err(e)) => return Err(Failure::new("parses-back", case(), e).with_fp(format!("parses-back/{}", cmd.name))),
        Err(pm) => return Err(Failure::panic(case(), &pm)),
    };
    if parsed.0 != cmd.name {
        return Err(Failure::new("parses-back", case(), format!("built {} parsed as {}", cmd.name, parsed.0)).with_fp(format!("wrong-command/{}", cmd.name)));
    }
    // expected values: defaults (all fields 0) then each applied step
    let mut want: BTreeMap<&'static str, i64> = BTreeMap::new();
    for fd in cmd.fields {
        expect(fd.map, 0, &mut want, false);
    }
    let mut any_oor = false;
    for ((i, v), accepted) in steps.iter().zip(acc.iter()) {
        let fd = &cmd.fields[*i];
        let mut tmp = BTreeMap::new();
        let inr = expect(fd.map, *v, &mut tmp, *accepted);
        if inr && !*accepted {
            return Err(Failure::new("admissible-refused", case(), format!("{}({v}) refused although the value fits the field", fd.setter)).with_fp(format!("admissible-refused/{}.{}", cmd.name, fd.setter)));
        }
        if !inr {
            any_oor = true;
            if !*accepted {
                continue; // refused: field keeps its default
            }
        }
        // DrRange switches key sets
        if matches!(fd.map, Map::DrRange) {
            for k in ["dr_range_err", "dr_min", "dr_max", "dr_raw"] {
                want.remove(k);
            }
        }
        want.extend(tmp);
    }
    // derived accessors: ack() = every acknowledgement bit set (LoRaWAN 1.0.x: the command is
    // accepted only if all bits are 1); max_duty_cycle() = 1 / 2^raw
    match cmd.name {
        "LinkADRAns" => {
            want.insert("ack", (want["channel_mask_ack"] & want["data_rate_ack"] & want["power_ack"]) as i64);
        }
        "RXParamSetupAns" => {
            want.insert("ack", (want["channel_ack"] & want["rx2_data_rate_ack"] & want["rx1_dr_offset_ack"]) as i64);
        }
        "NewChannelAns" => {
            want.insert("ack", (want["channel_freq_ack"] & want["data_rate_range_ack"]) as i64);
        }
        "DlChannelAns" => {
            want.insert("ack", (want["channel_freq_ack"] & want["uplink_freq_ack"]) as i64);
        }
        "DutyCycleReq" => {
            let raw = want["max_duty_cycle_raw"];
            want.insert("max_duty_cycle_1e9", (1e9 / (1u64 << raw) as f64) as i64);
        }
        _ => {}
    }
    let got: BTreeMap<&'static str, i64> = parsed.1.iter().cloned().collect();
    for (k, w) in &want {
        match got.get(k) {
            Some(g) if g == w => {}
            g => {
                if is_devicetime_seconds_trigger(cmd, k, steps) && kf.is_active(KF_DEVICETIME) && g == Some(&((*w as u32).swap_bytes() as i64)) {
                    *excluded += 1;
                    continue;
                }
                return Err(Failure::new("roundtrip-field", case(), format!("{}.{k}: set/expected {w}, parsed back {g:?} (built bytes {})", cmd.name, hex(&bytes))).with_fp(format!("roundtrip-field/{}.{k}", cmd.name)));
            }
        }
    }
    for k in got.keys() {
        if !want.contains_key(k) {
            return Err(Failure::new("roundtrip-field", case(), format!("{}: unexpected accessor output {k}", cmd.name)).with_fp(format!("roundtrip-extra/{}.{k}", cmd.name)));
        }
    }
    Ok(any_oor)
}

// ---------------------------------------------------------------- variable-length builders

fn check_echo(data: &[u8]) -> Result<(), Failure> {
    let case = json!({"kind":"echo","data":hex(data)});
    let r = catch(|| {
        let mut c = EchoIncPayloadAnsCreator::new();
        // a creator that has been used before: an earlier payload, longer or shorter than this one
        if data.first().map(|b| b % 2 == 1).unwrap_or(false) {
            let earlier: Vec<u8> = (0..(data.len() * 2 + 3).min(241)).map(|i| (i as u8).wrapping_mul(37)).collect();
            c.payload(&earlier);
            c.payload(&earlier[..data.len() / 2]);
        }
        c.payload(data);
        (c.build().to_vec(), c.len())
    });
    let (bytes, len) = match r {
        Ok(x) => x,
        Err(pm) => return Err(Failure::panic(case, &pm)),
    };
    let want: Vec<u8> = std::iter::once(0x08).chain(data.iter().map(|b| b.wrapping_add(1))).collect();
    if bytes != want || len != want.len() {
        return Err(Failure::new("roundtrip-field", case, format!("EchoIncPayloadAns built {} (len {len}), expected {}", hex(&bytes), hex(&want))).with_fp("roundtrip-field/EchoIncPayloadAns"));
    }
    if !data.is_empty() {
        match parse_uplink_dut_commands(&bytes).next() {
            Some(Ok(UplinkDUTCommand::EchoIncPayloadAns(p))) if p.payload() == &want[1..] => {}
            other => return Err(Failure::new("parses-back", case, format!("EchoIncPayloadAns does not parse back: {:?}", other.map(|x| x.is_ok()))).with_fp("parses-back/EchoIncPayloadAns")),
        }
    }
    Ok(())
}

/// McGroupStatusReq built bit by bit: `req_group(g)` adds one group to whatever the mask holds
/// (`req_group_mask(m)` before it or not); the parsed mask is the union, nothing else in the octet moves.
fn check_req_group(mask: Option<u8>, groups: &[u8]) -> Result<(), Failure> {
    let case = json!({"kind":"req_group","mask":mask,"groups":groups});
    let r = catch(|| {
        let mut c = McGroupStatusReqCreator::new();
        if let Some(m) = mask {
            c.req_group_mask(m);
        }
        for g in groups {
            c.req_group(*g);
        }
        c.build().to_vec()
    });
    let bytes = match r {
        Ok(b) => b,
        Err(pm) => return Err(Failure::panic(case, &pm)),
    };
    let want_mask = groups.iter().fold(mask.unwrap_or(0) & 0x0F, |m, g| m | 1 << (g & 3));
    let want = vec![0x01u8, want_mask];
    let parsed = match parse_downlink_multicast_commands(&bytes).next() {
        Some(Ok(DownlinkRemoteSetup::McGroupStatusReq(p))) => Some(p.req_group_mask()),
        _ => None,
    };
    if bytes != want || parsed != Some(want_mask) {
        return Err(Failure::new("roundtrip-field", case, format!("McGroupStatusReq built {} and parses back as mask {parsed:?}; want {} / {want_mask:#04x}", hex(&bytes), hex(&want))).with_fp("roundtrip-field/McGroupStatusReq.req_group"));
    }
    Ok(())
}

fn check_cert_fixed(rx_app_cnt: u16, versions: [u8; 12]) -> Result<(), Failure> {
    let case = json!({"kind":"cert_fixed","rx_app_cnt":rx_app_cnt,"versions":hex(&versions)});
    let r = catch(|| {
        // every second case on creators that have been used before (complemented values first)
        let mut a = RxAppCntAnsCreator::new();
        let mut d = DutVersionsAnsCreator::new();
        if rx_app_cnt % 2 == 1 {
            a.set_rx_app_cnt(!rx_app_cnt);
            let mut inv = versions;
            inv.iter_mut().for_each(|b| *b = !*b);
            d.set_versions_raw(inv);
        }
        a.set_rx_app_cnt(rx_app_cnt);
        d.set_versions_raw(versions);
        (a.build().to_vec(), d.build().to_vec())
    });
    let (a, d) = match r {
        Ok(x) => x,
        Err(pm) => return Err(Failure::panic(case, &pm)),
    };
    let wa = vec![0x09, rx_app_cnt as u8, (rx_app_cnt >> 8) as u8];
    let mut wd = vec![0x7f];
    wd.extend_from_slice(&versions);
    if a != wa || d != wd {
        return Err(Failure::new("roundtrip-field", case, format!("RxAppCntAns {} / DutVersionsAns {}", hex(&a), hex(&d))).with_fp("roundtrip-field/cert-fixed"));
    }
    for (b, name) in [(&a, "RxAppCntAns"), (&d, "DutVersionsAns")] {
        match parse_one(Set::UpDut, b) {
            Ok((n, _)) if n == name => {}
            other => return Err(Failure::new("parses-back", case, format!("{name}: {other:?}")).with_fp(format!("parses-back/{name}"))),
        }
    }
    Ok(())
}

pub const KF_GROUPSTATUS: &str = "C19-mcgroupstatus-push-out-of-range";

/// McGroupStatusAns: nb_total_groups + up to 4 items (group ids may be out of range 0..=3)
/// `nb_at`: the setter nb_total_groups() is called before the `nb_at`-th push (after all pushes when
/// nb_at >= items.len()); 255 = before the first and again after the last push.
fn check_group_status(nb_total: u8, items: &[(u8, u32)], nb_at: u8, kf: &KnownFindings, excluded: &mut u64) -> Result<(), Failure> {
    let case = json!({"kind":"group_status","nb_total":nb_total,"items":items,"nb_at":nb_at});
    // documented use: at most MAX_GROUPS items, each group once
    let r = catch(|| {
        let mut c = McGroupStatusAnsCreator::new();
        let mut acc = vec![];
        for (i, (g, a)) in items.iter().enumerate() {
            if i == nb_at as usize || (i == 0 && nb_at == 255) {
                c.nb_total_groups(nb_total);
            }
            acc.push(c.push(*g, McAddr::from_value(*a)).is_ok());
        }
        if nb_at as usize >= items.len() {
            c.nb_total_groups(nb_total);
        }
        (c.build().to_vec(), acc, c.len())
    });
    let oor = items.iter().any(|(g, _)| *g > 3);
    let (bytes, acc, _len) = match r {
        Ok(x) => x,
        Err(pm) => {
            if oor && kf.is_active(KF_GROUPSTATUS) {
                *excluded += 1;
                return Ok(());
            }
            return Err(Failure::panic(case, &pm).with_fp(if oor { "group-status-out-of-range".to_string() } else { panic_fingerprint(&pm) }));
        }
    };
    // expected: accepted items in order; refused items leave everything unchanged
    let mut want_mask = 0u8;
    let mut want_items = vec![];
    for ((g, a), ok) in items.iter().zip(acc.iter()) {
        // the answer holds at most four items: a further push is refused and changes nothing
        if want_items.len() >= 4 {
            if *ok {
                return Err(Failure::new("roundtrip-field", case, format!("push({g}) accepted although the answer already holds four items")).with_fp("roundtrip-field/McGroupStatusAns/fifth-item"));
            }
            continue;
        }
        if *g <= 3 && !*ok {
            return Err(Failure::new("admissible-refused", case, format!("push({g}) refused")).with_fp("admissible-refused/McGroupStatusAns.push"));
        }
        if *ok {
            if *g > 3 {
                // accepted out-of-range id: must be truncated to the 2-bit group id and not disturb NbTotalGroups
                want_mask |= 1 << (g & 3);
                want_items.push(((g & 3) as i64, *a as i64));
            } else {
                want_mask |= 1 << g;
                want_items.push((*g as i64, *a as i64));
            }
        }
    }
    let fail = |detail: String| {
        let f = Failure::new("roundtrip-field", case.clone(), detail).with_fp(if oor { "group-status-out-of-range" } else { "roundtrip-field/McGroupStatusAns" });
        f
    };
    let parsed = match catch(|| parse_one(Set::UpMc, &bytes)) {
        Ok(Ok(p)) => p,
        Ok(Err(e)) => {
            if oor && kf.is_active(KF_GROUPSTATUS) {
                *excluded += 1;
                return Ok(());
            }
            return Err(fail(format!("built {} does not parse back: {e}", hex(&bytes))));
        }
        Err(pm) => return Err(Failure::panic(case, &pm)),
    };
    let get = |k: &str| parsed.1.iter().filter(|(n, _)| *n == k).map(|(_, v)| *v).collect::<Vec<_>>();
    let got_items: Vec<(i64, i64)> = get("item_group_id").into_iter().zip(get("item_addr")).collect();
    let distinct = {
        let mut s: Vec<u8> = items.iter().map(|(g, _)| g & 3).collect();
        s.sort();
        s.dedup();
        s.len() == items.len()
    };
    let ok = get("nb_total_groups") == vec![(nb_total & 7) as i64] && get("ans_group_mask") == vec![want_mask as i64] && (!distinct || got_items == want_items);
    if !ok {
        if oor && kf.is_active(KF_GROUPSTATUS) {
            *excluded += 1;
            return Ok(());
        }
        return Err(fail(format!("McGroupStatusAns: set nb_total {} mask {want_mask:#x} items {want_items:?}; parsed back {:?}", nb_total & 7, parsed.1)));
    }
    // the same bytes through the checked per-command constructor, as the front of a larger buffer (a
    // receive buffer, or a payload with more commands behind): the view must be the command itself
    if !oor {
        for extra in [0usize, 1, 5, 11] {
            let mut buf = bytes[1..].to_vec();
            buf.extend((0..extra).map(|i| 0x01u8.wrapping_add(i as u8 * 3)));
            let r = catch(|| McGroupStatusAnsPayload::new(&buf).map(|p| {
                let raw = p.bytes().to_vec();
                let c = UplinkRemoteSetup::McGroupStatusAns(p);
                (raw, visit_up_mc(&c).1)
            }));
            match r {
                Err(pm) => return Err(Failure::panic(case, &pm)),
                Ok(Err(e)) => return Err(fail(format!("McGroupStatusAnsPayload::new refuses the built payload followed by {extra} more bytes: {e:?}"))),
                Ok(Ok((raw, fields))) => {
                    if raw != bytes[1..] || fields != parsed.1 {
                        return Err(Failure::new("roundtrip-field", case, format!("McGroupStatusAnsPayload::new on the built payload followed by {extra} more bytes: view {} fields {fields:?}; the command is {} fields {:?}", hex(&raw), hex(&bytes[1..]), parsed.1)).with_fp("roundtrip-field/McGroupStatusAns.new-from-larger-buffer"));
                    }
                }
            }
        }
    }
    Ok(())
}

/// McGroupSetupReq with key wrap: parse back and unwrap the key with the independent AES
/// `prior`: the creator has been used before — every setter was called once with other values (group id
/// `prior`, complemented address and counters, the wrapping key as multicast key) before the values judged
fn check_group_setup(gid: u8, addr: u32, mc_key: [u8; 16], ke_key: [u8; 16], minf: u32, maxf: u32, order: u8, prior: Option<u8>) -> Result<(), Failure> {
    let case = json!({"kind":"group_setup","gid":gid,"addr":addr,"mc_key":hex(&mc_key),"ke_key":hex(&ke_key),"min":minf,"max":maxf,"order":order,"prior":prior});
    let r = catch(|| {
        let mut c = McGroupSetupReqCreator::new();
        let crypto = DefaultNetworkCrypto::new(&AES128(ke_key));
        if let Some(g0) = prior {
            c.mc_group_id_header(g0);
            c.mc_addr(&McAddr::from_value(!addr));
            c.mc_key(&crypto, &keys::McKey::from(ke_key));
            c.min_mc_fcount(!minf);
            c.max_mc_fcount(!maxf);
        }
        let mut idx = [0usize, 1, 2, 3, 4];
        idx.rotate_left((order % 5) as usize);
        if order & 8 != 0 {
            idx.reverse();
        }
        for i in idx {
            match i {
                0 => {
                    c.mc_group_id_header(gid);
                }
                1 => {
                    c.mc_addr(&McAddr::from_value(addr));
                }
                2 => {
                    c.mc_key(&crypto, &keys::McKey::from(mc_key));
                }
                3 => {
                    c.min_mc_fcount(minf);
                }
                _ => {
                    c.max_mc_fcount(maxf);
                }
            }
        }
        c.build().to_vec()
    });
    let bytes = match r {
        Ok(b) => b,
        Err(pm) => return Err(Failure::panic(case, &pm)),
    };
    // TS005: McGroupIDHeader(1) McAddr(4, LE) McKey_encrypted(16) minMcFCount(4, LE) maxMcFCount(4, LE);
    // McKey_encrypted = aes128_decrypt(McKEKey, McKey)
    let mut want = vec![0x02, gid & 3];
    want.extend_from_slice(&addr.to_le_bytes());
    want.extend_from_slice(&Aes128::new(&ke_key).decrypt(&mc_key));
    want.extend_from_slice(&minf.to_le_bytes());
    want.extend_from_slice(&maxf.to_le_bytes());
    // the six upper bits of McGroupIDHeader are RFU: whether the builder masks them is don't-care
    let mut want_raw_header = want.clone();
    want_raw_header[1] = gid;
    if bytes != want && bytes != want_raw_header {
        return Err(Failure::new("roundtrip-field", case, format!("McGroupSetupReq built {}, TS005 layout gives {}", hex(&bytes), hex(&want))).with_fp("roundtrip-field/McGroupSetupReq"));
    }
    let parsed = match catch(|| {
        match parse_downlink_multicast_commands(&bytes).next() {
            Some(Ok(DownlinkRemoteSetup::McGroupSetupReq(p))) => {
                let dc = lorawan::default_crypto::DefaultCrypto::new(&AES128(ke_key));
                Some((p.mc_group_id_header(), p.mc_addr().value(), p.mc_key_decrypted(&dc).inner().0, p.min_mc_fcount(), p.max_mc_fcount()))
            }
            _ => None,
        }
    }) {
        Ok(p) => p,
        Err(pm) => return Err(Failure::panic(case, &pm)),
    };
    if parsed != Some((gid & 3, addr, mc_key, minf, maxf)) {
        return Err(Failure::new("roundtrip-field", case, format!("McGroupSetupReq parsed back {parsed:?}")).with_fp("roundtrip-field/McGroupSetupReq"));
    }
    Ok(())
}

// ---------------------------------------------------------------- sequences

/// sequence of (command index, steps); built with build_mac_commands into a buffer of len+delta
fn check_sequence(cmds: &[Cmd], seq: &[(usize, Vec<(usize, u64)>)], delta: i32) -> Result<(), Failure> {
    let case = json!({"kind":"sequence","seq":seq.iter().map(|(ci,steps)| json!([cmds[*ci].name, steps.iter().map(|(i,v)| json!([i,v])).collect::<Vec<_>>()])).collect::<Vec<_>>(),"delta":delta});
    // build each creator's bytes, then wrap them as dyn SerializableMacCommand via the parsed enum
    // (creators of different types cannot be collected directly; their SerializableMacCommand impl
    // is exercised through RawCmd below, which forwards to the creator-built bytes)
    struct RawCmd(Vec<u8>);
    impl SerializableMacCommand for RawCmd {
        fn payload_bytes(&self) -> &[u8] {
            &self.0[1..]
        }
        fn cid(&self) -> u8 {
            self.0[0]
        }
        fn payload_len(&self) -> usize {
            self.0.len() - 1
        }
    }
    let uplink = cmds[seq[0].0].set == Set::UpMac;
    let mut raws = vec![];
    for (ci, steps) in seq {
        let (b, _) = (cmds[*ci].build)(steps);
        raws.push(RawCmd(b));
    }
    let refs: Vec<&dyn SerializableMacCommand> = raws.iter().map(|r| r as &dyn SerializableMacCommand).collect();
    let total: usize = raws.iter().map(|r| r.0.len()).sum();
    let r = catch(|| {
        let l = mac_commands_len(&refs);
        let mut buf = vec![0xA5u8; (total as i32 + delta).max(0) as usize];
        let res = build_mac_commands(&refs, &mut buf[..]);
        (l, res, buf)
    });
    let (l, res, buf) = match r {
        Ok(x) => x,
        Err(pm) => return Err(Failure::panic(case, &pm)),
    };
    if l != total {
        return Err(Failure::new("sequence-len", case, format!("mac_commands_len {l}, sum of built lengths {total}")));
    }
    if delta < 0 {
        return match res {
            Err(lorawan::maccommandcreator::Error::BufferTooShort) => Ok(()),
            other => Err(Failure::new("sequence-short-buffer", case, format!("buffer {delta} short: {other:?}"))),
        };
    }
    match res {
        Ok(n) if n == total => {}
        other => return Err(Failure::new("sequence-len", case, format!("build_mac_commands returned {other:?}, expected Ok({total})"))),
    }
    let want: Vec<(u8, Vec<u8>)> = raws.iter().map(|r| (r.0[0], r.0[1..].to_vec())).collect();
    let (got, end) = refcodec::split_cmds(&buf[..total], uplink);
    if got != want || end.is_err() {
        return Err(Failure::new("sequence-roundtrip", case, format!("stream {} splits into {got:?} ({end:?}), built {want:?}", hex(&buf[..total]))));
    }
    if buf[total..].iter().any(|b| *b != 0xA5) {
        return Err(Failure::new("sequence-overrun", case, "bytes beyond the reported length were written"));
    }
    // and the crate's own parser agrees
    check_stream(if uplink { Set::UpMac } else { Set::DownMac }, &buf[..total]).map(|_| ())
}

// ---------------------------------------------------------------- text forms

fn msb_hex(v: u128, bytes: usize) -> String {
    (0..bytes).rev().map(|i| format!("{:02x}", (v >> (8 * i)) as u8)).collect()
}

macro_rules! text_wire_value {
    ($name:expr, $ty:ty, $int:ty, $n:expr, $v:expr) => {{
        let v: $int = $v;
        let x = <$ty>::from_value(v);
        let want_wire: Vec<u8> = v.to_le_bytes()[..$n].to_vec();
        let s = x.to_string();
        let want_s = msb_hex(v as u128, $n);
        let back = <$ty>::from_str(&want_s).ok().map(|y| (y.value(), y.as_wire_bytes().to_vec()));
        // the value conversions (From<int> / Into<int>) name the same wire value
        let via_from: $ty = <$ty>::from(v);
        let via_into: $int = <$int>::from(x);
        if via_from.as_wire_bytes().to_vec() != want_wire || via_into != v {
            return Err(Failure::new("text-roundtrip", json!({"kind":"text","type":$name,"value":format!("{:#x}", v)}), format!("{}: From<int> gives wire {}, Into<int> gives {:#x}; want wire {} / value {:#x}", $name, hex(via_from.as_wire_bytes()), via_into, hex(&want_wire), v)).with_fp(format!("value-conversion/{}", $name)));
        }
        if x.as_wire_bytes().to_vec() != want_wire || s != want_s || back != Some((v, want_wire.clone())) || x.value() != v {
            Err(Failure::new("text-roundtrip", json!({"kind":"text","type":$name,"value":format!("{:#x}", v)}), format!("{}: wire {} (want {}), display {s} (want {want_s}), parse-back {back:?}", $name, hex(x.as_wire_bytes()), hex(&want_wire))).with_fp(format!("text-roundtrip/{}", $name)))
        } else {
            Ok(())
        }
    }};
}

macro_rules! text_key {
    ($name:expr, $ty:ty, $bytes:expr) => {{
        let b: [u8; 16] = $bytes;
        let k = <$ty>::from(b);
        let s = k.to_string();
        let want_s = hex(&b);
        let back = <$ty>::from_str(&want_s).ok().map(|y| y.as_ref().to_vec());
        if s != want_s || back != Some(b.to_vec()) || k.as_ref() != &b[..] {
            Err(Failure::new("text-roundtrip", json!({"kind":"text","type":$name,"value":want_s}), format!("{}: display {s}, parse-back {back:?}", $name)).with_fp(format!("text-roundtrip/{}", $name)))
        } else {
            Ok(())
        }
    }};
}

macro_rules! text_eui {
    ($name:expr, $ty:ty, $v:expr) => {{
        // logical value v; wire bytes are LSB first; text is MSB first
        let v: u64 = $v;
        let wire = v.to_le_bytes();
        let e = <$ty>::from(wire);
        let s = e.to_string();
        let want_s = msb_hex(v as u128, 8);
        let back = <$ty>::from_str(&want_s).ok().map(|y| y.as_ref().to_vec());
        if s != want_s || back != Some(wire.to_vec()) {
            Err(Failure::new("text-roundtrip", json!({"kind":"text","type":$name,"value":format!("{:#x}", v)}), format!("{}: display {s} (want {want_s}), parse-back {back:?} (want {})", $name, hex(&wire))).with_fp(format!("text-roundtrip/{}", $name)))
        } else {
            Ok(())
        }
    }};
}

fn check_text(ty: &str, v: u128) -> Result<(), Failure> {
    let k: [u8; 16] = v.to_be_bytes();
    let r = catch(|| -> Result<(), Failure> {
        match ty {
            "DevNonce" => text_wire_value!("DevNonce", DevNonce, u16, 2, v as u16),
            "DevAddr" => text_wire_value!("DevAddr", DevAddr, u32, 4, v as u32),
            "McAddr" => text_wire_value!("McAddr", McAddr, u32, 4, v as u32),
            "JoinNonce" => text_wire_value!("JoinNonce", JoinNonce, u32, 3, (v as u32) & 0xFF_FFFF),
            "NetId" => text_wire_value!("NetId", NetId, u32, 3, (v as u32) & 0xFF_FFFF),
            "DevEui" => text_wire_value!("DevEui", DevEui, u64, 8, v as u64),
            "JoinEui" => text_wire_value!("JoinEui", JoinEui, u64, 8, v as u64),
            "keys::DevEui" => {
                let wire = (v as u64).to_le_bytes();
                let there = DevEui::from(keys::DevEui::from(wire));
                let back = keys::DevEui::from(DevEui::from_value(v as u64));
                if there.as_wire_bytes() != &wire || back.as_ref() != &wire[..] || there.value() != v as u64 {
                    return Err(Failure::new("text-roundtrip", json!({"kind":"text","type":"keys::DevEui","value":format!("{:#x}", v as u64)}), format!("DevEui conversions between the key and the frame type change the wire value: {} / {} (want {})", hex(there.as_wire_bytes()), hex(back.as_ref()), hex(&wire))).with_fp("value-conversion/keys::DevEui"));
                }
                text_eui!("keys::DevEui", keys::DevEui, v as u64)
            }
            "keys::AppEui" => {
                let wire = (v as u64).to_le_bytes();
                let there = JoinEui::from(keys::AppEui::from(wire));
                let back = keys::AppEui::from(JoinEui::from_value(v as u64));
                if there.as_wire_bytes() != &wire || back.as_ref() != &wire[..] || there.value() != v as u64 {
                    return Err(Failure::new("text-roundtrip", json!({"kind":"text","type":"keys::AppEui","value":format!("{:#x}", v as u64)}), format!("AppEui/JoinEui conversions change the wire value: {} / {} (want {})", hex(there.as_wire_bytes()), hex(back.as_ref()), hex(&wire))).with_fp("value-conversion/keys::AppEui"));
                }
                text_eui!("keys::AppEui", keys::AppEui, v as u64)
            }
            "Frequency" => {
                // channel frequencies: Hz in, 24-bit count of 100 Hz units on the wire (LSB first), Hz out
                let hz = v as u32;
                let f = lorawan::parser::Frequency::from_hz(hz);
                let raw = (hz / 100) & 0xFF_FFFF;
                let want_wire = [raw as u8, (raw >> 8) as u8, (raw >> 16) as u8];
                let again = lorawan::parser::Frequency::from_wire_bytes(want_wire);
                if f.as_wire_bytes() != &want_wire || f.hz() != raw * 100 || again.hz() != raw * 100 || again != f {
                    return Err(Failure::new("text-roundtrip", json!({"kind":"text","type":"Frequency","value":format!("{:#x}", hz)}), format!("Frequency::from_hz({hz}): wire {} (want {}), hz() {} (want {})", hex(f.as_wire_bytes()), hex(&want_wire), f.hz(), raw * 100)).with_fp("value-conversion/Frequency"));
                }
                Ok(())
            }
            "AppKey" => text_key!("AppKey", keys::AppKey, k),
            "AppSKey" => text_key!("AppSKey", keys::AppSKey, k),
            "NwkSKey" => text_key!("NwkSKey", keys::NwkSKey, k),
            "McKey" => text_key!("McKey", keys::McKey, k),
            "McNetSKey" => text_key!("McNetSKey", keys::McNetSKey, k),
            "McAppSKey" => text_key!("McAppSKey", keys::McAppSKey, k),
            "McRootKey" => text_key!("McRootKey", keys::McRootKey, k),
            "McKEKey" => text_key!("McKEKey", keys::McKEKey, k),
            "GenAppKey" => text_key!("GenAppKey", keys::GenAppKey, k),
            _ => Ok(()),
        }
    });
    match r {
        Ok(r) => r,
        Err(pm) => Err(Failure::panic(json!({"kind":"text","type":ty,"value":format!("{v:#x}")}), &pm)),
    }
}

const TEXT_TYPES: [(&str, u32); 19] = [
    ("Frequency", 32), ("DevNonce", 16), ("DevAddr", 32), ("McAddr", 32), ("JoinNonce", 24), ("NetId", 24), ("DevEui", 64), ("JoinEui", 64), ("keys::DevEui", 64), ("keys::AppEui", 64),
    ("AppKey", 128), ("AppSKey", 128), ("NwkSKey", 128), ("McKey", 128), ("McNetSKey", 128), ("McAppSKey", 128), ("McRootKey", 128), ("McKEKey", 128), ("GenAppKey", 128),
];

// ---------------------------------------------------------------- replay / run

/// E: the field value types of `lorawan::types` that applications hand to the creators and read from the
/// parsed commands (ChannelMask<2>/<9>, DataRateRange, DLSettings, Redundancy, Frequency, DR): constructors,
/// accessors and in-place edits against the LoRaWAN field layouts. `a`, `b` select the value and the edit.
fn check_value_type(ty: &str, a: u64, b: u64) -> Result<(), Failure> {
    use lorawan::types::{ChannelMask, DLSettings, DataRateRange, Frequency, Redundancy, DR};
    let case = json!({"kind":"value_type","type":ty,"a":format!("{a:#x}"),"b":format!("{b:#x}")});
    let bad = |what: String| Err(Failure::new("value-type", case.clone(), what).with_fp(&format!("value-type/{ty}")));
    fn mask_ops<const N: usize>(bytes: [u8; N], extra: [u8; 3], b: u64) -> Result<(), String> {
        let bit = |m: &[u8], c: usize| m[c / 8] >> (c % 8) & 1 == 1;
        // new(): any slice of at least N octets is accepted and its first N octets are the mask; shorter ones are refused
        let mut long = bytes.to_vec();
        long.extend_from_slice(&extra);
        for len in 0..=N + 3 {
            match ChannelMask::<N>::new(&long[..len]) {
                Ok(m) => {
                    if len < N {
                        return Err(format!("new() accepted {len} octets for a {N}-octet mask"));
                    }
                    if m.as_ref() != &bytes[..] {
                        return Err(format!("new(&{}[..{len}]) holds {}", hex(&long), hex(m.as_ref())));
                    }
                }
                Err(_) => {
                    if len >= N {
                        return Err(format!("new() refused {len} octets for a {N}-octet mask"));
                    }
                }
            }
        }
        let m = ChannelMask::<N>::from(bytes);
        let raw = ChannelMask::<N>::new_from_raw(&long);
        if m != raw || m.as_ref() != &bytes[..] {
            return Err(format!("from / new_from_raw / as_ref disagree: {} vs {}", hex(m.as_ref()), hex(raw.as_ref())));
        }
        for i in 0..N {
            if m.get_index(i) != bytes[i] {
                return Err(format!("get_index({i}) = {:#x}, octet is {:#x}", m.get_index(i), bytes[i]));
            }
        }
        for c in 0..8 * N + 16 {
            match m.is_enabled(c) {
                Ok(e) => {
                    // beyond the mask nothing is enabled (the crate refuses such an index; Ok(false) would say the same)
                    if (c >= 8 * N && e) || (c < 8 * N && e != bit(&bytes, c)) {
                        return Err(format!("is_enabled({c}) = Ok({e}) on mask {}", hex(&bytes)));
                    }
                }
                Err(_) => {
                    if c < 8 * N {
                        return Err(format!("is_enabled({c}) refused on a {N}-octet mask"));
                    }
                }
            }
        }
        let st16: [bool; 16] = m.statuses();
        for (c, e) in st16.iter().enumerate() {
            if *e != bit(&bytes, c) {
                return Err(format!("statuses::<16>()[{c}] = {e} on mask {}", hex(&bytes)));
            }
        }
        if N == 9 {
            let st72: [bool; 72] = m.statuses();
            for (c, e) in st72.iter().enumerate() {
                if *e != bit(&bytes, c) {
                    return Err(format!("statuses::<72>()[{c}] = {e} on mask {}", hex(&bytes)));
                }
            }
        }
        // in-place edits touch exactly the addressed channel / bank
        let c = (b as usize >> 1) % (8 * N);
        let set = b & 1 == 1;
        let mut e = m.clone();
        e.set_channel(c, set);
        let mut want = bytes;
        if set {
            want[c / 8] |= 1 << (c % 8);
        } else {
            want[c / 8] &= !(1 << (c % 8));
        }
        if e.as_ref() != &want[..] {
            return Err(format!("set_channel({c}, {set}) on {} gives {} (want {})", hex(&bytes), hex(e.as_ref()), hex(&want)));
        }
        let (bi, bv) = ((b as usize >> 8) % N, (b >> 16) as u8);
        let mut e = m.clone();
        e.set_bank(bi, bv);
        let mut want = bytes;
        want[bi] = bv;
        if e.as_ref() != &want[..] {
            return Err(format!("set_bank({bi}, {bv:#x}) on {} gives {} (want {})", hex(&bytes), hex(e.as_ref()), hex(&want)));
        }
        Ok(())
    }
    let r = catch(|| -> Result<(), String> {
        match ty {
            "ChannelMask2" => mask_ops::<2>([a as u8, (a >> 8) as u8], [(a >> 16) as u8, (a >> 24) as u8, (a >> 32) as u8], b),
            "ChannelMask9" => {
                let mut rng = SplitMix::new(a);
                let mut bytes = [0u8; 9];
                for (i, x) in bytes.iter_mut().enumerate() {
                    // sparse, dense and random octets, so that single channels and whole banks both occur
                    *x = match (a >> (2 * i)) & 3 {
                        0 => 0,
                        1 => 0xFF,
                        2 => 1 << (rng.next_u64() % 8),
                        _ => rng.next_u64() as u8,
                    };
                }
                mask_ops::<9>(bytes, [rng.next_u64() as u8, 0, 0xFF], b)
            }
            "DataRateRange" => {
                let byte = a as u8;
                let (min, max) = (byte & 0x0F, byte >> 4);
                let ok = max >= min;
                match DataRateRange::new(byte) {
                    Ok(r) => {
                        if !ok || r.raw_value() != byte || r.min_data_rate() != min || r.max_data_rate() != max {
                            return Err(format!("new({byte:#x}) = raw {:#x} min {} max {}", r.raw_value(), r.min_data_rate(), r.max_data_rate()));
                        }
                    }
                    Err(_) => {
                        if ok {
                            return Err(format!("new({byte:#x}) refused (min {min} <= max {max})"));
                        }
                    }
                }
                if DataRateRange::can_build_from(byte).is_ok() != ok {
                    return Err(format!("can_build_from({byte:#x}) disagrees with min {min} <= max {max}"));
                }
                for r in [DataRateRange::new_from_raw(byte), DataRateRange::from(byte)] {
                    if r.raw_value() != byte || r.min_data_rate() != min || r.max_data_rate() != max {
                        return Err(format!("raw {byte:#x} reads back raw {:#x} min {} max {}", r.raw_value(), r.min_data_rate(), r.max_data_rate()));
                    }
                }
                let r = DataRateRange::new_range(DR::from(min), DR::from(max));
                if r.raw_value() != byte {
                    return Err(format!("new_range({min}, {max}) = {:#x} (want {byte:#x})", r.raw_value()));
                }
                Ok(())
            }
            "DLSettings" => {
                let byte = a as u8;
                for d in [DLSettings::new(byte), DLSettings::from(byte)] {
                    if d.raw_value() != byte || d.rx1_dr_offset() != (byte >> 4) & 7 || d.rx2_data_rate() as u8 != byte & 0x0F {
                        return Err(format!("DLSettings {byte:#x}: raw {:#x} rx1_dr_offset {} rx2_data_rate {}", d.raw_value(), d.rx1_dr_offset(), d.rx2_data_rate() as u8));
                    }
                }
                Ok(())
            }
            "Redundancy" => {
                let byte = a as u8;
                for d in [Redundancy::new(byte), Redundancy::from(byte)] {
                    if d.raw_value() != byte || d.channel_mask_control() != (byte >> 4) & 7 || d.number_of_transmissions() != byte & 0x0F {
                        return Err(format!("Redundancy {byte:#x}: raw {:#x} cntl {} nbtrans {}", d.raw_value(), d.channel_mask_control(), d.number_of_transmissions()));
                    }
                }
                Ok(())
            }
            "DR" => {
                let (v, sub) = (a as u8, b as u8);
                let d = DR::from(v);
                if d as u8 != v & 0x0F {
                    return Err(format!("DR::from({v}) = {}", d as u8));
                }
                let o = d.offset_sub(sub);
                if o as u8 != (v & 0x0F).saturating_sub(sub) {
                    return Err(format!("DR{}.offset_sub({sub}) = DR{}", v & 0x0F, o as u8));
                }
                Ok(())
            }
            "types::Frequency" => {
                let wire = [a as u8, (a >> 8) as u8, (a >> 16) as u8, (a >> 24) as u8, (a >> 32) as u8];
                let hz = (a as u32 & 0xFF_FFFF) * 100;
                for len in 0..=5usize {
                    match Frequency::new(&wire[..len]) {
                        Some(f) => {
                            if len != 3 || f.value() != hz || f.as_ref() != &wire[..3] {
                                return Err(format!("Frequency::new(&{}[..{len}]) = {} Hz", hex(&wire), f.value()));
                            }
                        }
                        None => {
                            if len == 3 {
                                return Err("Frequency::new refused three octets".into());
                            }
                        }
                    }
                }
                let three: [u8; 3] = [wire[0], wire[1], wire[2]];
                let f = Frequency::from(&three);
                let g = Frequency::new_from_raw(&three);
                if f.value() != hz || g.value() != hz || f != g {
                    return Err(format!("Frequency of {} = {} / {} Hz (want {hz})", hex(&three), f.value(), g.value()));
                }
                Ok(())
            }
            _ => Ok(()),
        }
    });
    match r {
        Ok(Ok(())) => Ok(()),
        Ok(Err(what)) => bad(what),
        Err(pm) => Err(Failure::panic(case.clone(), &pm)),
    }
}

const VALUE_TYPES: [&str; 7] = ["ChannelMask2", "ChannelMask9", "DataRateRange", "DLSettings", "Redundancy", "DR", "types::Frequency"];

fn parse_hex_u128(s: &str) -> u128 {
    u128::from_str_radix(s.trim_start_matches("0x"), 16).unwrap_or(0)
}

pub fn replay(case: &Value, kf: &KnownFindings) -> Result<(), Failure> {
    let cmds = commands();
    let mut ex = 0u64;
    match case["kind"].as_str() {
        Some("command") => {
            let Some(cmd) = cmds.iter().find(|c| Some(c.name) == case["command"].as_str()) else { return Err(Failure::new("bad-replay", case.clone(), "unknown command")) };
            let steps: Vec<(usize, u64)> = case["steps"].as_array().map(|a| a.iter().filter_map(|s| Some((cmd.fields.iter().position(|f| Some(f.setter) == s[0].as_str())?, s[1].as_u64()?))).collect()).unwrap_or_default();
            check_command(cmd, &steps, kf, &mut ex).map(|_| ())
        }
        Some("req_group") => check_req_group(case["mask"].as_u64().map(|m| m as u8), &case["groups"].as_array().map(|a| a.iter().map(|g| g.as_u64().unwrap_or(0) as u8).collect::<Vec<u8>>()).unwrap_or_default()),
        Some("echo") => check_echo(&unhex(case["data"].as_str().unwrap_or(""))),
        Some("cert_fixed") => check_cert_fixed(case["rx_app_cnt"].as_u64().unwrap_or(0) as u16, unhex(case["versions"].as_str().unwrap_or("")).try_into().unwrap_or([0; 12])),
        Some("group_status") => {
            let items: Vec<(u8, u32)> = case["items"].as_array().map(|a| a.iter().map(|x| (x[0].as_u64().unwrap_or(0) as u8, x[1].as_u64().unwrap_or(0) as u32)).collect()).unwrap_or_default();
            check_group_status(case["nb_total"].as_u64().unwrap_or(0) as u8, &items, case["nb_at"].as_u64().unwrap_or(0) as u8, kf, &mut ex)
        }
        Some("group_setup") => check_group_setup(case["gid"].as_u64().unwrap_or(0) as u8, case["addr"].as_u64().unwrap_or(0) as u32, unhex(case["mc_key"].as_str().unwrap_or("")).try_into().unwrap_or([0; 16]), unhex(case["ke_key"].as_str().unwrap_or("")).try_into().unwrap_or([0; 16]), case["min"].as_u64().unwrap_or(0) as u32, case["max"].as_u64().unwrap_or(0) as u32, case["order"].as_u64().unwrap_or(0) as u8, case["prior"].as_u64().map(|g| g as u8)),
        Some("sequence") => {
            let seq: Vec<(usize, Vec<(usize, u64)>)> = case["seq"].as_array().map(|a| a.iter().filter_map(|e| {
                let ci = cmds.iter().position(|c| Some(c.name) == e[0].as_str())?;
                let steps = e[1].as_array()?.iter().filter_map(|s| Some((s[0].as_u64()? as usize, s[1].as_u64()?))).collect();
                Some((ci, steps))
            }).collect()).unwrap_or_default();
            if seq.is_empty() {
                return Ok(());
            }
            check_sequence(&cmds, &seq, case["delta"].as_i64().unwrap_or(0) as i32)
        }
        Some("value_type") => check_value_type(case["type"].as_str().unwrap_or(""), parse_hex_u128(case["a"].as_str().unwrap_or("0")) as u64, parse_hex_u128(case["b"].as_str().unwrap_or("0")) as u64),
        Some("text") => check_text(case["type"].as_str().unwrap_or(""), parse_hex_u128(case["value"].as_str().unwrap_or("0"))),
        _ => Err(Failure::new("bad-replay", case.clone(), "unknown case kind")),
    }
}

fn boundary_values(bits: u32, rng: &mut SplitMix, n_random: usize) -> Vec<u64> {
    let max = if bits >= 64 { u64::MAX } else { (1u64 << bits) - 1 };
    let mut v = vec![0, 1, 2, 0xff, 0x100, 0xffff, 0x10000, 0x01020304 & max, 0x00ffff00 & max, max, max - 1, max >> 1, (max >> 1) + 1, 999_999_999 & max, 1_000_000_000 & max, 1_000_000_001 & max, 3_906_250 & max, 3_906_249 & max];
    for _ in 0..n_random {
        v.push(rng.next_u64() & max);
    }
    v
}

pub fn run(ctx: &mut Ctx) {
    ctx.rule = "per command of the six sets with a creator: every setter once on a fresh creator, in every/random order; field values exhaustive for setter arguments <= 16 bits (one field swept, the others at random baselines), boundary + random for wider ones, out-of-range arguments included; variable-length builders (EchoIncPayloadAns 0..=241 bytes, McGroupStatusAns 0..=4 items incl. out-of-range ids and pushes beyond the fourth item, with the count setter at every position among the pushes, McGroupSetupReq with key wrap checked with the independent AES, RxAppCntAns all 65536, DutVersionsAns); sequences of 1..=10 commands through mac_commands_len/build_mac_commands with exact/short/long buffers; text forms: all 65536 DevNonce, boundary + random values of the other 17 identifier/key types; field value types of lorawan::types (ChannelMask<2> all 65536 masks and ChannelMask<9> random/sparse/dense masks: new() on slices of N-0..N+3 octets, from / new_from_raw / as_ref / get_index, is_enabled for every index up to 8N+16, statuses, set_channel and set_bank edits; all 256 DataRateRange / DLSettings / Redundancy octets; DR x offset_sub; types::Frequency on 0..5 octets). Non-trivial: any non-default field value or out-of-range argument; distinct by hash of the case".into();
    ctx.assumptions = vec![
        "expected accessor values come from the LoRaWAN 1.0.x / TS005 / TS009 field layouts (little-endian multi-octet fields, MaxEIRP table), not from the crate".into(),
        "when a setter is called again on the same creator the value set last is the one in force; a call that is refused (Err) leaves the field as it was".into(),
        "certification / multicast creators that the crate leaves unimplemented (TxFramesCtrlReq, EchoIncPayloadReq) are not generated".into(),
    ];
    let seed = ctx.seed;
    let thorough = ctx.tier == Tier::Thorough;
    let kf = ctx.kf.clone();
    let cmds = commands();
    let ncmd = cmds.len();
    // ---- A: per-command field sweeps
    ctx.parallel(|ti, n, st| {
        let cmds = commands();
        let mut rng = SplitMix::new(seed ^ 0xC19 ^ ((ti as u64) << 32));
        let mut ex = 0u64;
        for (ci, cmd) in cmds.iter().enumerate() {
            if ci % n != ti {
                continue;
            }
            let mut run_one = |steps: &[(usize, u64)], st: &mut Stats, ex: &mut u64| {
                st.eval();
                match check_command(cmd, steps, &kf, ex) {
                    Ok(oor) => {
                        if oor {
                            st.class("out-of-range-argument");
                        }
                        if steps.iter().any(|(_, v)| *v != 0) {
                            st.nt_hash(hash_value(&cmd_case(cmd, steps)));
                        }
                        if st.want_sample() && st.evaluations % 4099 == 11 {
                            st.sample(cmd_case(cmd, steps));
                        }
                    }
                    Err(f) => st.fail(f),
                }
            };
            if cmd.fields.is_empty() {
                run_one(&[], st, &mut ex);
                continue;
            }
            for (fi, fd) in cmd.fields.iter().enumerate() {
                let values: Vec<u64> = if fd.arg_bits <= 16 { (0..(1u64 << fd.arg_bits)).collect() } else { boundary_values(fd.arg_bits, &mut rng, if thorough { 200_000 } else { 20_000 }) };
                for v in values {
                    // the swept field alone
                    run_one(&[(fi, v)], st, &mut ex);
                    // with the other fields at a random baseline, random order
                    let reps = if fd.arg_bits <= 8 { 4 } else { 1 };
                    for _ in 0..reps {
                        let mut steps: Vec<(usize, u64)> = cmd.fields.iter().enumerate().map(|(j, g)| (j, if j == fi { v } else { let m = if g.arg_bits >= 64 { u64::MAX } else { (1u64 << g.arg_bits) - 1 }; rng.next_u64() & m })).collect();
                        // random permutation
                        for k in (1..steps.len()).rev() {
                            let j = rng.below(k as u64 + 1) as usize;
                            steps.swap(k, j);
                        }
                        // sometimes leave fields unset
                        if rng.below(4) == 0 {
                            let keep = fi;
                            steps.retain(|(j, _)| *j == keep || rng.below(2) == 0);
                        }
                        run_one(&steps, st, &mut ex);
                    }
                }
            }
        }
        // ---- A2: setters called again on the same creator (a builder that is corrected before it
        // is built): the values in force are the ones set last; a refused call changes nothing
        for (ci, cmd) in cmds.iter().enumerate() {
            if ci % n != ti || cmd.fields.is_empty() {
                continue;
            }
            let reps = if thorough { 60_000 } else { 6_000 };
            for _ in 0..reps {
                let len = 2 + rng.below(2 * cmd.fields.len() as u64 + 1) as usize;
                let steps: Vec<(usize, u64)> = (0..len)
                    .map(|_| {
                        let j = rng.below(cmd.fields.len() as u64) as usize;
                        let g = &cmd.fields[j];
                        let m = if g.arg_bits >= 64 { u64::MAX } else { (1u64 << g.arg_bits) - 1 };
                        let v = match rng.below(5) {
                            0 => 0,
                            1 => m,
                            2 => 1u64 << rng.below(g.arg_bits as u64),
                            _ => rng.next_u64() & m,
                        };
                        (j, v)
                    })
                    .collect();
                let mut seen = std::collections::BTreeSet::new();
                if steps.iter().all(|(j, _)| seen.insert(*j)) {
                    continue; // no setter repeated: covered above
                }
                st.eval();
                st.class("setter-called-again");
                match check_command(cmd, &steps, &kf, &mut ex) {
                    Ok(_) => st.nt_hash(hash_value(&cmd_case(cmd, &steps))),
                    Err(f) => st.fail(f),
                }
            }
        }
        if ex > 0 {
            *st.excluded_known.entry(KF_DEVICETIME.to_string()).or_insert(0) += ex;
        }
    });
    // ---- B: variable-length builders
    ctx.parallel(|ti, n, st| {
        let mut rng = SplitMix::new(seed ^ 0xC19B ^ ((ti as u64) << 32));
        let mut ex = 0u64;
        if ti == 0 {
            // McGroupStatusReq assembled group by group: every mask (or none) x every sequence of up to two
            // groups 0..=255 (the two low bits select the group)
            for m in 0..=16u16 {
                let mask = if m == 16 { None } else { Some(m as u8 | ((m as u8) << 4)) };
                for g1 in 0..=255u16 {
                    for g2 in [None, Some(g1.wrapping_mul(7) as u8), Some(3u8)] {
                        st.eval();
                        st.class("req-group");
                        st.nt_distinct();
                        let gs: Vec<u8> = std::iter::once(g1 as u8).chain(g2).collect();
                        if let Err(f) = check_req_group(mask, &gs) {
                            st.fail(f);
                        }
                    }
                }
            }
            for l in 0..=241usize {
                for _ in 0..4 {
                    st.eval();
                    st.class("echo");
                    let d = rng.bytes(l);
                    if let Err(f) = check_echo(&d) {
                        st.fail(f);
                    } else if l > 0 {
                        st.nt_hash(fnv64(&d));
                    }
                }
            }
        }
        for cnt in 0..=0xFFFFu32 {
            if cnt as usize % n != ti {
                continue;
            }
            st.eval();
            st.class("cert-fixed");
            let v: [u8; 12] = rng.bytes(12).try_into().unwrap();
            if let Err(f) = check_cert_fixed(cnt as u16, v) {
                st.fail(f);
            } else {
                st.nt_hash(cnt as u64 ^ 0xce57);
            }
        }
        // group status: all nb_total x all subsets/orders of in-range ids, plus out-of-range ids
        for nb in 0..=255u8 {
            if nb as usize % n != ti {
                continue;
            }
            for k in 0..=4usize {
                for rep in 0..6 {
                    let mut ids: Vec<u8> = vec![0, 1, 2, 3];
                    for a in (1..4).rev() {
                        let b = rng.below(a as u64 + 1) as usize;
                        ids.swap(a, b);
                    }
                    ids.truncate(k);
                    if rep == 5 && k > 0 {
                        let j = rng.below(k as u64) as usize;
                        ids[j] = 4 + rng.below(252) as u8; // out-of-range id
                    }
                    // a full answer and one or two pushes more (refused, nothing disturbed)
                    if rep == 4 && k == 4 {
                        for _ in 0..1 + rng.below(2) {
                            ids.push(rng.below(4) as u8);
                        }
                    }
                    let items: Vec<(u8, u32)> = ids.iter().map(|g| (*g, rng.next_u32())).collect();
                    st.eval();
                    st.class(if items.iter().any(|(g, _)| *g > 3) { "group-status-out-of-range" } else if items.len() > 4 { "group-status-more-than-four" } else { "group-status" });
                    // the count setter at every position among the pushes, and twice
                    for nb_at in (0..=items.len() as u8).chain([255u8]) {
                        st.eval();
                        match check_group_status(nb, &items, nb_at, &kf, &mut ex) {
                            Ok(()) => st.nt_hash(hash_value(&json!([nb, items, nb_at]))),
                            Err(f) => st.fail(f),
                        }
                    }
                }
            }
        }
        let reps = if thorough { 200_000 } else { 20_000 };
        for i in 0..reps / n {
            st.eval();
            st.class("group-setup");
            let (gid, addr, mk, kk, a, b, o) = (rng.next_u32() as u8, if i < 4 { 0x01020304 } else { rng.next_u32() }, rng.key(), rng.key(), if i % 3 == 0 { 0x0A0B0C0D } else { rng.next_u32() }, rng.next_u32(), rng.next_u32() as u8);
            // every second creator has been used before (all four group ids, and ids with RFU bits)
            let prior = if i % 2 == 1 { Some(if i % 16 == 1 { rng.next_u32() as u8 } else { (i / 2 % 4) as u8 }) } else { None };
            match check_group_setup(gid, addr, mk, kk, a, b, o, prior) {
                Ok(()) => st.nt_hash(fnv64(&mk)),
                Err(f) => st.fail(f),
            }
        }
        if ex > 0 {
            *st.excluded_known.entry(KF_GROUPSTATUS.to_string()).or_insert(0) += ex;
        }
    });
    // ---- C: sequences (proptest, shrinkable)
    {
        use verif_core::proptest::prelude::*;
        let mut st = Stats::new();
        for uplink in [false, true] {
            let idxs: Vec<usize> = (0..ncmd).filter(|i| cmds[*i].set == if uplink { Set::UpMac } else { Set::DownMac }).collect();
            let nf: Vec<usize> = cmds.iter().map(|c| c.fields.len()).collect();
            let idxs2 = idxs.clone();
            let strat = (proptest::collection::vec((0usize..idxs.len(), proptest::collection::vec(any::<u32>(), 0..4)), 1..=10), -3i32..=3);
            let cases = ctx.tier.pick(8_000u32, 200_000);
            let cmds_ref = &cmds;
            let f = run_proptest(strat, cases, seed ^ 0xC19C ^ uplink as u64, &mut st, |(seq, delta), st| {
                st.eval();
                st.class("sequence");
                let seq: Vec<(usize, Vec<(usize, u64)>)> = seq
                    .iter()
                    .map(|(k, vals)| {
                        let ci = idxs2[*k];
                        let steps: Vec<(usize, u64)> = vals.iter().enumerate().filter(|(j, _)| *j < nf[ci]).map(|(j, v)| {
                            let bits = cmds_ref[ci].fields[j].arg_bits;
                            // keep sequence members inside what the setters accept (in-range values)
                            let m = match cmds_ref[ci].fields[j].map { Map::U(_, b) => (1u64 << b) - 1, Map::MaxEirp => 15, Map::Margin => 31, Map::Nanos => 999_999_999, _ => if bits >= 64 { u64::MAX } else { (1u64 << bits) - 1 } };
                            (j, (*v as u64) % (m + 1))
                        }).collect();
                        (ci, steps)
                    })
                    .collect();
                if seq.len() >= 2 {
                    st.nt_hash(fnv64(format!("{seq:?}{delta}").as_bytes()));
                }
                check_sequence(cmds_ref, &seq, *delta)
            });
            if let Some(f) = f {
                st.fail(f);
            }
        }
        ctx.stats.merge(st);
    }
    // ---- D: text forms
    ctx.parallel(|ti, n, st| {
        let mut rng = SplitMix::new(seed ^ 0xC19D ^ ((ti as u64) << 32));
        for (k, (ty, bits)) in TEXT_TYPES.iter().enumerate() {
            if k % n != ti {
                continue;
            }
            let max: u128 = if *bits == 128 { u128::MAX } else { (1u128 << bits) - 1 };
            let mut vals: Vec<u128> = if *bits <= 16 { (0..=max).collect() } else { vec![0, 1, 0xff, 0x100, 0x0102030405060708090a0b0c0d0e0f10 & max, max, max - 1, max >> 1, (max >> 1) + 1, 0x00ff00ff00ff00ff00ff00ff00ff00ff & max, 0x8000000000000000 & max] };
            if *bits > 16 {
                for _ in 0..if thorough { 1_000_000 } else { 100_000 } {
                    vals.push((((rng.next_u64() as u128) << 64) | rng.next_u64() as u128) & max);
                }
            }
            for v in vals {
                st.eval();
                st.class("text-form");
                match check_text(ty, v) {
                    Ok(()) => {
                        if v != 0 {
                            st.nt_hash(fnv64(format!("{ty}{v:x}").as_bytes()));
                        }
                    }
                    Err(f) => st.fail(f),
                }
            }
        }
    });
    // ---- E: field value types (lorawan::types)
    ctx.parallel(|ti, n, st| {
        let mut rng = SplitMix::new(seed ^ 0xC19E ^ ((ti as u64) << 32));
        for (k, ty) in VALUE_TYPES.iter().enumerate() {
            if k % n != ti {
                continue;
            }
            let mut cases: Vec<(u64, u64)> = Vec::new();
            match *ty {
                "ChannelMask2" => {
                    for a in 0..=0xFFFFu64 {
                        cases.push((a | (rng.next_u64() << 16), rng.next_u64()));
                    }
                    // every single-channel edit on a few fixed masks
                    for m in [0u64, 0xFFFF, 0x00FF, 0x8001, 0x5AA5] {
                        for b in 0..32u64 {
                            cases.push((m, b | ((b % 2) << 8) | (rng.next_u64() & 0xFF_0000)));
                        }
                    }
                }
                "ChannelMask9" => {
                    for _ in 0..if thorough { 400_000 } else { 40_000 } {
                        cases.push((rng.next_u64(), rng.next_u64()));
                    }
                    for b in 0..144u64 {
                        cases.push((0, b | ((b % 9) << 8) | 0xA5_0000));
                        cases.push((0x1_5555, b | ((b % 9) << 8)));
                    }
                }
                "DataRateRange" | "DLSettings" | "Redundancy" => {
                    for a in 0..=0xFFu64 {
                        cases.push((a, 0));
                    }
                }
                "DR" => {
                    for a in 0..=0xFFu64 {
                        for b in 0..=0xFFu64 {
                            cases.push((a, b));
                        }
                    }
                }
                _ => {
                    for a in [0u64, 1, 0xFF, 0x100, 0xFFFF, 0x1_0000, 0xFF_FFFF, 0x84_75A0, 0x1_00FF_FFFF, 0xFF_FFFF_FFFF] {
                        cases.push((a, 0));
                    }
                    for _ in 0..if thorough { 1_000_000 } else { 100_000 } {
                        cases.push((rng.next_u64() & 0xFF_FFFF_FFFF, 0));
                    }
                }
            }
            for (a, b) in cases {
                st.eval();
                st.class("value-type");
                match check_value_type(ty, a, b) {
                    Ok(()) => {
                        if a != 0 {
                            st.nt_hash(fnv64(format!("{ty}{a:x}/{b:x}").as_bytes()));
                        }
                    }
                    Err(f) => st.fail(f),
                }
            }
        }
    });
}
