//! C06 — uplink frame counters never repeat within a session (histories x fault enumeration).

use crate::drive::fronts::*;
use crate::drive::history::*;
use crate::drive::net::*;
use crate::drive::*;
use serde_json::{json, Value};
use verif_core::proptest::prelude::*;
use verif_core::*;

pub const KF_ASYNC_FAULT: &str = "C06-async-radio-error-reuses-counter";

/// Judge: strictly increasing full counters per session; MIC/decrypt under the full counter;
/// SessionExpired instead of wrapping. Returns (uplinks seen, fault injected)
pub fn judge(h: &History, recs: &[StepRec]) -> Result<(usize, bool), Failure> {
    let case = || h.json();
    let mut last: Option<u32> = None;
    let mut expired = false;
    let mut n = 0;
    let mut fault = false;
    let mut fault_pos_class = "";
    for r in recs {
        if let Outcome::Panic(p) = &r.outcome {
            // a panic is C04's business; not judged here (but the run ends)
            let _ = p;
            break;
        }
        if matches!(r.step, Step::Join(_) | Step::JoinAbp | Step::SetSession { .. }) {
            last = None;
            expired = false;
        }
        if r.trace.iter().any(|e| matches!(e, Ev::Fault(_))) {
            fault = true;
            // where did the fault hit, relative to tx
            let pos_tx = r.trace.iter().position(|e| matches!(e, Ev::Tx { .. }));
            let pos_f = r.trace.iter().position(|e| matches!(e, Ev::Fault(_)));
            fault_pos_class = match (pos_tx, pos_f) {
                (Some(t), Some(f)) if f == t + 1 => "fault-at-tx",
                (Some(_), Some(_)) => "fault-after-tx",
                _ => "fault-other",
            };
        }
        for t in &r.txs {
            if t.join {
                continue;
            }
            n += 1;
            let Some(c) = t.fcnt32 else {
                return Err(Failure::new("mic-full-counter", case(), format!("uplink at step {} does not verify under NwkSKey for any 32-bit counter matching its wire counter\n{}", r.index, render(recs, 6))));
            };
            if expired {
                continue; // nothing is required after SessionExpired
            }
            if let Some(l) = last {
                if c <= l {
                    let fp = if fault { format!("counter-reuse/{}/{}", h.cfg.front.name().replace("+classC", ""), fault_pos_class) } else { "counter-reuse/no-fault".to_string() };
                    return Err(Failure::new("strictly-increasing", case(), format!("uplink counter {c} after {l} in the same session (step {})\n{}", r.index, render(recs, 8))).with_fp(fp));
                }
            }
            last = Some(c);
            if let (Some(p), Some(v)) = (&t.plain, &t.view) {
                if v.fport.map(|x| x != 0).unwrap_or(false) && *p != r.payload_sent {
                    return Err(Failure::new("payload-decrypts", case(), format!("uplink {c}: payload decrypted with the full counter is {} but the application sent {}", hex(p), hex(&r.payload_sent))));
                }
            }
        }
        if r.outcome == Outcome::Resp("SessionExpired".into()) {
            expired = true;
        }
        // the counter space must not wrap: after an uplink with 0xFFFF_FFFF the transaction reports expiry
        if last == Some(u32::MAX) && !expired && matches!(r.outcome, Outcome::Resp(_)) && !r.txs.is_empty() {
            return Err(Failure::new("expiry-reported", case(), format!("uplink with counter 2^32-1 completed with {} instead of SessionExpired", r.outcome.text())));
        }
    }
    Ok((n, fault))
}

fn recipe_strategy() -> impl Strategy<Value = Recipe> {
    prop_oneof![
        4 => (1i64..3, any::<bool>(), proptest::option::of(1u8..=220), 0u8..20).prop_map(|(d, c, p, l)| Recipe::Auth { delta: d, confirmed: c, port: p, payload_len: l, fopts: vec![], frm_cmds: vec![], ack: false, fpending: false }),
        1 => any::<u16>().prop_map(Recipe::Replay),
        1 => (any::<u16>(), any::<bool>()).prop_map(|(b, w)| Recipe::BitFlip { bit: b, with_cmds: w }),
        1 => any::<bool>().prop_map(|p| Recipe::Foreign { same_addr: p }),
        1 => (any::<bool>(), 0u8..4).prop_map(|(a, e)| Recipe::Oversize { authentic: a, excess: e }),
        1 => proptest::collection::vec(any::<u8>(), 0..40).prop_map(Recipe::Random),
        // frames around the sizes of the small radio buffers (64 / 255 bytes): a stray packet of that
        // length, or an authentic frame with a payload that long
        1 => prop_oneof![62usize..=67, 253usize..=255].prop_flat_map(|n| proptest::collection::vec(any::<u8>(), n..=n)).prop_map(Recipe::Random),
        1 => (1i64..3, prop_oneof![48u8..=54, 238u8..=242]).prop_map(|(d, l)| Recipe::Auth { delta: d, confirmed: false, port: Some(5), payload_len: l, fopts: vec![], frm_cmds: vec![], ack: false, fpending: false }),
    ]
}

fn plan_strategy(class_c: bool) -> impl Strategy<Value = RxPlan> {
    let slot = |w: u32| prop_oneof![w => Just(vec![]), 2 => proptest::collection::vec(recipe_strategy(), 1..=2)].boxed();
    let gap = || if class_c { slot(5) } else { Just(vec![]).boxed() };
    (gap(), slot(3), gap(), slot(3)).prop_map(|(g1, r1, g2, r2)| RxPlan { gap1: g1, rx1: r1, gap2: g2, rx2: r2, fault_at: None })
}

pub fn history_strategy() -> impl Strategy<Value = History> {
    let starts = prop_oneof![
        3 => Just(0u32),
        2 => (0xFFFDu32..=0x10001),
        1 => Just(0x7FFF_FFFEu32),
        3 => (0xFFFF_FFFAu32..=0xFFFF_FFFF),
        1 => any::<u32>(),
    ];
    // front-ends: the three usual ones, and (one history in four) a radio buffer of 64 / 255 bytes or the
    // crate's default downlink queue of depth 1
    let fronts = prop_oneof![
        9 => (0usize..3).prop_map(|k| [FrontKind::Nb, FrontKind::Async, FrontKind::AsyncClassC][k]),
        3 => (0usize..6).prop_map(|k| [FrontKind::NbBuf64, FrontKind::NbBuf255, FrontKind::AsyncBuf64, FrontKind::AsyncBuf255, FrontKind::NbQ1, FrontKind::AsyncQ1][k]),
    ];
    (fronts, 0usize..9, starts, any::<u64>(), any::<bool>()).prop_flat_map(|(front, ri, start, seed, nb_async)| {
        let class_c = front.class_c();
        let mut sv: Vec<(u32, BoxedStrategy<Step>)> = vec![
            (8, (1u8..=200, 0u8..30, any::<bool>(), plan_strategy(class_c)).prop_map(|(port, len, confirmed, rx)| Step::Send { port, len, confirmed, rx }).boxed()),
            (1, (1u16..4).prop_map(Step::Silence).boxed()),
            // long runs without any downlink: the ADR bookkeeping (64, 96, 128, ... unanswered uplinks)
            // shares the code path that advances the counter
            (1, prop_oneof![60u16..70, 94u16..100, 126u16..132, 100u16..300].prop_map(Step::Silence).boxed()),
        ];
        if class_c {
            sv.push((2, proptest::collection::vec(recipe_strategy(), 0..3).prop_map(Step::RxcListen).boxed()));
        }
        let step = proptest::strategy::Union::new_weighted(sv);
        (proptest::collection::vec(step, 1..=8), 0u8..6).prop_map(move |(mut steps, undrained)| {
            if undrained == 0 {
                // an application that does not take its downlinks: the queue (depth 4) fills up
                steps.insert(0, Step::SetDrain(false));
                for k in 0..5u8 {
                    steps.insert(1, Step::Send { port: 1 + k, len: 1, confirmed: k % 2 == 0, rx: RxPlan::rx1(Recipe::Auth { delta: 1, confirmed: false, port: Some(10 + k), payload_len: 2, fopts: vec![], frm_cmds: vec![], ack: false, fpending: false }) });
                }
            }
            steps
        }).prop_map(move |steps| History {
            cfg: DevCfg { region: REGIONS[ri], join_bias: None, front, board: (14, 0) },
            activation: Activation::Abp { fcnt_up: start, fcnt_down: None },
            board: Board { nb_async_tx: nb_async, nb_meddle: crate::gen::meddle_pattern(seed), ..Default::default() },
            rng_script: vec![],
            rng_seed: seed,
            steps,
        })
    })
}

/// Runs the base history and every single-fault variant of it.
fn check_with_faults(h: &History, kf: &KnownFindings, st: &mut Stats, enumerate_faults: bool) -> Result<(), Failure> {
    let (_, recs) = run_history(h).map_err(|e| Failure::new("harness", h.json(), e))?;
    let (n, _) = judge(h, &recs)?;
    st.eval();
    let interesting = n >= 2 && recs.iter().any(|r| !r.deliveries.is_empty());
    if n >= 2 {
        st.class("base>=2-uplinks");
    }
    if interesting {
        st.nt_hash(hash_value(&h.json()));
        if st.want_sample() {
            st.sample(h.json());
        }
    }
    if recs.iter().any(|r| r.outcome == Outcome::Resp("SessionExpired".into())) {
        st.class("session-expired-reached");
    }
    if recs.iter().flat_map(|r| r.txs.iter()).any(|t| t.fcnt32.map(|c| c & 0xFFFF == 0 && c > 0).unwrap_or(false)) {
        st.class("16-bit-boundary-crossed");
    }
    if !enumerate_faults {
        return Ok(());
    }
    // every fault variant re-runs the whole history: histories with long silences (judged above without
    // faults) are not multiplied by the fault positions
    let silent: usize = h.steps.iter().map(|s| if let Step::Silence(n) = s { *n as usize } else { 0 }).sum();
    if silent > 30 {
        st.class("long-silence-base-only");
        return Ok(());
    }
    // radio interactions per step (transactions only)
    let mut per_step: Vec<(usize, usize)> = vec![];
    for (i, s) in h.steps.iter().enumerate() {
        if let Step::Send { .. } = s {
            let calls = recs.iter().filter(|r| r.index == i).map(|r| r.trace.iter().filter(|e| matches!(e, Ev::Tx { .. } | Ev::SetupRx { .. } | Ev::RxRequest { .. } | Ev::CancelRx | Ev::LowPower | Ev::Deliver { .. })).count() + 3).max().unwrap_or(0);
            per_step.push((i, calls.min(40)));
        }
    }
    for (i, calls) in per_step {
        for kk in 0..calls * 3 {
            // single faults at every position, then a radio that stays broken for two and for three
            // consecutive interactions from every position
            let (k, extra) = (kk % calls, kk / calls);
            let mut hv = h.clone();
            if let Step::Send { rx, .. } = &mut hv.steps[i] {
                rx.fault_at = Some((k as u8 & 0x3F) | ((extra as u8) << 6));
            }
            let (_, recs) = run_history(&hv).map_err(|e| Failure::new("harness", hv.json(), e))?;
            let injected = recs.iter().any(|r| r.trace.iter().any(|e| matches!(e, Ev::Fault(_))));
            if !injected {
                if extra == 2 {
                    break;
                }
                continue; // k beyond the number of interactions of this transaction
            }
            st.eval();
            st.class("fault-variant");
            match judge(&hv, &recs) {
                Ok((n, _)) => {
                    if n >= 2 {
                        st.nt_hash(hash_value(&hv.json()));
                    }
                }
                Err(f) => {
                    if f.fingerprint == "counter-reuse/async/fault-after-tx" && kf.is_active(KF_ASYNC_FAULT) {
                        st.excluded(KF_ASYNC_FAULT);
                        continue;
                    }
                    return Err(f);
                }
            }
        }
    }
    Ok(())
}

pub fn replay(case: &Value, kf: &KnownFindings) -> Result<(), Failure> {
    let h = super::cross::case_history(case);
    let (_, recs) = run_history(&h).map_err(|e| Failure::new("harness", h.json(), e))?;
    let _ = kf;
    judge(&h, &recs).map(|_| ())
}

pub fn run(ctx: &mut Ctx) {
    ctx.level = "fault_enumeration".into();
    ctx.rule = "proptest histories (ABP sessions starting at counters {0, 0xFFFD..0x10001, 2^31-2, 2^32-6..2^32-1, random}; 1..8 steps of Send/Silence/RxcListen with receive plans drawn from authentic RX1/RX2/Class-C-gap downlinks, replays, bit-flips, foreign, oversize and random frames; nb, async and async+ClassC front-ends; all 9 regions), and for every base history one variant per (transaction, k) failing exactly the k-th radio interaction of that transaction (exhaustive over k). Oracle: uplinks decoded by the reference codec; full 32-bit counter recovered by MIC search; strictly increasing per session until SessionExpired; payload decrypts under that counter. Non-trivial: >= 2 uplinks and (a delivery or an injected fault); distinct by hash of the history".into();
    ctx.assumptions = vec![
        "a frame counts as handed to the radio when it is passed to tx()/TxRequest, whether or not that call then fails".into(),
        "after a radio error the application simply continues (nb: retries the failed event once)".into(),
        "nothing is required after SessionExpired".into(),
    ];
    let cases = ctx.tier.pick(8_000u32, 60_000);
    let seed = ctx.seed;
    let nthreads = ctx.threads as u32;
    let kf = ctx.kf.clone();
    ctx.parallel(|ti, _n, st| {
        let f = run_proptest(history_strategy(), cases / nthreads + 1, seed ^ 0xC06 ^ ((ti as u64) << 36), st, |h, st| check_with_faults(h, &kf, st, true));
        if let Some(f) = f {
            st.fail(f);
        }
    });
    let _ = json!(null);
    // ---- cross-generator stage (see props/cross.rs)
    ctx.rule.push_str(super::cross::CROSS_RULE);
    let cross_cases = ctx.tier.pick(super::cross::QUICK_PER_GEN, super::cross::THOROUGH_PER_GEN);
    super::cross::stage(ctx, "C06", cross_cases);
}
