use verif_core::*;

pub mod c16;

pub fn table() -> Vec<Prop> {
    vec![Prop { id: "C16", run: c16::run, replay: c16::replay }]
}
