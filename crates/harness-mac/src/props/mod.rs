use verif_core::*;

pub mod c01;
pub mod c02;
pub mod c03;
pub mod c04;
pub mod c04_alpha;
pub mod c05;
pub mod c06;
pub mod c07;
pub mod c08;
pub mod c09;
pub mod c10;
pub mod c11;
pub mod c12;
pub mod c16;
pub mod c19;
pub mod c20;
pub mod cross;

pub fn table() -> Vec<Prop> {
    vec![
        Prop { id: "C01", run: c01::run, replay: c01::replay },
        Prop { id: "C02", run: c02::run, replay: c02::replay },
        Prop { id: "C03", run: c03::run, replay: c03::replay },
        Prop { id: "C04", run: c04::run, replay: c04::replay },
        Prop { id: "C05", run: c05::run, replay: c05::replay },
        Prop { id: "C06", run: c06::run, replay: c06::replay },
        Prop { id: "C07", run: c07::run, replay: c07::replay },
        Prop { id: "C08", run: c08::run, replay: c08::replay },
        Prop { id: "C09", run: c09::run, replay: c09::replay },
        Prop { id: "C10", run: c10::run, replay: c10::replay },
        Prop { id: "C11", run: c11::run, replay: c11::replay },
        Prop { id: "C12", run: c12::run, replay: c12::replay },
        Prop { id: "C16", run: c16::run, replay: c16::replay },
        Prop { id: "C19", run: c19::run, replay: c19::replay },
        Prop { id: "C20", run: c20::run, replay: c20::replay },
        // development aid (not a property, not in MANIFEST.json): every judge over every generator
        Prop { id: "XJ", run: cross::run_all, replay: cross::replay },
    ]
}
