use verif_core::*;

pub mod c16;

pub type RunFn = fn(&mut Ctx);
pub type ReplayFn = fn(&serde_json::Value, &KnownFindings) -> Result<(), Failure>;

pub struct Prop {
    pub id: &'static str,
    pub run: RunFn,
    pub replay: ReplayFn,
}

pub fn table() -> Vec<Prop> {
    vec![Prop { id: "C16", run: c16::run, replay: c16::replay }]
}

/// Generic driver shared by all properties:
///  1. `--replay F`: re-execute one saved case through the oracle (strict: nothing tolerated).
///  2. otherwise: decide which open known findings are still active (their saved replay still
///     fails with the listed fingerprint), replay every regression input, then run the search.
pub fn dispatch(args: &Args) -> i32 {
    let Some(p) = table().into_iter().find(|p| p.id == args.property) else {
        eprintln!("unknown property {}", args.property);
        return 2;
    };
    if let Some(path) = &args.replay {
        let case = match load_case(path) {
            Ok(c) => c,
            Err(e) => {
                eprintln!("{e}");
                return 2;
            }
        };
        let none = KnownFindings::default();
        return match catch(|| (p.replay)(&case, &none)) {
            Ok(Ok(())) => {
                println!("replay {path}: property held");
                0
            }
            Ok(Err(f)) => {
                println!("VIOLATION property={} replay={}", p.id, path);
                println!("  rule={} fingerprint={}", f.rule, f.fingerprint);
                println!("  detail: {}", f.detail);
                1
            }
            Err(pm) => {
                println!("VIOLATION property={} replay={}", p.id, path);
                println!("  harness panic: {pm}");
                1
            }
        };
    }
    let mut ctx = Ctx::new(p.id, args.tier, args.seed);
    // known findings: active iff open and the saved input still fails with the listed fingerprint
    let none = KnownFindings::default();
    for k in ctx.kf.for_property(p.id) {
        let Some(rp) = &k.replay else { continue };
        let case = match load_case(rp) {
            Ok(c) => c,
            Err(e) => {
                eprintln!("known finding {}: {e}", k.id);
                return 2;
            }
        };
        let want_fp = k.raw["fingerprint"].as_str().unwrap_or("").to_string();
        let r = catch(|| (p.replay)(&case, &none));
        let failing = match r {
            Ok(Ok(())) => None,
            Ok(Err(f)) => Some(f),
            Err(pm) => Some(Failure::panic(case.clone(), &pm)),
        };
        match (k.status.as_str(), failing) {
            ("open", Some(f)) if f.fingerprint == want_fp => {
                ctx.kf.active.insert(k.id.clone());
            }
            ("open", Some(f)) => {
                // fails, but differently from what is listed: report it
                ctx.stats.fail(f);
            }
            ("open", None) => {}
            (_, Some(f)) => {
                // a fixed finding has come back
                ctx.stats.fail(f);
            }
            (_, None) => {}
        }
    }
    for rp in list_replays(p.id, "regress") {
        if let Ok(case) = load_case(&rp) {
            ctx.stats.class("regression-replays");
            let kf = ctx.kf.clone();
            match catch(|| (p.replay)(&case, &kf)) {
                Ok(Ok(())) => {}
                Ok(Err(f)) => ctx.stats.fail(f),
                Err(pm) => ctx.stats.fail(Failure::panic(case.clone(), &pm)),
            }
        }
    }
    (p.run)(&mut ctx);
    ctx.finish()
}
