//! C04 part (a): every history up to a bounded depth over a fixed event alphabet.
//!
//! The alphabet is chosen so that its words reach the states the property text names ("a channel plan
//! with no usable channel", a re-join in the middle of a session, a queue of unanswered MAC requests,
//! the ADR back-off having lowered the data rate): every word of length <= depth is run on every
//! region x front-end x activation, followed by three silent uplinks and one answered uplink.

use super::c04::judge;
use crate::drive::fronts::*;
use crate::drive::history::*;
use crate::drive::net::*;
use crate::gen;
use verif_core::oracle::refcodec::RefCfList;
use verif_core::oracle::refregion::Reg;
use verif_core::*;

fn send(rx: RxPlan) -> Step {
    Step::Send { port: 3, len: 5, confirmed: false, rx }
}

/// The event alphabet for one region.
pub fn alphabet(reg: Reg) -> Vec<(&'static str, Step)> {
    let freqs = gen::freq_set(reg);
    let fixed = matches!(reg, Reg::Us915 | Reg::Au915);
    let jaw = |cf: Option<RefCfList>, dl: u8, wrong_key: bool| Recipe::JoinAccept { dl_settings: dl, rx_delay: 2, cflist: cf, wrong_key, stale_nonce: false, flip_bit: None, dev_addr: 0x0A0B0C0D, net_id: 0x21, join_nonce: 0x31 };
    let ja = |cf: Option<RefCfList>, dl: u8| jaw(cf, dl, false);
    // "narrow the plan": fixed plans switch every 125 kHz channel off but one bank-1 channel; dynamic
    // plans create a channel in the upper half of the table and enable only it
    let narrow: Vec<Cmd> = if fixed {
        vec![Cmd::LinkAdrReq { dr: 15, txp: 15, mask: 0x0000, cntl: 7, nbtrans: 0 }, Cmd::LinkAdrReq { dr: 15, txp: 15, mask: 0x0200, cntl: 1, nbtrans: 1 }]
    } else {
        vec![Cmd::NewChannelReq { idx: 11, freq: freqs[4], dr_range: 0x50 }, Cmd::LinkAdrReq { dr: 15, txp: 15, mask: 0x0800, cntl: 0, nbtrans: 1 }]
    };
    // "empty the plan": requests that, if obeyed literally, leave nothing to transmit on
    let empty: Vec<Cmd> = if fixed {
        vec![Cmd::LinkAdrReq { dr: 15, txp: 15, mask: 0x0000, cntl: 7, nbtrans: 1 }, Cmd::LinkAdrReq { dr: 15, txp: 15, mask: 0x0000, cntl: 4, nbtrans: 1 }]
    } else {
        vec![Cmd::NewChannelReq { idx: 0, freq: 0, dr_range: 0 }, Cmd::NewChannelReq { idx: 1, freq: 0, dr_range: 0 }, Cmd::NewChannelReq { idx: 2, freq: 0, dr_range: 0 }, Cmd::LinkAdrReq { dr: 15, txp: 15, mask: 0x0000, cntl: 0, nbtrans: 1 }]
    };
    // a data rate only part of the plan supports, with a mask of channels that may not support it
    let dr_shift: Vec<Cmd> = if fixed {
        vec![Cmd::LinkAdrReq { dr: 4, txp: 2, mask: 0x00FF, cntl: 6, nbtrans: 1 }, Cmd::LinkAdrReq { dr: 6, txp: 2, mask: 0x0001, cntl: 7, nbtrans: 1 }]
    } else {
        vec![Cmd::NewChannelReq { idx: 3, freq: freqs[5], dr_range: 0x77 }, Cmd::LinkAdrReq { dr: 7, txp: 3, mask: 0x0008, cntl: 0, nbtrans: 1 }, Cmd::DlChannelReq { idx: 3, freq: freqs[6] }]
    };
    let answers: Vec<Cmd> = vec![Cmd::DevStatusReq, Cmd::RxParamSetupReq { dl_settings: 0x23, freq: freqs[4] }, Cmd::RxTimingSetupReq(3), Cmd::DevStatusReq, Cmd::DutyCycleReq(2), Cmd::DevStatusReq];
    let frm = |c: Vec<Cmd>| Recipe::Auth { delta: 1, confirmed: true, port: Some(0), payload_len: 0, fopts: vec![], frm_cmds: c, ack: false, fpending: true };
    let cf_a = if fixed { RefCfList::Type1([0x00, 0x00, 0x02, 0x00, 0, 0, 0, 0, 0x00]) } else { RefCfList::Type0([freqs[4] / 100, 0, freqs[5] / 100, 0, freqs[6] / 100]) };
    vec![
        ("silent", send(RxPlan::default())),
        ("garbage-rx1", send(RxPlan { rx1: vec![Recipe::Random(vec![0x60, 1, 2, 3, 4, 0x8F, 9, 9, 1, 2, 3, 4, 5, 6, 7, 8, 9]), Recipe::Foreign { same_addr: true }], ..Default::default() })),
        ("ack-rx1", send(RxPlan::rx1(Recipe::Auth { delta: 1, confirmed: true, port: Some(7), payload_len: 3, fopts: vec![], frm_cmds: vec![], ack: true, fpending: false }))),
        ("narrow-rx1", send(RxPlan::rx1(Recipe::auth_cmds(1, narrow)))),
        ("empty-rx2", send(RxPlan::rx2(frm(empty)))),
        ("dr-shift-rx2", send(RxPlan::rx2(Recipe::auth_cmds(2, dr_shift)))),
        ("answers-rx1", send(RxPlan { gap1: vec![Recipe::BitFlip { bit: 77, with_cmds: true }], rx1: vec![Recipe::auth_cmds(1, answers)], ..Default::default() })),
        ("replay-oversize", send(RxPlan { rx1: vec![Recipe::Replay(0)], rx2: vec![Recipe::Oversize { authentic: true, excess: 3 }], ..Default::default() })),
        ("fopts-and-port0", send(RxPlan::rx1(Recipe::AuthRaw { delta: 1, confirmed: true, fopts: vec![0x06], port: Some(0), frm: vec![0x06, 0x0D] }))),
        ("join-ok", Step::Join(RxPlan::rx1(ja(Some(cf_a), 0x13)))),
        ("join-rx2-bad-dl", Step::Join(RxPlan { rx1: vec![jaw(None, 0x00, true)], rx2: vec![ja(Some(RefCfList::Raw([0xA5; 16])), 0xFF)], ..Default::default() })),
        ("join-timeout", Step::Join(RxPlan::default())),
        ("silence-100", Step::Silence(100)),
        ("set-dr-max", Step::SetDr((0..16u8).filter(|d| reg.is_uplink_dr(*d)).max().unwrap_or(0))),
    ]
}

pub fn run(ctx: &mut Ctx, regions: &[RegionId], depth: usize) {
    let fronts = [FrontKind::Async, FrontKind::Nb, FrontKind::AsyncClassC];
    let seed = ctx.seed;
    let mut jobs: Vec<(RegionId, FrontKind, bool, usize)> = vec![];
    for r in regions {
        let n = alphabet(Reg::from_name(r.name()).unwrap()).len();
        for f in fronts {
            for otaa in [false, true] {
                // one job per first letter so that the work spreads over the threads
                for first in 0..n {
                    jobs.push((*r, f, otaa, first));
                }
            }
        }
    }
    ctx.parallel(|ti, n, st| {
        for (ji, (region, front, otaa, first)) in jobs.iter().enumerate() {
            if ji % n != ti {
                continue;
            }
            let reg = Reg::from_name(region.name()).unwrap();
            let alpha = alphabet(reg);
            let cfg = DevCfg { region: *region, join_bias: None, front: *front, board: (14, 0) };
            let k = alpha.len();
            // words of length 1..=depth that start with `first`
            for len in 1..=depth {
                let total = k.pow((len - 1) as u32);
                for w in 0..total {
                    let mut word = vec![*first];
                    let mut x = w;
                    for _ in 1..len {
                        word.push(x % k);
                        x /= k;
                    }
                    let mut steps: Vec<Step> = vec![];
                    if *otaa {
                        steps.push(Step::Join(RxPlan::rx1(Recipe::JoinAccept { dl_settings: 0, rx_delay: 1, cflist: None, wrong_key: false, stale_nonce: false, flip_bit: None, dev_addr: 0x01020304, net_id: 0x13, join_nonce: 7 })));
                    }
                    steps.extend(word.iter().map(|i| alpha[*i].1.clone()));
                    steps.push(Step::Silence(3));
                    steps.push(Step::Send { port: 2, len: 4, confirmed: true, rx: RxPlan::rx1(Recipe::auth_empty(1)) });
                    let h = History { cfg: cfg.clone(), activation: if *otaa { Activation::Otaa } else { Activation::Abp { fcnt_up: 0, fcnt_down: None } }, board: Board::default(), rng_script: vec![], rng_seed: seed ^ fnv64(format!("{word:?}").as_bytes()), steps };
                    st.eval();
                    st.class(&format!("alphabet-depth-{len}"));
                    match run_history(&h) {
                        Err(e) => st.fail(Failure::new("harness", h.json(), e)),
                        Ok((_, recs)) => {
                            if recs.iter().any(|r| r.deliveries.iter().any(|d| matches!(d.verdict, Verdict::Accept { .. } | Verdict::JoinAccept { .. }))) {
                                st.nt_hash(hash_value(&h.json()));
                            }
                            if st.want_sample() && st.evaluations % 4001 == 11 {
                                st.sample(serde_json::json!({"word": word.iter().map(|i| alpha[*i].0).collect::<Vec<_>>(), "region": region.name(), "front": format!("{front:?}"), "otaa": otaa}));
                            }
                            if let Err(f) = judge(&h, &recs) {
                                st.fail(f);
                            }
                        }
                    }
                }
            }
        }
    });
}
