//! C08 — MAC command handling is consistent and atomic: the device does what it answers.

use crate::drive::fronts::*;
use crate::drive::history::*;
use crate::drive::net::*;
use crate::drive::*;
use crate::gen;
use lorawan_device::mac::VerifSnapshot;
use serde_json::Value;
use verif_core::oracle::refcodec;
use verif_core::oracle::refregion::Reg;
use verif_core::proptest::prelude::*;
use verif_core::*;

#[derive(Debug, Clone, PartialEq)]
pub enum Req {
    LinkAdr { dr: u8, txp: u8, mask: u16, cntl: u8 },
    RxParam { off: u8, dr2: u8, freq: u32 },
    DevStatus,
    NewChannel { idx: u8, freq: u32, dr_range: u8 },
    RxTiming(u8),
    DlChannel { idx: u8, freq: u32 },
    /// no answer expected (LinkCheckAns, DeviceTimeAns, DutyCycleReq, TXParamSetupReq)
    Silent(u8),
}

fn f24(b: &[u8]) -> u32 {
    (b[0] as u32 | (b[1] as u32) << 8 | (b[2] as u32) << 16) * 100
}

/// The well-formed prefix of a downlink MAC command stream, decoded from the specification's layout.
pub fn parse_reqs(stream: &[u8]) -> Vec<Req> {
    let (cmds, _) = refcodec::split_cmds(stream, false);
    cmds.into_iter()
        .map(|(cid, p)| match cid {
            0x03 => Req::LinkAdr { dr: p[0] >> 4, txp: p[0] & 15, mask: p[1] as u16 | (p[2] as u16) << 8, cntl: (p[3] >> 4) & 7 },
            0x05 => Req::RxParam { off: (p[0] >> 4) & 7, dr2: p[0] & 15, freq: f24(&p[1..4]) },
            0x06 => Req::DevStatus,
            0x07 => Req::NewChannel { idx: p[0], freq: f24(&p[1..4]), dr_range: p[4] },
            0x08 => Req::RxTiming(p[0] & 15),
            0x0A => Req::DlChannel { idx: p[0], freq: f24(&p[1..4]) },
            c => Req::Silent(c),
        })
        .collect()
}

/// expected answers in request order: (cid, index of the request it answers, block id for LinkADR)
pub fn expected_answers(reqs: &[Req], fixed: bool) -> Vec<(u8, usize)> {
    let mut out = vec![];
    let mut i = 0;
    while i < reqs.len() {
        match &reqs[i] {
            Req::LinkAdr { .. } => {
                let mut j = i;
                while j < reqs.len() && matches!(reqs[j], Req::LinkAdr { .. }) {
                    j += 1;
                }
                for k in i..j {
                    out.push((0x03, k));
                }
                i = j;
                continue;
            }
            Req::RxParam { .. } => out.push((0x05, i)),
            Req::DevStatus => out.push((0x06, i)),
            Req::NewChannel { .. } => {
                if !fixed {
                    out.push((0x07, i))
                }
            }
            Req::RxTiming(_) => out.push((0x08, i)),
            Req::DlChannel { .. } => {
                if !fixed {
                    out.push((0x0A, i))
                }
            }
            Req::Silent(_) => {}
        }
        i += 1;
    }
    out
}

#[derive(Debug, Clone, PartialEq)]
struct M {
    data_rate: u8,
    /// admissible values of the stored TX power (dBm EIRP) after the requests folded so far
    tx_power: Vec<Option<u8>>,
    rx1_dr_offset: u8,
    rx2_dr: Option<u8>,
    rx2_freq: Option<u32>,
    rx1_delay: u32,
    mask: [u8; 9],
    /// (uplink frequency, RX1 frequency, dr range)
    channels: [Option<(u32, u32, u8)>; 16],
}

impl M {
    fn from(s: &VerifSnapshot) -> M {
        let mut channels = [None; 16];
        for (o, c) in channels.iter_mut().zip(s.plan.channels.iter()) {
            *o = c.map(|c| (c.frequency, c.dl_frequency.unwrap_or(c.frequency), c.dr_range));
        }
        M { data_rate: s.data_rate, tx_power: vec![s.tx_power], rx1_dr_offset: s.rx1_dr_offset, rx2_dr: s.rx2_data_rate, rx2_freq: s.rx2_frequency, rx1_delay: s.rx1_delay, mask: s.plan.channel_mask, channels }
    }
    fn bit(&self, c: usize) -> bool {
        self.mask[c / 8] & (1 << (c % 8)) != 0
    }
    fn set(&mut self, c: usize, on: bool) {
        if on {
            self.mask[c / 8] |= 1 << (c % 8)
        } else {
            self.mask[c / 8] &= !(1 << (c % 8))
        }
    }
    /// effective set of usable channels (mask AND defined)
    fn effective(&self, fixed: bool) -> Vec<usize> {
        if fixed {
            (0..72).filter(|c| self.bit(*c)).collect()
        } else {
            (0..16).filter(|c| self.bit(*c) && self.channels[*c].is_some()).collect()
        }
    }
}

fn in_band(reg: Reg, f: u32) -> bool {
    let (lo, hi) = reg.band();
    f >= lo && f <= hi
}

/// Applies a LinkADRReq block's mask commands to a working copy (refregion ChMaskCntl semantics).
/// Returns false if any ChMaskCntl is RFU for the region.
fn apply_masks(reg: Reg, m: &mut M, block: &[&Req]) -> bool {
    let mut ok = true;
    for r in block {
        if let Req::LinkAdr { mask, cntl, .. } = r {
            if !reg.valid_chmask_cntl().contains(cntl) {
                ok = false;
                continue;
            }
            if reg.fixed() {
                match cntl {
                    0..=3 => {
                        for b in 0..16 {
                            m.set(*cntl as usize * 16 + b, mask & (1 << b) != 0);
                        }
                    }
                    4 => {
                        for b in 0..8 {
                            m.set(64 + b, mask & (1 << b) != 0);
                        }
                    }
                    5 => {
                        for i in 0..8 {
                            let on = mask & (1 << i) != 0;
                            for c in 0..8 {
                                m.set(i * 8 + c, on);
                            }
                            m.set(64 + i, on);
                        }
                    }
                    _ => {
                        for c in 0..64 {
                            m.set(c, *cntl == 6);
                        }
                        for b in 0..8 {
                            m.set(64 + b, mask & (1 << b) != 0);
                        }
                    }
                }
            } else if *cntl == 0 {
                for b in 0..16 {
                    m.set(b, mask & (1 << b) != 0);
                }
            } else {
                for b in 0..16 {
                    if m.channels[b].is_some() {
                        m.set(b, true);
                    }
                }
            }
        }
    }
    ok
}

fn tx_power_expected(reg: Reg, idx: u8) -> Option<Vec<u8>> {
    let e = reg.tx_power_eirp(idx)?;
    // the crate documents a 21 dBm cap on conducted power for US915
    Some(if matches!(reg, Reg::Us915) { vec![e.min(21) as u8, e as u8] } else { vec![e as u8] })
}

pub fn judge(h: &History, recs: &[StepRec]) -> Result<(u32, u32), Failure> {
    let case = || h.json();
    let reg = Reg::from_name(h.cfg.region.name()).unwrap();
    let fixed = reg.fixed();
    let region_cfg = h.cfg.region_configuration();
    let implemented = |d: u8| region_cfg.get_max_payload_length(lorawan_device::region::DR::from(d), false, false) > 0;
    let mut judged = 0u32;
    let mut acks = 0u32;
    // answers owed to the next uplink, and the sticky subset for the ones after
    let mut pending: Option<(Vec<(u8, usize)>, Vec<Req>, VerifSnapshot, VerifSnapshot, usize, Option<u32>)> = None;
    let mut sticky: Vec<(u8, Vec<u8>)> = vec![];
    let mut sticky_known = true;
    // sticky answers that did not fit the answering uplink (tolerated later, never required)
    let mut sticky_late: Vec<u8> = vec![];
    // the join-channel bias of fixed plans may choose channel and data rate of data frames until a
    // channel mask arrives (CFList or an accepted LinkADRReq): until then the data rate on the air is
    // not judged
    let mut bias_possible = h.cfg.join_bias.is_some();
    for (ri, r) in recs.iter().enumerate() {
        if r.outcome.is_panic() {
            break;
        }
        if r.deliveries.iter().any(|d| matches!(d.verdict, Verdict::SizeDontCare)) {
            return Ok((judged, acks));
        }
        // a radio fault: whether the uplink of this transaction counts as "the next uplink" and what
        // became of the answers it carried is not fixed by the statement — obligations are forgotten
        // (nothing is demanded until the next downlink accepted in a Class A window), the history goes on
        if r.trace.iter().any(|e| matches!(e, Ev::Fault(_))) {
            pending = None;
            sticky.clear();
            sticky_late.clear();
            sticky_known = false;
            continue;
        }
        if matches!(r.step, Step::Join(_) | Step::JoinAbp | Step::SetSession { .. }) {
            pending = None;
            sticky.clear();
            sticky_late.clear();
            sticky_known = true;
            bias_possible = h.cfg.join_bias.is_some();
            continue;
        }
        // ---- the uplink of this record carries the answers to what is pending
        if let Some(t) = r.txs.iter().find(|t| !t.join) {
            let Some(v) = &t.view else { continue };
            let answers_bytes: Vec<u8> = if v.fport == Some(0) { t.plain.clone().unwrap_or_default() } else { v.fopts.clone() };
            let (ans, end) = refcodec::split_cmds(&answers_bytes, true);
            if end.is_err() {
                return Err(Failure::new("answers-whole", case(), format!("step {}: MAC answers {} are not whole uplink commands", r.index, hex(&answers_bytes))).with_fp("answers/not-whole"));
            }
            if answers_bytes.len() > 15 {
                return Err(Failure::new("answers-15-bytes", case(), format!("step {}: {} bytes of MAC answers", r.index, answers_bytes.len())));
            }
            if let Some((exp, reqs, s0, s1, at, tx_bw)) = pending.take() {
                // (1) one answer per handled request, in order; only trailing answers may be missing
                let got_cids: Vec<u8> = ans.iter().map(|a| a.0).collect();
                let exp_cids: Vec<u8> = exp.iter().map(|e| e.0).collect();
                let is_prefix = got_cids.len() <= exp_cids.len() && exp_cids[..got_cids.len()] == got_cids[..];
                if !is_prefix {
                    let fp = if got_cids.len() < exp_cids.len() && got_cids.iter().all(|c| exp_cids.contains(c)) { "answers/non-trailing-dropped" } else { "answers/sequence" };
                    return Err(Failure::new("answers-sequence", case(), format!("downlink at step {at} carried requests {reqs:?}; expected answers (CIDs) {exp_cids:02x?}, next uplink (step {}) carries {got_cids:02x?}\n{}", r.index, render(&recs[ri.saturating_sub(1)..=ri], 2))).with_fp(fp));
                }
                if got_cids.len() < exp_cids.len() {
                    // the first missing answer must really not fit
                    let used: usize = ans.iter().map(|a| 1 + a.1.len()).sum();
                    let next_len = 1 + refcodec::up_len(exp_cids[got_cids.len()]).unwrap_or(0);
                    if used + next_len <= 15 {
                        return Err(Failure::new("answers-sequence", case(), format!("answers {got_cids:02x?} use {used} bytes, the next expected answer ({:#04x}, {next_len} bytes) would have fitted", exp_cids[got_cids.len()])).with_fp("answers/dropped-although-fits"));
                    }
                }
                // LinkADRAns copies identical within a block
                for w in exp.windows(2).zip(ans.windows(2)) {
                    let ((c0, q0), (c1, q1)) = (w.0[0], w.0[1]);
                    if c0 == 0x03 && c1 == 0x03 && q1 == q0 + 1 && matches!(reqs[q0], Req::LinkAdr { .. }) && w.1[0].1 != w.1[1].1 {
                        // consecutive requests of the same block
                        let same_block = (q0..=q1).all(|k| matches!(reqs[k], Req::LinkAdr { .. }));
                        if same_block {
                            return Err(Failure::new("answers-block", case(), "LinkADRAns copies of one block differ").with_fp("answers/block-copies-differ"));
                        }
                    }
                }
                // (2)+(3) fold the requests over S0 with the device's own answer bits
                if got_cids.len() == exp_cids.len() {
                    judged += 1;
                    let mut m = M::from(&s0);
                    // the uplink of this transaction was sent from S0: when S0 left no usable channel the
                    // device may first have restored the regional defaults (LoRaMac-node behaviour)
                    let restored = {
                        let mut r = m.clone();
                        if fixed {
                            let need_500 = reg.dr(r.data_rate).map(|x| x.1 == 500_000).unwrap_or(false);
                            let any = r.effective(true).iter().any(|c| (*c >= 64) == need_500);
                            // (only the regular selector does that: while a join-channel bias still
                            // picks the channel, the frame goes out at the bias channel's own data
                            // rate and the mask stays as it was — recognisable by the bandwidth on
                            // the air not being the one of the data rate in force)
                            let regular = tx_bw.map(|bw| (bw == 500_000) == need_500).unwrap_or(true);
                            if !any && regular {
                                r.mask = [0xFF; 9];
                            }
                        } else if r.effective(false).is_empty() {
                            for c in 0..reg.default_channels().len() {
                                r.set(c, true);
                            }
                        }
                        r
                    };
                    m = restored;
                    let mut ai = 0usize;
                    let mut qi = 0usize;
                    while qi < reqs.len() {
                        match &reqs[qi] {
                            Req::LinkAdr { .. } => {
                                let mut qj = qi;
                                while qj < reqs.len() && matches!(reqs[qj], Req::LinkAdr { .. }) {
                                    qj += 1;
                                }
                                let block: Vec<&Req> = reqs[qi..qj].iter().collect();
                                let bits = ans[ai].1[0];
                                ai += qj - qi;
                                let Req::LinkAdr { dr, txp, .. } = block[block.len() - 1] else { unreachable!() };
                                let mut work = m.clone();
                                let cntl_ok = apply_masks(reg, &mut work, &block);
                                let new_dr = if *dr == 15 { m.data_rate } else { *dr };
                                if bits == 0x07 {
                                    acks += 1;
                                    // must-reject
                                    let mut why = vec![];
                                    if !cntl_ok {
                                        why.push("RFU ChMaskCntl".to_string());
                                    }
                                    if *dr != 15 && !reg.is_uplink_dr(*dr) {
                                        why.push(format!("DataRate {dr} is not an uplink data rate of the region"));
                                    }
                                    if *txp != 15 && reg.tx_power_eirp(*txp).is_none() {
                                        why.push(format!("TXPower index {txp} is outside the regional table"));
                                    }
                                    if cntl_ok {
                                        let eff = work.effective(fixed);
                                        let usable = if fixed {
                                            match reg.dr(new_dr).map(|x| x.1) {
                                                Some(500_000) => eff.iter().any(|c| *c >= 64),
                                                Some(_) => eff.iter().any(|c| *c < 64),
                                                None => true,
                                            }
                                        } else {
                                            !eff.is_empty()
                                        };
                                        if !usable {
                                            why.push("the resulting mask leaves no usable channel".to_string());
                                        }
                                    }
                                    if !why.is_empty() {
                                        return Err(Failure::new("must-reject", case(), format!("LinkADRReq block {block:?} answered with full ACK although: {}", why.join("; "))).with_fp(format!("must-reject/LinkADRReq/{}", why[0].split(' ').take(2).collect::<Vec<_>>().join("-"))));
                                    }
                                    // apply
                                    bias_possible = false;
                                    m.mask = work.mask;
                                    m.data_rate = new_dr;
                                    if *txp != 15 {
                                        m.tx_power = tx_power_expected(reg, *txp).unwrap().into_iter().map(Some).collect();
                                    }
                                }
                                qi = qj;
                                continue;
                            }
                            Req::RxParam { off, dr2, freq } => {
                                let bits = ans[ai].1[0];
                                ai += 1;
                                if bits == 0x07 {
                                    acks += 1;
                                    let mut why = vec![];
                                    if *off > reg.max_rx1_offset() {
                                        why.push(format!("RX1DROffset {off} above the regional maximum"));
                                    }
                                    if *dr2 != 15 && reg.dr(*dr2).is_none() {
                                        why.push(format!("RX2 data rate {dr2} is not defined"));
                                    }
                                    if !in_band(reg, *freq) {
                                        why.push(format!("frequency {freq} outside the band"));
                                    }
                                    if !why.is_empty() {
                                        return Err(Failure::new("must-reject", case(), format!("RXParamSetupReq {:?} answered with full ACK although: {}", reqs[qi], why.join("; "))).with_fp("must-reject/RXParamSetupReq"));
                                    }
                                    m.rx1_dr_offset = *off;
                                    if *dr2 != 15 {
                                        m.rx2_dr = Some(*dr2);
                                    }
                                    m.rx2_freq = Some(*freq);
                                }
                            }
                            Req::RxTiming(d) => {
                                ai += 1;
                                m.rx1_delay = if *d == 0 { 1000 } else { *d as u32 * 1000 };
                            }
                            Req::DevStatus => {
                                let a = &ans[ai].1;
                                ai += 1;
                                // margin = SNR of the downlink, 6-bit signed
                                // (an SNR outside the field's range -32..=31 is not judged: no property says
                                // how it is to be reported)
                                let want = (h.board.snr as u8) & 0x3f;
                                if (-32..=31).contains(&h.board.snr) && a[1] & 0x3f != want {
                                    return Err(Failure::new("devstatus-margin", case(), format!("DevStatusAns margin {:#04x}, downlink SNR was {}", a[1], h.board.snr)));
                                }
                            }
                            Req::NewChannel { idx, freq, dr_range } => {
                                if !fixed {
                                    let bits = ans[ai].1[0];
                                    ai += 1;
                                    if bits & 3 == 3 {
                                        acks += 1;
                                        let mut why = vec![];
                                        if (*idx as usize) < reg.default_channels().len() {
                                            why.push(format!("index {idx} is a default channel"));
                                        } else if *idx >= 16 {
                                            why.push(format!("index {idx} >= 16"));
                                        }
                                        if *freq != 0 && !in_band(reg, *freq) {
                                            why.push(format!("frequency {freq} outside the band"));
                                        }
                                        if *freq != 0 && (dr_range >> 4) < (dr_range & 15) {
                                            why.push("DrRange min > max".to_string());
                                        }
                                        if !why.is_empty() {
                                            return Err(Failure::new("must-reject", case(), format!("NewChannelReq {:?} answered with full ACK although: {}", reqs[qi], why.join("; "))).with_fp("must-reject/NewChannelReq"));
                                        }
                                        let i = *idx as usize;
                                        if *freq == 0 {
                                            m.channels[i] = None;
                                            m.set(i, false);
                                        } else {
                                            m.channels[i] = Some((*freq, *freq, *dr_range));
                                            m.set(i, true);
                                        }
                                    }
                                }
                            }
                            Req::DlChannel { idx, freq } => {
                                if !fixed {
                                    let bits = ans[ai].1[0];
                                    ai += 1;
                                    if bits & 3 == 3 {
                                        acks += 1;
                                        let defined = (*idx as usize) < 16 && m.channels[*idx as usize].is_some();
                                        let mut why = vec![];
                                        if !defined {
                                            why.push(format!("channel {idx} is not defined"));
                                        }
                                        if !in_band(reg, *freq) {
                                            why.push(format!("frequency {freq} outside the band"));
                                        }
                                        if !why.is_empty() {
                                            return Err(Failure::new("must-reject", case(), format!("DlChannelReq {:?} answered with full ACK although: {}", reqs[qi], why.join("; "))).with_fp("must-reject/DlChannelReq"));
                                        }
                                        let c = m.channels[*idx as usize].as_mut().unwrap();
                                        c.1 = *freq;
                                    }
                                }
                            }
                            Req::Silent(_) => {}
                        }
                        qi += 1;
                    }
                    // compare with the state after the downlink
                    let got = M::from(&s1);
                    let mut diffs = vec![];
                    if got.data_rate != m.data_rate {
                        diffs.push(format!("data_rate {} (expected {})", got.data_rate, m.data_rate));
                    }
                    if !m.tx_power.contains(&s1.tx_power) {
                        diffs.push(format!("tx_power {:?} dBm (expected one of {:?} from the regional TXPower table)", s1.tx_power, m.tx_power));
                    }
                    if got.rx1_dr_offset != m.rx1_dr_offset {
                        diffs.push(format!("rx1_dr_offset {} (expected {})", got.rx1_dr_offset, m.rx1_dr_offset));
                    }
                    if got.rx2_dr != m.rx2_dr {
                        // an RX2 data rate the crate does not implement cannot be stored: only flag defined+implemented ones
                        if m.rx2_dr.map(|d| implemented(d)).unwrap_or(true) {
                            diffs.push(format!("rx2_data_rate {:?} (expected {:?})", got.rx2_dr, m.rx2_dr));
                        }
                    }
                    if got.rx2_freq != m.rx2_freq {
                        diffs.push(format!("rx2_frequency {:?} (expected {:?})", got.rx2_freq, m.rx2_freq));
                    }
                    if got.rx1_delay != m.rx1_delay {
                        diffs.push(format!("rx1_delay {} (expected {})", got.rx1_delay, m.rx1_delay));
                    }
                    if got.channels != m.channels {
                        diffs.push(format!("channels {:?} (expected {:?})", got.channels.iter().flatten().collect::<Vec<_>>(), m.channels.iter().flatten().collect::<Vec<_>>()));
                    }
                    if got.effective(fixed) != m.effective(fixed) {
                        diffs.push(format!("usable channels {:?} (expected {:?})", got.effective(fixed), m.effective(fixed)));
                    }
                    if !diffs.is_empty() {
                        let what = diffs[0].split(' ').next().unwrap_or("state").to_string();
                        return Err(Failure::new("do-what-you-answer", case(), format!("downlink at step {at} with requests {reqs:?} was answered {:02x?}; applying exactly the fully-acknowledged requests to the state before gives a different state than the device holds: {}\n{}", ans, diffs.join("; "), render(&recs[ri.saturating_sub(1)..=ri], 2))).with_fp(format!("effect/{what}")));
                    }
                    // sticky answers for the following uplinks
                    sticky = ans.iter().filter(|a| matches!(a.0, 0x05 | 0x08 | 0x0A)).cloned().collect();
                    sticky_late.clear();
                    sticky_known = true;
                } else {
                    // trailing answers were dropped (15-byte rule): the sticky answers among those that
                    // were sent are owed again; sticky answers among the dropped ones may or may not
                    // be made up for later (the statement does not say), so they are tolerated
                    sticky = ans.iter().filter(|a| matches!(a.0, 0x05 | 0x08 | 0x0A)).cloned().collect();
                    sticky_late = exp_cids[got_cids.len()..].iter().copied().filter(|c| matches!(c, 0x05 | 0x08 | 0x0A)).collect();
                    sticky_known = true;
                }
            } else if sticky_known {
                // (5) no new downlink was accepted in a Class A window since: exactly the sticky answers
                let tolerated = !sticky_late.is_empty() && ans.len() >= sticky.len() && ans[..sticky.len()] == sticky[..] && ans[sticky.len()..].iter().all(|a| sticky_late.contains(&a.0));
                if ans != sticky && !tolerated {
                    let fp = if ans.len() < sticky.len() { "sticky/dropped" } else { "sticky/extra-answer" };
                    return Err(Failure::new("stickiness", case(), format!("step {}.{}: uplink carries answers {:02x?}; the sticky answers still owed are {:02x?}\n{}", r.index, r.sub, ans, sticky, render(&recs[ri.saturating_sub(2)..=ri], 3))).with_fp(fp));
                }
            }
        }
        // ---- "has taken effect exactly as commanded": the data rate in force is the one on the air
        if let Some(t) = r.txs.iter().find(|t| !t.join) {
            if !bias_possible {
                let on_air = reg.dr_of(t.rf.sf, t.rf.bw_hz, true);
                let ok = [r.snap_before.data_rate, r.snap_after.data_rate].iter().any(|d| on_air == Some(*d));
                if !ok {
                    return Err(Failure::new("do-what-you-answer", case(), format!("step {}.{}: uplink transmitted at SF{}/{} Hz ({on_air:?}); the data rate in force is DR{} (DR{} after the transaction)\n{}", r.index, r.sub, t.rf.sf, t.rf.bw_hz, r.snap_before.data_rate, r.snap_after.data_rate, render(&recs[ri.saturating_sub(1)..=ri], 2))).with_fp("effect/data-rate-on-air"));
                }
            }
        }
        // ---- a downlink accepted in a Class A window of this record creates new obligations
        if let Some(d) = r.deliveries.iter().find(|d| matches!(d.slot, Slot::Rx1 | Slot::Rx2) && matches!(d.verdict, Verdict::Accept { .. })) {
            if let Verdict::Accept { fopts, fport, plain, .. } = &d.verdict {
                let mut reqs = parse_reqs(fopts);
                if *fport == Some(0) {
                    // FOpts and a port-0 payload in one frame (forbidden, but authentic frames like that are
                    // processed): two command streams, so a LinkADRReq block does not continue across them
                    if !reqs.is_empty() {
                        reqs.push(Req::Silent(0));
                    }
                    reqs.extend(parse_reqs(plain));
                }
                let exp = expected_answers(&reqs, fixed);
                pending = Some((exp, reqs, r.snap_before, r.snap_after, r.index, r.txs.iter().find(|t| !t.join).map(|t| t.rf.bw_hz)));
                sticky.clear();
                sticky_late.clear();
            }
        }
    }
    Ok((judged, acks))
}

/// commands biased towards values the region accepts
fn valid_cmd(reg: Reg) -> impl Strategy<Value = Cmd> {
    let drs: Vec<u8> = (0..16u8).filter(|d| reg.is_uplink_dr(*d)).collect();
    let all_drs: Vec<u8> = (0..16u8).filter(|d| reg.dr(*d).is_some()).collect();
    let (lo, hi) = reg.band();
    let cntls: Vec<u8> = reg.valid_chmask_cntl().to_vec();
    let nd = reg.default_channels().len() as u8;
    let maxoff = reg.max_rx1_offset();
    let defaults = reg.default_channels();
    let f = move || (lo / 100..=hi / 100).prop_map(|x| x * 100);
    prop_oneof![
        5 => (prop_oneof![4 => (0..drs.len()).prop_map(move |i| drs[i]), 1 => Just(15u8)], prop_oneof![0u8..6, Just(15u8)], gen::mask_strategy(), (0..cntls.len()).prop_map(move |i| cntls[i]), 0u8..4).prop_map(|(dr, txp, mask, cntl, nbtrans)| Cmd::LinkAdrReq { dr, txp, mask, cntl, nbtrans }),
        3 => (0u8..=maxoff, prop_oneof![4 => (0..all_drs.len()).prop_map(move |i| all_drs[i]), 1 => Just(15u8)], f()).prop_map(|(off, dr, freq)| Cmd::RxParamSetupReq { dl_settings: (off << 4) | dr, freq }),
        2 => Just(Cmd::DevStatusReq),
        3 => (nd..16u8, prop_oneof![4 => f().boxed(), 1 => Just(0u32).boxed()], prop_oneof![Just(0x50u8), Just(0x30u8), Just(0x52u8)]).prop_map(|(idx, freq, dr_range)| Cmd::NewChannelReq { idx, freq, dr_range }),
        2 => (0u8..16).prop_map(Cmd::RxTimingSetupReq),
        2 => (0u8..8, f()).prop_map(|(idx, freq)| Cmd::DlChannelReq { idx, freq }),
        1 => (0usize..8, 0usize..3).prop_map(move |(idx, k)| Cmd::DlChannelReq { idx: idx as u8, freq: defaults.get(k.min(defaults.len().saturating_sub(1))).copied().unwrap_or(lo) }),
        1 => any::<u8>().prop_map(Cmd::DutyCycleReq),
        1 => (any::<u8>(), any::<u8>()).prop_map(|(margin, gw)| Cmd::LinkCheckAns { margin, gw }),
    ]
}

pub fn history_strategy() -> impl Strategy<Value = History> {
    (gen::cfg_strategy(), any::<u64>(), any::<bool>(), -20i8..20).prop_flat_map(|(mut cfg, seed, otaa, snr)| {
        cfg.join_bias = None;
        let reg = Reg::from_name(cfg.region.name()).unwrap();
        let class_c = matches!(cfg.front, FrontKind::AsyncClassC | FrontKind::AsyncQ1 | FrontKind::AsyncSeeded);
        let cmds = || prop_oneof![
            6 => proptest::collection::vec(prop_oneof![3 => valid_cmd(reg), 1 => gen::cmd_strategy(reg)], 1..=6),
            // enough requests for the answers to exceed the 15 bytes of FOpts
            2 => proptest::collection::vec(prop_oneof![3 => valid_cmd(reg), 2 => Just(Cmd::DevStatusReq), 1 => gen::cmd_strategy(reg)], 7..=15),
        ];
        let down = (cmds(), any::<bool>(), any::<bool>(), any::<bool>()).prop_map(|(c, in_frm, confirmed, rx2)| {
            let r = if in_frm { Recipe::Auth { delta: 1, confirmed, port: Some(0), payload_len: 0, fopts: vec![], frm_cmds: c, ack: false, fpending: false } } else { Recipe::Auth { delta: 1, confirmed, port: None, payload_len: 0, fopts: c, frm_cmds: vec![], ack: false, fpending: false } };
            if rx2 { RxPlan::rx2(r) } else { RxPlan::rx1(r) }
        });
        let noise = gen::plan_strategy(reg, class_c);
        let step = prop_oneof![
            6 => (prop_oneof![6 => 1u8..=200, 1 => Just(0u8)], 0u8..12, any::<bool>(), down).prop_map(|(port, len, confirmed, rx)| Step::Send { port, len, confirmed, rx }),
            4 => (prop_oneof![6 => 1u8..=200, 1 => Just(0u8)], 0u8..12, any::<bool>()).prop_map(|(port, len, confirmed)| Step::Send { port, len, confirmed, rx: RxPlan::default() }),
            2 => (1u8..=200, 0u8..12, noise).prop_map(|(port, len, rx)| Step::Send { port, len, confirmed: false, rx }),
            1 => (1u16..4).prop_map(Step::Silence),
            // Class C reception between uplinks (no-op on the Class A front-ends): accepted frames there
            // are not "accepted in a Class A window", so every obligation survives them
            2 => proptest::collection::vec(prop_oneof![
                3 => (any::<bool>(), prop_oneof![Just(None), (1u8..=200).prop_map(Some)], 0u8..6, proptest::collection::vec(valid_cmd(reg), 0..3)).prop_map(|(confirmed, port, payload_len, fopts)| Recipe::Auth { delta: 1, confirmed, port, payload_len: if port.is_some() { payload_len } else { 0 }, fopts, frm_cmds: vec![], ack: false, fpending: false }),
                1 => gen::recipe_strategy(reg),
            ], 1..3).prop_map(move |v| if class_c { Step::RxcListen(v) } else { Step::Silence(1) }),
        ];
        let first = if otaa { gen::join_accept_strategy(reg, true).prop_map(|r| vec![Step::Join(RxPlan::rx1(r))]).boxed() } else { Just(vec![]).boxed() };
        (first, proptest::collection::vec(step, 2..=9)).prop_map(move |(mut pre, steps)| {
            pre.extend(steps);
            History { cfg: cfg.clone(), activation: if otaa { Activation::Otaa } else { Activation::Abp { fcnt_up: 0, fcnt_down: None } }, board: Board { snr, ..Default::default() }, rng_script: vec![], rng_seed: seed, steps: pre }
        })
    })
}

pub fn replay(case: &Value, _kf: &KnownFindings) -> Result<(), Failure> {
    let h = super::cross::case_history(case);
    let (_, recs) = run_history(&h).map_err(|e| Failure::new("harness", h.json(), e))?;
    if std::env::var("VERIF_DEBUG").is_ok() {
        eprintln!("{}", render(&recs, 50));
    }
    judge(&h, &recs).map(|_| ())
}

fn run_one(h: &History, st: &mut Stats, class: &str) -> Result<(), Failure> {
    st.eval();
    st.class(class);
    let (_, recs) = run_history(h).map_err(|e| Failure::new("harness", h.json(), e))?;
    let (judged, acks) = judge(h, &recs)?;
    st.class_n("downlinks-judged", judged as u64);
    st.class_n("full-acks", acks as u64);
    if judged > 0 {
        st.nt_hash(hash_value(&h.json()));
        if st.want_sample() && st.evaluations % 503 == 7 {
            st.sample(h.json());
        }
    }
    Ok(())
}

pub fn run(ctx: &mut Ctx) {
    let thorough = ctx.tier == Tier::Thorough;
    ctx.rule = "(a00) fixed plans with a join-channel bias (8 sub-bands x 1/2/4/9 retries x OTAA/ABP x 0/1/3 uplinks before) followed by 8 LinkADRReq shapes incl. a mask equal to the one in force: the commanded data rate must be the one on the air from the answering uplink on; (a0) Class C interplay: 5 request bundles x 5 kinds of Class C traffic (accepted plain / confirmed / MAC-bearing, rejected) heard while idle or between the windows of the following uplinks, before and after the answering uplink; (a) field sweeps: every DR x TXPower nibble pair x every ChMaskCntl x mask patterns (single commands and blocks of 2-3), every DLSettings byte x frequency set, every RXTimingSetupReq value, NewChannelReq index x frequency set x DrRange, DlChannelReq index x frequency set, each as an authentic downlink (FOpts or port 0, RX1 or RX2) followed by three uplinks so that answers and stickiness are observed; (a1) answer overflow: 4..11 mixed requests, and a sticky request at every position among 4..7 DevStatusReq (port-0 payload), followed by uplinks without downlink: the sticky answers that were sent are repeated; (b) proptest histories of 2..9 transactions with 1..6 (one in four: 7..15) commands per downlink (valid-biased and arbitrary values), uplinks on port 0, rejected frames and Class C frames interleaved; 9 regions, nb/async/async+ClassC. Oracle: answers of the next uplink parsed by the reference codec (order, whole commands, 15-byte rule, only trailing drops, identical LinkADRAns copies); the device's own answer bits folded over the snapshot taken before the downlink must reproduce the snapshot after it (ACK = applied per the reference semantics, NAK = nothing changed); full ACKs of requests in the conservative must-reject set are violations; sticky answers repeat until the next Class A downlink. Non-trivial: history with >= 1 judged downlink carrying requests; distinct by hash".into();
    ctx.assumptions = vec![
        "must-reject set is deliberately conservative (RFU ChMaskCntl, undefined/downlink-only DataRate, TXPower index outside the table, mask leaving no usable channel, RX1DROffset above the maximum, undefined RX2 DR, out-of-band frequency, NewChannelReq on default channels / index >= 16 / min>max, DlChannelReq on an undefined channel); everything else may be ACKed or NAKed but must be consistent".into(),
        "masks are compared on the effective set (mask AND defined channels)".into(),
        "when trailing answers are dropped (15-byte rule) the effect of that downlink is not judged; the sticky answers that were sent are still owed to the following uplinks, sticky answers among the dropped ones are tolerated later but not required".into(),
    ];
    let seed = ctx.seed;
    let regions: Vec<RegionId> = REGIONS.to_vec();
    let mut jobs = vec![];
    for r in &regions {
        for f in [FrontKind::Async, FrontKind::Nb] {
            for part in 0..5u8 {
                jobs.push((*r, f, part));
            }
        }
    }
    ctx.parallel(|ti, n, st| {
        for (ji, (region, front, part)) in jobs.iter().enumerate() {
            if ji % n != ti {
                continue;
            }
            let reg = Reg::from_name(region.name()).unwrap();
            let cfg = DevCfg { region: *region, join_bias: None, front: *front, board: (14, 0) };
            let fs = gen::freq_set(reg);
            let mut rng = SplitMix::new(seed ^ 0xC08 ^ ji as u64);
            let mut emit = |cmds: Vec<Cmd>, st: &mut Stats, class: &str| {
                // (the answer-overflow class needs the room of a port-0 payload for its requests)
                let in_frm = rng.below(3) == 0 || class == "answer-overflow";
                let r = if in_frm { Recipe::Auth { delta: 1, confirmed: false, port: Some(0), payload_len: 0, fopts: vec![], frm_cmds: cmds, ack: false, fpending: false } } else { Recipe::auth_cmds(1, cmds) };
                let plan = if rng.below(4) == 0 { RxPlan::rx2(r) } else { RxPlan::rx1(r) };
                let up = |rng: &mut SplitMix| Step::Send { port: if rng.below(5) == 0 { 0 } else { 7 }, len: 2, confirmed: false, rx: RxPlan::default() };
                let h = History { cfg: cfg.clone(), activation: Activation::Abp { fcnt_up: 0, fcnt_down: None }, board: Board { snr: -7, ..Default::default() }, rng_script: vec![], rng_seed: rng.next_u64(),
                    steps: vec![Step::Send { port: 1, len: 1, confirmed: false, rx: plan }, up(&mut rng), up(&mut rng), Step::Send { port: 2, len: 1, confirmed: false, rx: RxPlan::rx1(Recipe::auth_empty(1)) }, up(&mut rng)] };
                if let Err(f) = run_one(&h, st, class) {
                    st.fail(f);
                }
            };
            let masks: [u16; 7] = [0xFFFF, 0, 0x0001, 0x00FF, 0x8000, 0x0007, 0x0100];
            match part {
                0 => {
                    for dr in 0..16u8 {
                        for txp in 0..16u8 {
                            for cntl in 0..8u8 {
                                if !thorough && (dr + txp + cntl) % 2 == 1 {
                                    continue;
                                }
                                let m = masks[(dr as usize + txp as usize + cntl as usize) % masks.len()];
                                emit(vec![Cmd::LinkAdrReq { dr, txp, mask: m, cntl, nbtrans: 1 }], st, "sweep-LinkADRReq");
                            }
                        }
                    }
                }
                1 => {
                    for c1 in 0..8u8 {
                        for c2 in 0..8u8 {
                            for (mi, m) in masks.iter().enumerate() {
                                let dr = [0u8, 3, 15, 4, 8][(c1 as usize + mi) % 5];
                                emit(vec![Cmd::LinkAdrReq { dr: 15, txp: 15, mask: *m, cntl: c1, nbtrans: 0 }, Cmd::LinkAdrReq { dr, txp: (c2 + 1) % 9, mask: !*m, cntl: c2, nbtrans: 1 }], st, "sweep-LinkADRReq-block");
                                emit(vec![Cmd::LinkAdrReq { dr: 2, txp: 1, mask: *m, cntl: c1, nbtrans: 0 }, Cmd::DevStatusReq, Cmd::LinkAdrReq { dr, txp: 2, mask: masks[(mi + 3) % masks.len()], cntl: c2, nbtrans: 1 }, Cmd::RxTimingSetupReq(c2)], st, "sweep-LinkADRReq-block");
                            }
                        }
                    }
                }
                2 => {
                    for dl in 0..=255u8 {
                        for f in &fs {
                            if !thorough && (dl as usize + (*f / 100) as usize) % 2 == 1 {
                                continue;
                            }
                            emit(vec![Cmd::RxParamSetupReq { dl_settings: dl, freq: *f }], st, "sweep-RXParamSetupReq");
                        }
                    }
                    for v in 0..=255u8 {
                        emit(vec![Cmd::RxTimingSetupReq(v), Cmd::DevStatusReq], st, "sweep-RXTimingSetupReq");
                    }
                }
                3 => {
                    for idx in (0..20u8).chain([63, 64, 128, 255]) {
                        for f in &fs {
                            for d in [0x50u8, 0x05, 0x00, 0xF0, 0xFF, 0x77, 0x52] {
                                emit(vec![Cmd::NewChannelReq { idx, freq: *f, dr_range: d }], st, "sweep-NewChannelReq");
                            }
                        }
                    }
                    // create then delete, then a mask naming it
                    for idx in 3..8u8 {
                        emit(vec![Cmd::NewChannelReq { idx, freq: fs[4], dr_range: 0x50 }, Cmd::LinkAdrReq { dr: 15, txp: 15, mask: 1 << idx, cntl: 0, nbtrans: 1 }, Cmd::NewChannelReq { idx, freq: 0, dr_range: 0x50 }], st, "sweep-NewChannelReq");
                    }
                }
                _ => {
                    for idx in (0..20u8).chain([64, 255]) {
                        for f in &fs {
                            emit(vec![Cmd::DlChannelReq { idx, freq: *f }], st, "sweep-DlChannelReq");
                            emit(vec![Cmd::NewChannelReq { idx, freq: fs[4], dr_range: 0x50 }, Cmd::DlChannelReq { idx, freq: *f }, Cmd::RxParamSetupReq { dl_settings: 0x10, freq: fs[5] }], st, "sweep-DlChannelReq");
                        }
                    }
                    // answer overflow: many requests in a port-0 payload
                    for k in 4..12usize {
                        let mut v = vec![];
                        for j in 0..k {
                            v.push([Cmd::DevStatusReq, Cmd::RxParamSetupReq { dl_settings: 0, freq: fs[4] }, Cmd::RxTimingSetupReq(2), Cmd::LinkAdrReq { dr: 15, txp: 15, mask: 7, cntl: 0, nbtrans: 1 }, Cmd::DlChannelReq { idx: 0, freq: fs[5] }][(j + k) % 5].clone());
                        }
                        emit(v, st, "answer-overflow");
                    }
                    // ... and a sticky answer at every position among status answers that fill the 15 bytes
                    for n in 4..=7usize {
                        for pos in 0..=n {
                            for sticky in [Cmd::RxTimingSetupReq(3), Cmd::RxParamSetupReq { dl_settings: 0, freq: fs[4] }, Cmd::DlChannelReq { idx: 0, freq: fs[5] }] {
                                let mut v = vec![Cmd::DevStatusReq; n];
                                v.insert(pos, sticky);
                                emit(v, st, "answer-overflow");
                            }
                        }
                    }
                }
            }
        }
    });
    // ---- fixed plans with a join-channel bias: the bias ends with the first accepted LinkADRReq,
    // whatever mask it carries (also one equal to the mask in force)
    ctx.parallel(|ti, n, st| {
        let mut k = 0usize;
        for region in regions.iter().filter(|r| Reg::from_name(r.name()).unwrap().fixed()) {
            for front in [FrontKind::Async, FrontKind::Nb] {
                for sb in 1..=8u8 {
                    for retries in [1usize, 2, 4, 9] {
                        for otaa in [true, false] {
                          for before in [0usize, 1, 3] {
                            for (dr, cntl, mask) in [(1u8, 6u8, 0x00FFu16), (3, 6, 0x00FF), (2, 6, 0x0001), (3, 0, 0xFFFF), (3, (sb - 1) / 2, if sb % 2 == 1 { 0x00FF } else { 0xFF00 }), (4, 6, 1u16 << (sb - 1)), (15, 6, 0x00FF), (2, 7, 1u16 << (sb - 1))] {
                                k += 1;
                                if k % n != ti {
                                    continue;
                                }
                                let cfg = DevCfg { region: *region, join_bias: Some((sb, retries)), front, board: (14, 0) };
                                let mut steps = vec![];
                                if otaa {
                                    steps.push(Step::Join(RxPlan::rx1(Recipe::JoinAccept { dl_settings: 0, rx_delay: 1, cflist: None, wrong_key: false, stale_nonce: false, flip_bit: None, dev_addr: 0x01020304, net_id: 0x13, join_nonce: 7 })));
                                }
                                let up = Step::Send { port: 7, len: 2, confirmed: false, rx: RxPlan::default() };
                                for _ in 0..before {
                                    steps.push(up.clone());
                                }
                                steps.push(Step::Send { port: 1, len: 1, confirmed: false, rx: RxPlan::rx1(Recipe::auth_cmds(1, vec![Cmd::LinkAdrReq { dr, txp: 15, mask, cntl, nbtrans: 1 }])) });
                                steps.push(up.clone());
                                steps.push(up.clone());
                                steps.push(up);
                                let h = History { cfg, activation: if otaa { Activation::Otaa } else { Activation::Abp { fcnt_up: 0, fcnt_down: None } }, board: Board::default(), rng_script: vec![], rng_seed: seed ^ k as u64, steps };
                                if let Err(f) = run_one(&h, st, "join-bias-then-linkadr") {
                                    st.fail(f);
                                }
                            }
                          }
                        }
                    }
                }
            }
        }
    });
    // ---- Class C interplay: a Class C frame (idle listening, or heard between the windows of the next
    // uplink) between a request-bearing Class A downlink and the uplink that owes the answers
    ctx.parallel(|ti, n, st| {
        for (ri, region) in regions.iter().enumerate() {
            if ri % n != ti {
                continue;
            }
            let reg = Reg::from_name(region.name()).unwrap();
            let fs = gen::freq_set(reg);
            let cfg = DevCfg { region: *region, join_bias: None, front: FrontKind::AsyncClassC, board: (14, 0) };
            let mut rng = SplitMix::new(seed ^ 0xC08C ^ ri as u64);
            let bundles: Vec<Vec<Cmd>> = vec![
                vec![Cmd::LinkAdrReq { dr: 15, txp: 1, mask: 0x0007, cntl: 0, nbtrans: 1 }, Cmd::DevStatusReq, Cmd::RxTimingSetupReq(3)],
                vec![Cmd::DevStatusReq],
                vec![Cmd::RxParamSetupReq { dl_settings: 0, freq: reg.rx2_default().0 }, Cmd::DevStatusReq, Cmd::NewChannelReq { idx: 4, freq: fs[4], dr_range: 0x50 }],
                vec![Cmd::NewChannelReq { idx: 5, freq: fs[4], dr_range: 0x50 }, Cmd::DlChannelReq { idx: 0, freq: fs[5] }, Cmd::LinkAdrReq { dr: 15, txp: 15, mask: 0xFFFF, cntl: if reg.fixed() { 6 } else { 0 }, nbtrans: 1 }],
                vec![Cmd::RxTimingSetupReq(1)],
            ];
            let heard: Vec<Vec<Recipe>> = vec![
                vec![Recipe::auth_empty(1)],
                vec![Recipe::Auth { delta: 1, confirmed: true, port: Some(3), payload_len: 4, fopts: vec![], frm_cmds: vec![], ack: false, fpending: false }],
                vec![Recipe::Auth { delta: 2, confirmed: false, port: Some(9), payload_len: 1, fopts: vec![Cmd::DevStatusReq, Cmd::RxTimingSetupReq(5)], frm_cmds: vec![], ack: false, fpending: false }],
                vec![Recipe::Foreign { same_addr: true }, Recipe::auth_empty(1), Recipe::Replay(0)],
                vec![Recipe::BitFlip { bit: 40, with_cmds: true }],
            ];
            for b in &bundles {
                for hd in &heard {
                    for in_frm in [false, true] {
                        for place in 0..4u8 {
                            let r = if in_frm { Recipe::Auth { delta: 1, confirmed: false, port: Some(0), payload_len: 0, fopts: vec![], frm_cmds: b.clone(), ack: false, fpending: false } } else { Recipe::auth_cmds(1, b.clone()) };
                            let req = Step::Send { port: 1, len: 1, confirmed: false, rx: if place == 3 { RxPlan::rx2(r) } else { RxPlan::rx1(r) } };
                            let plain = Step::Send { port: 7, len: 2, confirmed: false, rx: RxPlan::default() };
                            let mut steps = vec![req];
                            match place {
                                0 | 3 => {
                                    steps.push(Step::RxcListen(hd.clone()));
                                    steps.push(plain.clone());
                                }
                                1 => steps.push(Step::Send { port: 7, len: 2, confirmed: false, rx: RxPlan { gap1: hd.clone(), ..Default::default() } }),
                                _ => {
                                    steps.push(plain.clone());
                                    steps.push(Step::Send { port: 7, len: 2, confirmed: false, rx: RxPlan { gap2: hd.clone(), ..Default::default() } });
                                }
                            }
                            steps.push(plain.clone());
                            steps.push(Step::RxcListen(hd.clone()));
                            steps.push(plain.clone());
                            steps.push(Step::Send { port: 2, len: 1, confirmed: false, rx: RxPlan::rx1(Recipe::auth_empty(1)) });
                            steps.push(plain);
                            let h = History { cfg: cfg.clone(), activation: Activation::Abp { fcnt_up: 0, fcnt_down: None }, board: Board::default(), rng_script: vec![], rng_seed: rng.next_u64(), steps };
                            if let Err(f) = run_one(&h, st, "classc-interplay") {
                                st.fail(f);
                            }
                        }
                    }
                }
            }
        }
    });
    let cases = ctx.tier.pick(80_000u32, 1_000_000);
    let nthreads = ctx.threads as u32;
    ctx.parallel(|ti, _n, st| {
        let f = run_proptest(history_strategy(), cases / nthreads + 1, seed ^ 0xC08B ^ ((ti as u64) << 36), st, |h, st| run_one(h, st, "random-history"));
        if let Some(f) = f {
            st.fail(f);
        }
    });
    // ---- cross-generator stage (see props/cross.rs)
    ctx.rule.push_str(super::cross::CROSS_RULE);
    let cross_cases = ctx.tier.pick(super::cross::QUICK_PER_GEN, super::cross::THOROUGH_PER_GEN);
    super::cross::stage(ctx, "C08", cross_cases);
}
