//! C10 — receive windows follow the regional parameters in force when the uplink was sent.

use crate::drive::fronts::*;
use crate::drive::history::*;
use crate::drive::net::*;
use crate::drive::*;
use crate::gen;
use lorawan_device::mac::VerifSnapshot;
use serde_json::Value;
use verif_core::oracle::refregion::Reg;
use verif_core::proptest::prelude::*;
use verif_core::*;

/// Window parameters for one uplink (frequency, SF, BW of TX; RX1 and RX2 configurations).
pub fn check_windows(reg: Reg, snap: &VerifSnapshot, tx: &Rf, rx1: &Rf, rx2: &Rf, join: bool, dl_map: Option<&std::collections::BTreeMap<usize, u32>>) -> Result<bool, (String, String)> {
    let Some(dr_up) = reg.dr_of(tx.sf, tx.bw_hz, true) else { return Err(("uplink-dr".into(), format!("TX SF{}/{} is not an uplink data rate of the region", tx.sf, tx.bw_hz))) };
    // RX1 frequency
    // several dynamic channels may share an uplink frequency: any of their pairings is admissible
    let want_f1: Vec<u32> = if reg.fixed() {
        let Some(ch) = reg.channel_of_uplink_freq(tx.freq) else { return Err(("tx-channel".into(), format!("TX frequency {} is not an uplink channel of the fixed plan", tx.freq))) };
        vec![reg.downlink_freq(ch).unwrap()]
    } else {
        // the pairing the NETWORK established: downlink frequencies of acknowledged DlChannelReq
        // commands (tracked from the answers, independently of the device's own table) when known,
        // else the device's table
        let v: Vec<u32> = snap.plan.channels.iter().enumerate().filter_map(|(i, c)| c.map(|c| (i, c))).filter(|(_, c)| c.frequency == tx.freq).map(|(i, c)| match dl_map {
            Some(m) => m.get(&i).copied().unwrap_or(c.frequency),
            None => c.dl_frequency.unwrap_or(c.frequency),
        }).collect();
        if v.is_empty() { vec![tx.freq] } else { v }
    };
    if !want_f1.contains(&rx1.freq) {
        return Err(("rx1-frequency".into(), format!("uplink on {} Hz: RX1 opened on {} Hz, the paired downlink frequency is {want_f1:?} Hz", tx.freq, rx1.freq)));
    }
    // RX1 data rate
    let off = if join { snap.rx1_dr_offset } else { snap.rx1_dr_offset };
    let mut nontrivial = off != 0;
    match reg.rx1_dr(dr_up, off) {
        Some(set) => {
            let ok = set.iter().any(|d| reg.dr(*d) == Some((rx1.sf, rx1.bw_hz)));
            if !ok {
                return Err((format!("rx1-dr/{:?}", reg), format!("uplink DR{dr_up}, RX1DROffset {off}: RX1 at SF{}/{} Hz; regional table admits DR {:?}", rx1.sf, rx1.bw_hz, set)));
            }
        }
        None => {
            if reg.downlink_dr_of(rx1.sf, rx1.bw_hz).is_none() {
                return Err(("rx1-dr-defined".into(), format!("RX1 at SF{}/{} Hz is not a LoRa data rate of the region", rx1.sf, rx1.bw_hz)));
            }
        }
    }
    // RX2
    let (def_f, def_dr) = reg.rx2_default();
    let want_f2 = snap.rx2_frequency.unwrap_or(def_f);
    if rx2.freq != want_f2 {
        let fp = if snap.rx2_frequency.is_none() { format!("rx2-frequency/default/{:?}", reg) } else { "rx2-frequency/negotiated".to_string() };
        return Err((fp, format!("RX2 opened on {} Hz; negotiated {:?}, regional default {def_f}", rx2.freq, snap.rx2_frequency)));
    }
    let want_dr2 = snap.rx2_data_rate.unwrap_or(def_dr);
    if snap.rx2_data_rate.is_some() || snap.rx2_frequency.is_some() {
        nontrivial = true;
    }
    match reg.dr(want_dr2) {
        Some(p) => {
            if p != (rx2.sf, rx2.bw_hz) {
                let fp = if snap.rx2_data_rate.is_none() { format!("rx2-dr/default/{:?}", reg) } else { "rx2-dr/negotiated".to_string() };
                return Err((fp, format!("RX2 at SF{}/{} Hz; expected DR{want_dr2} = SF{}/{} Hz", rx2.sf, rx2.bw_hz, p.0, p.1)));
            }
        }
        None => {
            if reg.downlink_dr_of(rx2.sf, rx2.bw_hz).is_none() {
                return Err(("rx2-dr-defined".into(), format!("RX2 at SF{}/{} Hz is not a LoRa data rate of the region", rx2.sf, rx2.bw_hz)));
            }
        }
    }
    if join && reg.fixed() && tx.bw_hz == 500_000 {
        nontrivial = true;
    }
    Ok(nontrivial)
}

#[derive(Clone, Copy, Debug)]
struct NetRx {
    off: u8,
    dr2: Option<u8>,
    f2: Option<u32>,
    delay_ms: u32,
}

pub fn judge(h: &History, recs: &[StepRec]) -> Result<u32, Failure> {
    let reg = Reg::from_name(h.cfg.region.name()).unwrap();
    let case = || h.json();
    let mut nt = 0;
    // downlink-frequency mappings as the network knows them from the device's answers
    let mut dl_map: std::collections::BTreeMap<usize, u32> = std::collections::BTreeMap::new();
    let mut dl_known = !reg.fixed();
    let mut pending: Option<Vec<crate::props::c08::Req>> = None;
    // RX1 offset / RX2 data rate / RX2 frequency / RX1 delay as the NETWORK knows them: changed only by
    // requests the device acknowledged completely. None = not followed at the moment (initial state,
    // after a join - C11 judges that -, after anything the model cannot follow): the device's own
    // snapshot is taken at the next data uplink and followed from there.
    let mut net_rx: Option<NetRx> = None;
    // false once the reference model itself may have lost the session (radio fault, a frame whose size verdict is undefined)
    let mut rx_follow = true;
    // DLSettings / RxDelay of the JoinAccept that established the current session (None for ABP)
    let mut join_params: Option<(u8, u8)> = None;
    for r in recs {
        if r.outcome.is_panic() {
            break;
        }
        if r.trace.iter().any(|e| matches!(e, Ev::Fault(_))) {
            dl_known = false;
            net_rx = None;
            rx_follow = false;
            continue;
        }
        if matches!(r.step, Step::Join(_) | Step::JoinAbp | Step::SetSession { .. }) {
            // CFLists redefine channels: the mapping restarts only for channels they touch; keep it simple
            if r.deliveries.iter().any(|d| matches!(d.verdict, Verdict::JoinAccept { .. })) && !dl_map.is_empty() {
                dl_known = false;
            }
            // requests whose answers never reached the network leave its view undefined
            if pending.is_some() {
                dl_known = false;
            }
            pending = None;
            net_rx = None;
            if let Some(d) = r.deliveries.iter().find_map(|d| match &d.verdict {
                Verdict::JoinAccept { desc, .. } if matches!(d.slot, Slot::Rx1 | Slot::Rx2) => Some((desc.dl_settings, desc.rx_delay)),
                _ => None,
            }) {
                join_params = Some(d);
            }
        }
        if rx_follow && net_rx.is_none() && !matches!(r.step, Step::Join(_) | Step::JoinAbp | Step::SetSession { .. }) && r.txs.iter().any(|t| !t.join) {
            let s = &r.snap_before;
            let mut n = NetRx { off: s.rx1_dr_offset, dr2: s.rx2_data_rate, f2: s.rx2_frequency, delay_ms: s.rx1_delay };
            // what the JoinAccept unambiguously fixed is the network's, not the device's, to say:
            // an RX1DROffset the region defines, and the RX delay (0 means 1 s)
            if let Some((dl, rxd)) = join_params.take() {
                let off = (dl >> 4) & 0x07;
                if off <= reg.max_rx1_offset() {
                    n.off = off;
                }
                n.delay_ms = ((rxd & 0x0F).max(1) as u32) * 1000;
                // ... and the RX2 data rate, when it is one the region defines for downlinks and the crate
                // implements (the same validity rule as C11)
                let dr2 = dl & 0x0F;
                let region_cfg = h.cfg.region_configuration();
                let implemented = region_cfg.get_max_payload_length(lorawan_device::region::DR::from(dr2), false, false) > 0;
                if reg.dr(dr2).is_some() && implemented && !(reg.fixed() && dr2 < 8) {
                    n.dr2 = Some(dr2);
                }
            }
            net_rx = Some(n);
        }
        // answers carried by this uplink update the network's view before its windows are judged
        if let (true, Some(t)) = (pending.is_some(), r.txs.iter().find(|t| !t.join)) {
            let reqs = pending.take().unwrap();
            use crate::props::c08::{expected_answers, Req};
            let bytes = t.view.as_ref().map(|v| if v.fport == Some(0) { t.plain.clone().unwrap_or_default() } else { v.fopts.clone() }).unwrap_or_default();
            let (ans, _) = verif_core::oracle::refcodec::split_cmds(&bytes, true);
            let exp = expected_answers(&reqs, reg.fixed());
            if ans.len() != exp.len() || ans.iter().zip(exp.iter()).any(|(a, e)| a.0 != e.0) {
                dl_known = false;
                // the device's state when this uplink was built is taken as the new starting point
                let s = &r.snap_before;
                net_rx = rx_follow.then_some(NetRx { off: s.rx1_dr_offset, dr2: s.rx2_data_rate, f2: s.rx2_frequency, delay_ms: s.rx1_delay });
            } else {
                for (a, (_, qi)) in ans.iter().zip(exp.iter()) {
                    match &reqs[*qi] {
                        Req::DlChannel { idx, freq } if a.1[0] & 3 == 3 => {
                            dl_map.insert(*idx as usize, *freq);
                        }
                        Req::NewChannel { idx, .. } if a.1[0] & 3 == 3 => {
                            dl_map.remove(&(*idx as usize));
                        }
                        Req::RxParam { off, dr2, freq } if a.1[0] & 7 == 7 => {
                            if let Some(n) = net_rx.as_mut() {
                                n.off = *off;
                                n.dr2 = Some(*dr2);
                                n.f2 = Some(*freq);
                            }
                        }
                        Req::RxTiming(b) => {
                            if let Some(n) = net_rx.as_mut() {
                                n.delay_ms = (b & 0x0F).max(1) as u32 * 1000;
                            }
                        }
                        _ => {}
                    }
                }
            }
        }
        if r.deliveries.iter().any(|d| matches!(d.verdict, Verdict::SizeDontCare)) {
            // the reference does not decide whether this frame fits: the network's view is undefined from here
            dl_known = false;
            net_rx = None;
            rx_follow = false;
        }
        // MAC commands accepted outside RX1/RX2 (Class C) are not followed by this model
        if r.deliveries.iter().any(|d| !matches!(d.slot, Slot::Rx1 | Slot::Rx2) && matches!(&d.verdict, Verdict::Accept { fopts, fport, plain, .. } if !fopts.is_empty() || (*fport == Some(0) && !plain.is_empty()))) {
            net_rx = None;
        }
        if let Some(d) = r.deliveries.iter().find(|d| matches!(d.slot, Slot::Rx1 | Slot::Rx2) && matches!(d.verdict, Verdict::Accept { .. })) {
            if let Verdict::Accept { fopts, fport, plain, .. } = &d.verdict {
                let mut reqs = crate::props::c08::parse_reqs(fopts);
                if *fport == Some(0) {
                    reqs.extend(crate::props::c08::parse_reqs(plain));
                }
                pending = Some(reqs);
            }
        }
        if r.txs.is_empty() {
            continue;
        }
        let join = matches!(r.step, Step::Join(_));
        let tx = &r.txs[0];
        
        // the parameters in force are the network's, where it is followed
        let mut snap_inforce = r.snap_before;
        let mut view_note = String::new();
        if let (false, Some(n)) = (join, net_rx) {
            let s = &r.snap_before;
            if (s.rx1_dr_offset, s.rx2_data_rate, s.rx2_frequency, s.rx1_delay) != (n.off, n.dr2, n.f2, n.delay_ms) {
                view_note = format!(" [parameters in force from the acknowledged requests: RX1DROffset {} RX2 DR {:?} RX2 frequency {:?} delay {} ms; the device holds {} / {:?} / {:?} / {} ms]", n.off, n.dr2, n.f2, n.delay_ms, s.rx1_dr_offset, s.rx2_data_rate, s.rx2_frequency, s.rx1_delay);
            }
            snap_inforce.rx1_dr_offset = n.off;
            snap_inforce.rx2_data_rate = n.dr2;
            snap_inforce.rx2_frequency = n.f2;
            snap_inforce.rx1_delay = n.delay_ms;
        }
        let fail = |fp: String, d: String| Failure::new("rx-window", case(), format!("step {}.{}: {d}{view_note}\n{}", r.index, r.sub, render(&recs[..recs.iter().position(|x| std::ptr::eq(x, r)).unwrap() + 1], 4))).with_fp(fp);
        let delay = if join { 5000 } else { snap_inforce.rx1_delay };
        let tx_ms = h.board.tx_ms;
        if h.cfg.front.is_nb() {
            let rxs: Vec<&Rf> = r.trace.iter().filter_map(|e| if let Ev::RxRequest { rf } = e { Some(rf) } else { None }).collect();
            let tos: Vec<u32> = r.trace.iter().filter_map(|e| if let Ev::TimeoutReq(t) = e { Some(*t) } else { None }).collect();
            if rxs.is_empty() {
                return Err(fail("no-rx1".into(), "no receive window was opened after the uplink".into()));
            }
            // windows
            let rx2_default;
            let rx2 = if rxs.len() >= 2 { rxs[1] } else { rx2_default = None::<Rf>; let _ = &rx2_default; rxs[0] };
            // RX2 is opened after every uplink whose RX1 window ended without a frame the device acts upon (see the
            // async branch below)
            {
                let rx1_ended_it = r.deliveries.iter().any(|d| d.slot == Slot::Rx1 && !matches!(d.verdict, Verdict::Reject(_)));
                let faulted = matches!(&r.step, Step::Send { rx, .. } | Step::Join(rx) if rx.fault_at.is_some()) || !matches!(&r.outcome, Outcome::Resp(s) if s == "RxComplete" || s == "NoAck" || s == "NoJoinAccept");
                if rxs.len() < 2 && !rx1_ended_it && !faulted {
                    return Err(fail("no-rx2".into(), format!("RX1 ended without an accepted frame but no second receive window was requested (RxRequests after the uplink: {})", rxs.len())));
                }
            }
            if rxs.len() >= 2 {
                match check_windows(reg, &snap_inforce, &tx.rf, rxs[0], rx2, join, dl_known.then_some(&dl_map)) {
                    Ok(n) => nt += n as u32,
                    Err((fp, d)) => return Err(fail(fp, d)),
                }
            }
            // timing: first request = tx_done + delay + offset (signed); RX2 request = RX1 request + 1000, on the
            // board's 32-bit millisecond clock (sums are taken modulo 2^32)
            let want_t1 = (tx_ms as i64 + delay as i64 + h.board.nb_offset_ms as i64) as u32;
            if tos.first() != Some(&want_t1) {
                return Err(fail("timing/nb-rx1".into(), format!("first TimeoutRequest {:?}, expected tx_done {tx_ms} + delay {delay} + offset {} = {want_t1}", tos.first(), h.board.nb_offset_ms)));
            }
            if tos.len() >= 3 && tos[2] != want_t1.wrapping_add(1000) {
                return Err(fail("timing/nb-rx2".into(), format!("RX2 TimeoutRequest {}, expected RX1 request {want_t1} + 1000", tos[2])));
            }
        } else {
            let pos_tx = r.trace.iter().position(|e| matches!(e, Ev::Tx { .. })).unwrap();
            let after = &r.trace[pos_tx + 1..];
            if !matches!(after.first(), Some(Ev::TimerReset)) {
                return Err(fail("timing/timer-reset".into(), format!("Timer::reset() does not directly follow tx(): {:?}", after.first().map(|e| e.json()))));
            }
            let singles: Vec<(&Rf, u32)> = after.iter().filter_map(|e| if let Ev::SetupRx { rf, single_ms: Some(ms) } = e { Some((rf, *ms)) } else { None }).collect();
            let ats: Vec<u64> = after.iter().filter_map(|e| if let Ev::TimerAt(t) = e { Some(*t) } else { None }).collect();
            if singles.is_empty() {
                return Err(fail("no-rx1".into(), "no receive window was opened after the uplink".into()));
            }
            // RX2 is opened after every uplink whose RX1 window ended without a frame the device acts upon
            // (nothing heard, or a frame that is not accepted): its own receive set-up, even when its
            // parameters coincide with those of RX1. Judged when the device itself reports the end of the
            // whole receive procedure (RxComplete / NoAck / NoJoinAccept) in a fault-free transaction
            // without an oversize frame in RX1 (which may end the procedure early).
            let rx1_ended_it = r.deliveries.iter().any(|d| d.slot == Slot::Rx1 && !matches!(d.verdict, Verdict::Reject(_)));
            let faulted = matches!(&r.step, Step::Send { rx, .. } | Step::Join(rx) if rx.fault_at.is_some()) || !matches!(&r.outcome, Outcome::Resp(s) if s == "RxComplete" || s == "NoAck" || s == "NoJoinAccept");
            if singles.len() < 2 && !rx1_ended_it && !faulted {
                return Err(fail("no-rx2".into(), format!("RX1 ended without an accepted frame but no second receive window was set up (single-shot receive set-ups after the uplink: {})", singles.len())));
            }
            if singles.len() >= 2 {
                match check_windows(reg, &snap_inforce, &tx.rf, singles[0].0, singles[1].0, join, dl_known.then_some(&dl_map)) {
                    Ok(n) => nt += n as u32,
                    Err((fp, d)) => return Err(fail(fp, d)),
                }
            }
            for (_, ms) in &singles {
                if *ms != h.board.buffer_ms {
                    return Err(fail("timing/buffer".into(), format!("RxMode::Single margin {ms} ms, board's get_rx_window_buffer() = {}", h.board.buffer_ms)));
                }
            }
            let want1 = (delay + tx_ms - h.board.lead_ms) as u64;
            if ats.first() != Some(&want1) {
                return Err(fail("timing/async-rx1".into(), format!("Timer::at({:?}) before RX1, expected delay {delay} + {tx_ms} - lead {} = {want1}", ats.first(), h.board.lead_ms)));
            }
            if singles.len() >= 2 && ats.get(1) != Some(&(want1 + 1000)) {
                return Err(fail("timing/async-rx2".into(), format!("Timer::at({:?}) before RX2, expected {}", ats.get(1), want1 + 1000)));
            }
            // Class C listening between the windows uses the RX2 parameters: when the device starts to listen
            // between its transmission and RX1, or between the windows, the radio's last configuration must be
            // a continuous receive set-up (the transmission / the single-shot window came after any earlier one)
            if after.iter().any(|e| matches!(e, Ev::ListenUnarmed)) {
                return Err(fail("classc-listen-without-setup".into(), "Class C listening inside the transaction started without a continuous receive set-up since the radio was last reconfigured (transmission, single-shot window or low power): the RX2 parameters are not what the radio listens with".into()));
            }
            // Class C: continuous reception uses the RX2 parameters (in force before or after this transaction)
            for e in after {
                if let Ev::SetupRx { rf, single_ms: None } = e {
                    let mut ok = false;
                    for s in [&r.snap_before, &r.snap_after] {
                        let f = s.rx2_frequency.unwrap_or(reg.rx2_default().0);
                        let d = s.rx2_data_rate.unwrap_or(reg.rx2_default().1);
                        if rf.freq == f && reg.dr(d) == Some((rf.sf, rf.bw_hz)) {
                            ok = true;
                        }
                    }
                    if !ok {
                        return Err(fail("classc-rx2-params".into(), format!("Class C continuous reception on {} Hz SF{}/{} does not use the RX2 parameters", rf.freq, rf.sf, rf.bw_hz)));
                    }
                }
            }
        }
    }
    Ok(nt)
}

/// All channel-selector outcomes of the current state through the hook.
fn enumerate_hook(w: &World, reg: Reg, join: bool, h: &History, st: &mut Stats) -> Result<(), Failure> {
    let _watch = w.watch();
    let snap = w.front.snapshot();
    for first in 0..72u32 {
        let mut rng = DryRng::new(vec![first, first.wrapping_mul(2654435761), first ^ 0x55], 99 + first as u64);
        let front = &w.front;
        let out = catch(|| front.tx_outcome(&mut rng, join));
        let Ok(o) = out else { continue };
        st.eval();
        st.class("hook-outcome");
        let tx = Rf::from_parts(o.frequency, &o.bb, 0);
        let rx1 = Rf::from_parts(o.rx1.frequency, &o.rx1.bb, o.rx1.max_payload_len);
        let rx2 = Rf::from_parts(o.rx2.frequency, &o.rx2.bb, o.rx2.max_payload_len);
        match check_windows(reg, &snap, &tx, &rx1, &rx2, join, None) {
            Ok(n) => {
                if n {
                    st.nt_hash(fnv64(format!("{:?}{:?}{:?}{:?}{}", tx, rx1, rx2, h.cfg.region, join).as_bytes()));
                }
            }
            Err((fp, d)) => return Err(Failure::new("rx-window", h.json(), format!("channel-selector outcome for first draw {first} (join={join}): {d}")).with_fp(fp)),
        }
    }
    Ok(())
}

pub fn replay(case: &Value, _kf: &KnownFindings) -> Result<(), Failure> {
    let h = super::cross::case_history(case);
    let (w, recs) = run_history(&h).map_err(|e| Failure::new("harness", h.json(), e))?;
    judge(&h, &recs)?;
    let reg = Reg::from_name(h.cfg.region.name()).unwrap();
    let mut st = Stats::new();
    if !w.dead {
        enumerate_hook(&w, reg, false, &h, &mut st)?;
        enumerate_hook(&w, reg, true, &h, &mut st)?;
    }
    Ok(())
}

fn run_one(h: &History, st: &mut Stats, class: &str, hook: bool) -> Result<(), Failure> {
    st.eval();
    st.class(class);
    let (w, recs) = run_history(h).map_err(|e| Failure::new("harness", h.json(), e))?;
    let nt = judge(h, &recs)?;
    if nt > 0 {
        st.nt_hash(hash_value(&h.json()));
        if st.want_sample() && st.evaluations % 1009 == 1 {
            st.sample(h.json());
        }
    }
    if hook && !w.dead {
        let reg = Reg::from_name(h.cfg.region.name()).unwrap();
        enumerate_hook(&w, reg, false, h, st)?;
        enumerate_hook(&w, reg, true, h, st)?;
    }
    Ok(())
}

pub fn run(ctx: &mut Ctx) {
    let thorough = ctx.tier == Tier::Thorough;
    ctx.rule = "table part (exhaustive): 9 regions x every uplink data rate x every RX1 offset 0..7 (negotiated by JoinAccept DLSettings on OTAA and by RXParamSetupReq on ABP; offsets above the regional maximum are rejected and then irrelevant) x RX2 data-rate/frequency overrides x RxDelay 0..15 x board timings {0,10,50,200 ms} and nb receive-window durations {100..300, 999, 1000, 1001, 1500, 2500 ms} x nb/async/async+ClassC, each followed by uplinks whose windows are judged; in every reached state the hook enumerates the channel selector for all first-draw values 0..71 (join and data frames), so all 72 fixed-plan channels and every dynamic channel incl. DlChannelReq mappings are covered; plus proptest random histories. Oracle: refregion RX1 table / RX2 defaults / downlink frequency pairing, timing arithmetic; a transaction that the device itself reports as run to the end of RX2 (RxComplete / NoAck / NoJoinAccept, no fault, no oversize frame in RX1) must have set up a second receive window of its own, also when its parameters coincide with those of RX1 (`no-rx2`). Non-trivial: offset != 0 or non-default RX2/delay/DL mapping or fixed-plan join on a 500 kHz channel".into();
    ctx.exhaustive = true;
    ctx.assumptions = vec![
        "parameters in force = the network's view: RX1 offset, RX2 overrides and RX1 delay start from the device snapshot at the first data uplink after activation/join (C11 judges the join) and from then on change only through RXParamSetupReq/RXTimingSetupReq that the device acknowledged completely (tracked from its answers with the reference codec); downlink-frequency pairings likewise from acknowledged DlChannelReq/NewChannelReq; after a radio fault, a frame whose size verdict is undefined, or MAC commands accepted outside RX1/RX2 the view is re-read from the device snapshot (or no longer followed)".into(),
        "nb window offset is a signed value added to the window start; window closing times are not judged; board lead time <= 200 ms".into(),
        "RX1 cells that differ between RP002 revisions (AS923/IN865 offsets 6,7 above DR5) are set-valued".into(),
    ];
    let seed = ctx.seed;
    let mut jobs = vec![];
    for region in REGIONS {
        for front in [FrontKind::Async, FrontKind::Nb, FrontKind::AsyncClassC] {
            for otaa in [false, true] {
                jobs.push((region, front, otaa));
            }
        }
    }
    ctx.parallel(|ti, n, st| {
        let mut rng = SplitMix::new(seed ^ 0xC10 ^ ti as u64);
        for (ji, (region, front, otaa)) in jobs.iter().enumerate() {
            if ji % n != ti {
                continue;
            }
            let reg = Reg::from_name(region.name()).unwrap();
            let fs = gen::freq_set(reg);
            let drs: Vec<u8> = (0..16u8).filter(|d| reg.is_uplink_dr(*d)).collect();
            for off in 0..8u8 {
                for (di, dr2) in [15u8, 0, 2, 3, 5, 8, 10, 13].iter().enumerate() {
                    for delay in 0..16u8 {
                        if !thorough && (off as usize + di + delay as usize) % 3 != 0 {
                            continue;
                        }
                        let dl = (off << 4) | dr2;
                        let f2 = [0u32, fs[4], reg.rx2_default().0, fs[2]][(off as usize + delay as usize) % 4];
                        let timing = [0u32, 10, 50, 200][(delay as usize + di) % 4];
                        let mut steps = vec![];
                        if *otaa {
                            steps.push(Step::Join(RxPlan::rx1(Recipe::JoinAccept { dl_settings: dl, rx_delay: delay, cflist: None, wrong_key: false, stale_nonce: false, flip_bit: None, dev_addr: 0x01020304, net_id: 1, join_nonce: 2 })));
                        } else {
                            let mut cmds = vec![Cmd::RxTimingSetupReq(delay)];
                            if f2 != 0 {
                                cmds.push(Cmd::RxParamSetupReq { dl_settings: dl, freq: f2 });
                            }
                            if !reg.fixed() {
                                cmds.push(Cmd::NewChannelReq { idx: 3, freq: fs[4], dr_range: 0x50 });
                                cmds.push(Cmd::DlChannelReq { idx: 3, freq: fs[5] });
                                cmds.push(Cmd::DlChannelReq { idx: 0, freq: fs[3] });
                            }
                            steps.push(Step::Send { port: 1, len: 1, confirmed: false, rx: RxPlan::rx1(Recipe::auth_cmds(1, cmds)) });
                        }
                        if !*otaa && !reg.fixed() && (off + delay) % 2 == 0 {
                            // second downlink: move one mapping again and reset the other to the uplink frequency
                            let d0 = reg.default_channels()[0];
                            steps.push(Step::Send { port: 2, len: 1, confirmed: false, rx: RxPlan::default() });
                            steps.push(Step::Send { port: 1, len: 1, confirmed: false, rx: RxPlan::rx1(Recipe::auth_cmds(1, vec![Cmd::DlChannelReq { idx: 0, freq: d0 }, Cmd::DlChannelReq { idx: 3, freq: if delay % 4 == 0 { fs[4] } else { fs[2] } }])) });
                        }
                        for d in &drs {
                            steps.push(Step::SetDr(*d));
                            steps.push(Step::Send { port: 2, len: 3, confirmed: rng.bool(), rx: RxPlan::default() });
                        }
                        steps.push(Step::Join(RxPlan::default()));
                        let h = History { cfg: DevCfg { region: *region, join_bias: if reg.fixed() && rng.bool() { Some((1 + rng.below(8) as u8, 1 + rng.below(3) as usize)) } else { None }, front: *front, board: (14, 0) },
                            activation: if *otaa { Activation::Otaa } else { Activation::Abp { fcnt_up: 0, fcnt_down: None } },
                            board: Board { tx_ms: if front.is_nb() { [0u32, 3, 1500, 0x7FFF_FE00, 0xFFFF_FC18, 0xFFFF_FFFF][(off as usize + delay as usize) % 6] } else { [0, 3, 1500][(off as usize) % 3] }, lead_ms: timing, buffer_ms: timing / 2, nb_offset_ms: [0i32, -10, 25, -200][(delay as usize) % 4], nb_duration_ms: [100 + timing, 100 + timing, 999, 1000, 1001, 1500, 2500][(off as usize * 16 + delay as usize) % 7], nb_async_tx: rng.bool(), snr: 0, nb_meddle: if (off + delay) % 3 == 0 { 0x5A5A_A5A5u32.rotate_left(off as u32 + delay as u32) } else { 0 } },
                            rng_script: vec![rng.next_u32(), rng.next_u32()], rng_seed: rng.next_u64(), steps };
                        // the hook enumeration on the state before the final re-join: run on a prefix
                        let mut hp = h.clone();
                        hp.steps.pop();
                        if let Err(f) = run_one(&hp, st, "table", (off as usize + delay as usize) % 5 == 0) {
                            st.fail(f);
                        }
                        if (off + delay) % 4 == 0 {
                            if let Err(f) = run_one(&h, st, "table+rejoin", false) {
                                st.fail(f);
                            }
                        }
                    }
                }
            }
        }
    });
    let cases = ctx.tier.pick(30_000u32, 400_000);
    let nthreads = ctx.threads as u32;
    ctx.parallel(|ti, _n, st| {
        let strat = (gen::history_strategy(10), 0u32..4, -1i32..3).prop_map(|(mut h, t, o)| {
            h.board.lead_ms = [0, 10, 50, 200][t as usize];
            h.board.buffer_ms = h.board.lead_ms / 2;
            h.board.nb_offset_ms = o * 15;
            h.board.tx_ms = t * 7;
            h.board.nb_duration_ms = [100, 150, 999, 1000, 1001, 3000][(h.rng_seed % 6) as usize];
            if h.cfg.front.is_nb() {
                // on the nb front-end the radio reports a timestamp: a clock that is about to wrap
                h.board.tx_ms = [t * 7, t * 7, 0x7FFF_FB00 + t * 300, 0xFFFF_F800 + t * 400, 0xFFFF_FFFF][((h.rng_seed >> 8) % 5) as usize];
            }
            h
        });
        let f = run_proptest(strat, cases / nthreads + 1, seed ^ 0xC10B ^ ((ti as u64) << 36), st, |h, st| run_one(h, st, "random-history", st.evaluations % 7 == 0));
        if let Some(f) = f {
            st.fail(f);
        }
    });
    // ---- cross-generator stage (see props/cross.rs)
    ctx.rule.push_str(super::cross::CROSS_RULE);
    let cross_cases = ctx.tier.pick(super::cross::QUICK_PER_GEN, super::cross::THOROUGH_PER_GEN);
    super::cross::stage(ctx, "C10", cross_cases);
}
