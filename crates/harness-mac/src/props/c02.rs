//! C02 — received frames are authenticated and decoded exactly per spec, else untouched.

use crate::enc::*;
use lorawan::default_crypto::DefaultCrypto;
use lorawan::keys::AES128;
use lorawan::parser::{
    self, DecryptedDataPayload, DecryptedJoinAcceptPayload, DevNonce, EncryptedDataPayload, EncryptedJoinAcceptPayload, FrmPayload, JoinRequestPayload, PhyPayload,
};
use serde_json::{json, Value};
use verif_core::oracle::refcodec::*;
use verif_core::proptest::prelude::*;
use verif_core::*;

#[derive(Debug, Clone)]
pub enum Mutation {
    FlipBit(u16),
    FlipMicBit(u8),
    SetMhdr(u8),
    SetFoptsLen(u8),
    SetFctrl(u8),
    Truncate(u8),
    Append(Vec<u8>),
    /// recompute the MIC over the (mutated) frame for counter = built counter + delta epochs
    ReMic(i8),
}

fn mutate(frame: &mut Vec<u8>, m: &Mutation, nwk: &[u8; 16], built_fcnt: u32) {
    match m {
        Mutation::FlipBit(p) => {
            if !frame.is_empty() {
                let bit = (*p as usize * (frame.len() * 8)) >> 16;
                frame[bit / 8] ^= 1 << (bit % 8);
            }
        }
        Mutation::FlipMicBit(b) => {
            if frame.len() >= 4 {
                let n = frame.len();
                let bit = (*b % 32) as usize;
                frame[n - 4 + bit / 8] ^= 1 << (bit % 8);
            }
        }
        Mutation::SetMhdr(v) => {
            if !frame.is_empty() {
                frame[0] = *v;
            }
        }
        Mutation::SetFoptsLen(v) => {
            if frame.len() > 5 {
                frame[5] = (frame[5] & 0xf0) | (v & 0x0f);
            }
        }
        Mutation::SetFctrl(v) => {
            if frame.len() > 5 {
                frame[5] = *v;
            }
        }
        Mutation::Truncate(k) => {
            let k = (*k as usize).min(frame.len());
            frame.truncate(frame.len() - k);
        }
        Mutation::Append(b) => {
            frame.extend_from_slice(b);
            frame.truncate(255);
        }
        Mutation::ReMic(de) => {
            if frame.len() >= 12 {
                let n = frame.len();
                let c = built_fcnt.wrapping_add((*de as i32 as u32).wrapping_mul(0x10000));
                let mic = data_mic(nwk, &frame[..n - 4], c);
                frame[n - 4..].copy_from_slice(&mic);
            }
        }
    }
}

fn mutation_strategy() -> impl Strategy<Value = Mutation> {
    prop_oneof![
        3 => any::<u16>().prop_map(Mutation::FlipBit),
        3 => any::<u8>().prop_map(Mutation::FlipMicBit),
        2 => any::<u8>().prop_map(Mutation::SetMhdr),
        2 => any::<u8>().prop_map(Mutation::SetFoptsLen),
        1 => any::<u8>().prop_map(Mutation::SetFctrl),
        2 => (0u8..24).prop_map(Mutation::Truncate),
        1 => proptest::collection::vec(any::<u8>(), 1..8).prop_map(Mutation::Append),
        3 => (-1i8..=1).prop_map(Mutation::ReMic),
    ]
}

/// Full oracle for one byte string taken as a data frame.
/// `fcnt_arg`: the 32-bit counter the caller supplies; `app`: None models a caller without AppSKey.
pub fn check_bytes(bytes: &[u8], nwk: &[u8; 16], app: Option<&[u8; 16]>, fcnt_arg: u32) -> Result<(bool, bool, bool), Failure> {
    let case = || json!({"kind":"bytes","frame":hex(bytes),"nwk":hex(nwk),"app":app.map(|k| hex(k)),"fcnt_arg":fcnt_arg});
    let nc = DefaultCrypto::new(&AES128(*nwk));
    let ac = app.map(|k| DefaultCrypto::new(&AES128(*k)));
    let want = decode_data(bytes);
    // --- structural parse
    let got = match catch(|| EncryptedDataPayload::parse(bytes).map(|p| (ftype_from_repo(p.frame_type()), p.is_uplink(), p.is_confirmed(), p.fhdr().dev_addr().value(), p.fhdr().fctrl().raw_value(),
        [p.fhdr().fctrl().adr(), p.fhdr().fctrl().adr_ack_req(), p.fhdr().fctrl().ack(), p.fhdr().fctrl().f_pending()], p.fhdr().fctrl().f_opts_len(), p.fhdr().fcnt(), p.fhdr().f_opts().to_vec(), p.f_port(), p.mic().0, p.as_bytes().to_vec(), p.validate_mic(&nc, fcnt_arg)))) {
        Ok(g) => g,
        Err(pm) => return Err(Failure::panic(case(), &pm)),
    };
    let (structural, mic_ok) = match (&want, &got) {
        (Err(_), Err(_)) => (false, false),
        (Ok(w), Err(e)) => return Err(Failure::new("structure-accept", case(), format!("reference decodes {w:?} but parser refuses with {e:?}"))),
        (Err(e), Ok(_)) => return Err(Failure::new("structure-reject", case(), format!("parser accepts a frame the reference refuses ({e:?})"))),
        (Ok(w), Ok(g)) => {
            let want_t = (w.ftype, w.ftype.uplink(), w.ftype.confirmed(), w.dev_addr, w.fctrl, [w.adr(), w.adr_ack_req(), w.ack(), w.f_pending()], w.fopts.len(), w.fcnt16, w.fopts.clone(), w.fport, w.mic, bytes.to_vec());
            let got_t = (g.0, g.1, g.2, g.3, g.4, g.5, g.6, g.7, g.8.clone(), g.9, g.10, g.11.clone());
            if want_t != got_t {
                return Err(Failure::new("header-fields", case(), format!("encrypted view: want {want_t:?}, got {got_t:?}")));
            }
            let ref_mic_ok = data_mic_ok(bytes, nwk, fcnt_arg);
            if g.12 != ref_mic_ok {
                let fp = if ref_mic_ok { "mic-authentic-rejected" } else { "mic-forged-accepted" };
                return Err(Failure::new("validate-mic", case(), format!("validate_mic = {}, reference MIC check = {ref_mic_ok}", g.12)).with_fp(fp));
            }
            (true, ref_mic_ok)
        }
    };
    // --- checked decode
    let mut buf = bytes.to_vec();
    let r = match catch(|| {
        DecryptedDataPayload::check_mic_and_decrypt_in_place(&mut buf, &nc, ac.as_ref(), fcnt_arg).map(|d| {
            let frm = match d.frm_payload() {
                FrmPayload::Data(x) => (1u8, x.to_vec()),
                FrmPayload::MacCommands(x) => (2u8, x.to_vec()),
                FrmPayload::None => (0u8, vec![]),
            };
            (ftype_from_repo(d.frame_type()), d.fhdr().dev_addr().value(), d.fhdr().fctrl().raw_value(), d.fhdr().fcnt(), d.fhdr().f_opts().to_vec(), d.f_port(), frm, d.mic().0)
        })
    }) {
        Ok(r) => r,
        Err(pm) => return Err(Failure::panic(case(), &pm)),
    };
    let needs_app = structural && matches!(&want, Ok(w) if !w.frm.is_empty() && w.fport.map(|p| p != 0).unwrap_or(false));
    let should_ok = structural && mic_ok && (!needs_app || app.is_some());
    match r {
        Err(e) => {
            if should_ok {
                return Err(Failure::new("checked-decode-refused", case(), format!("authentic frame refused: {e:?}")));
            }
            if buf != bytes {
                return Err(Failure::new("buffer-untouched", case(), format!("check_mic_and_decrypt_in_place returned {e:?} but changed the buffer: {} -> {}", hex(bytes), hex(&buf))));
            }
        }
        Ok(g) => {
            if !should_ok {
                return Err(Failure::new("checked-decode-accepted", case(), format!("frame accepted although structural={structural} mic_ok={mic_ok} key_available={}", !needs_app || app.is_some())).with_fp("mic-forged-accepted"));
            }
            let w = want.as_ref().unwrap();
            let full = (fcnt_arg & 0xFFFF_0000) | w.fcnt16 as u32;
            let plain = w.plaintext(Some(nwk), app, full).unwrap();
            let kind = match w.fport {
                None => 0u8,
                Some(0) => 2,
                Some(_) => 1,
            };
            let want_t = (w.ftype, w.dev_addr, w.fctrl, w.fcnt16, w.fopts.clone(), w.fport, (kind, plain), w.mic);
            if want_t != g {
                return Err(Failure::new("decoded-fields", case(), format!("decrypted view: want {want_t:?}, got {g:?}")));
            }
        }
    }
    // --- decrypt twice restores the ciphertext (unchecked decrypt entry point)
    if structural {
        let mut b2 = bytes.to_vec();
        let r = catch(|| {
            let ok1 = DecryptedDataPayload::decrypt_in_place(&mut b2, Some(&nc), ac.as_ref(), fcnt_arg).is_ok();
            let mid = b2.clone();
            let ok2 = DecryptedDataPayload::decrypt_in_place(&mut b2, Some(&nc), ac.as_ref(), fcnt_arg).is_ok();
            (ok1, ok2, mid)
        });
        match r {
            Err(pm) => return Err(Failure::panic(case(), &pm)),
            Ok((ok1, ok2, mid)) => {
                if b2 != bytes {
                    return Err(Failure::new("decrypt-involution", case(), format!("decrypting twice gives {} instead of the received bytes", hex(&b2))));
                }
                if ok1 != ok2 {
                    return Err(Failure::new("decrypt-involution", case(), "first and second decrypt disagree on Ok/Err"));
                }
                if !ok1 && mid != bytes {
                    return Err(Failure::new("buffer-untouched", case(), "decrypt_in_place failed but changed the buffer"));
                }
            }
        }
    }
    // --- top-level classification
    match catch(|| parser::parse(bytes).map(|p| match p {
        PhyPayload::JoinRequest(_) => 0u8,
        PhyPayload::JoinAccept(_) => 1,
        PhyPayload::Data(_) => 2,
    })) {
        Err(pm) => return Err(Failure::panic(case(), &pm)),
        Ok(cls) => {
            let mt = bytes.first().map(|b| b >> 5);
            let want_cls = match mt {
                Some(2..=5) if structural => Some(2u8),
                Some(0) if decode_join_request(bytes).is_ok() => Some(0),
                Some(1) if bytes[0] & 3 == 0 && (bytes.len() == 17 || bytes.len() == 33) => Some(1),
                _ => None,
            };
            if cls.ok() != want_cls {
                return Err(Failure::new("classification", case(), format!("parse() class {:?}, reference {:?}", cls.ok(), want_cls)));
            }
        }
    }
    Ok((structural, mic_ok, should_ok))
}

pub fn check_join_accept_bytes(bytes: &[u8], key: &[u8; 16], dev_nonce: u16) -> Result<(bool, bool), Failure> {
    let case = || json!({"kind":"join_accept_bytes","frame":hex(bytes),"key":hex(key),"dev_nonce":dev_nonce});
    let c = DefaultCrypto::new(&AES128(*key));
    let clear = join_accept_clear(bytes, key);
    let enc_ok = match catch(|| EncryptedJoinAcceptPayload::parse(bytes).map(|p| p.as_bytes().to_vec())) {
        Ok(r) => r.is_ok(),
        Err(pm) => return Err(Failure::panic(case(), &pm)),
    };
    if enc_ok != clear.is_ok() {
        return Err(Failure::new("structure-accept", case(), format!("EncryptedJoinAcceptPayload::parse ok={enc_ok}, reference ok={}", clear.is_ok())));
    }
    let mut buf = bytes.to_vec();
    let r = match catch(|| {
        DecryptedJoinAcceptPayload::check_mic_and_decrypt_in_place(&mut buf, &c).map(|d| {
            (d.join_nonce().value(), d.net_id().value(), d.dev_addr().value(), d.dl_settings().raw_value(), d.rx_delay(), d.c_f_list(), d.mic().0, d.as_bytes().to_vec(),
             d.derive_nwkskey(DevNonce::from_value(dev_nonce), &c).inner().0, d.derive_appskey(DevNonce::from_value(dev_nonce), &c).inner().0)
        })
    }) {
        Ok(r) => r,
        Err(pm) => return Err(Failure::panic(case(), &pm)),
    };
    let mic_ok = clear.as_ref().map(|cl| join_accept_clear_mic_ok(cl, key)).unwrap_or(false);
    match r {
        Err(e) => {
            if mic_ok {
                return Err(Failure::new("checked-decode-refused", case(), format!("authentic JoinAccept refused: {e:?}")).with_fp("join-accept-authentic-rejected"));
            }
        }
        Ok(g) => {
            if !mic_ok {
                return Err(Failure::new("checked-decode-accepted", case(), "JoinAccept with wrong MIC accepted").with_fp("join-accept-forged-accepted"));
            }
            let cl = clear.as_ref().unwrap();
            let w = decode_join_accept_clear(cl);
            let want_cf = match &w.cflist {
                Some(RefCfList::Raw(_)) | None => None,
                other => repo_cflist(other).unwrap(),
            };
            let wn = derive_skey(key, 1, w.join_nonce, w.net_id, dev_nonce);
            let wa = derive_skey(key, 2, w.join_nonce, w.net_id, dev_nonce);
            let want_t = (w.join_nonce, w.net_id, w.dev_addr, w.dl_settings, w.rx_delay & 0x0f, want_cf, [cl[cl.len() - 4], cl[cl.len() - 3], cl[cl.len() - 2], cl[cl.len() - 1]], cl.clone(), wn, wa);
            if want_t != g {
                return Err(Failure::new("decoded-fields", case(), format!("JoinAccept: want {want_t:?}, got {g:?}")).with_fp("join-accept-fields"));
            }
        }
    }
    Ok((clear.is_ok(), mic_ok))
}

pub fn check_join_request_bytes(bytes: &[u8], key: &[u8; 16]) -> Result<(bool, bool), Failure> {
    let case = || json!({"kind":"join_request_bytes","frame":hex(bytes),"key":hex(key)});
    let c = DefaultCrypto::new(&AES128(*key));
    let want = decode_join_request(bytes);
    let got = match catch(|| JoinRequestPayload::parse(bytes).map(|p| (p.join_eui().value(), p.dev_eui().value(), p.dev_nonce().value(), p.mic().0, p.validate_mic(&c), p.as_bytes().to_vec()))) {
        Ok(g) => g,
        Err(pm) => return Err(Failure::panic(case(), &pm)),
    };
    match (want, got) {
        (Err(_), Err(_)) => Ok((false, false)),
        (Ok((w, mic)), Ok(g)) => {
            let ok = join_request_mic_ok(bytes, key);
            let want_t = (w.join_eui, w.dev_eui, w.dev_nonce, mic, ok, bytes.to_vec());
            if want_t != g {
                return Err(Failure::new("decoded-fields", case(), format!("JoinRequest: want {want_t:?}, got {g:?}")).with_fp("join-request-fields"));
            }
            Ok((true, ok))
        }
        (w, g) => Err(Failure::new("structure-accept", case(), format!("JoinRequest: reference {:?}, parser ok={}", w.map(|x| x.0), g.is_ok()))),
    }
}

/// Decoding used by the libFuzzer target: a mode byte, a counter, then either raw frame bytes or a
/// seed from which a valid frame is built and then overwritten by the remaining bytes' mutations.
pub fn fuzz_decode(data: &[u8]) -> (Vec<u8>, [u8; 16], Option<[u8; 16]>, u32) {
    let mode = data.first().copied().unwrap_or(0);
    let mut fcnt = [0u8; 4];
    for (i, b) in data.iter().skip(1).take(4).enumerate() {
        fcnt[i] = *b;
    }
    let fcnt = u32::from_le_bytes(fcnt);
    let rest = if data.len() > 5 { &data[5..] } else { &[][..] };
    let nwk = [0x2b, 0x7e, 0x15, 0x16, 0x28, 0xae, 0xd2, 0xa6, 0xab, 0xf7, 0x15, 0x88, 0x09, 0xcf, 0x4f, 0x3c];
    let app = [0x60u8; 16];
    let mut frame = rest[..rest.len().min(255)].to_vec();
    if mode & 1 == 1 && frame.len() >= 12 {
        // give the frame a valid MIC for the chosen counter so that the accepting paths are reachable
        let n = frame.len();
        let mic = data_mic(&nwk, &frame[..n - 4], fcnt);
        frame[n - 4..].copy_from_slice(&mic);
        if mode & 2 == 2 {
            frame[n - 1] ^= 1 << ((mode >> 4) & 7);
        }
    }
    (frame, nwk, if mode & 4 == 4 { None } else { Some(app) }, fcnt)
}

/// The round-trip clause through the library's own JoinAccept builder: built into a used buffer of
/// `33|17 + extra` bytes, the parser is judged against the reference on the built bytes, and the reference
/// decode of those bytes against the description. Ok(false): the builder refused.
pub fn check_library_built_join_accept(d: &JoinAcceptDesc, key: &[u8; 16], nonce: u16, extra: usize) -> Result<bool, Failure> {
    let case = || json!({"kind":"join_accept_desc","desc":ja_json(d),"key":hex(key),"dev_nonce":nonce,"buffer_extra":extra});
    let need = if d.cflist.is_some() { 33 } else { 17 };
    match catch(|| repo_build_join_accept(d, key, need + extra)) {
        Err(pm) => Err(Failure::panic(case(), &pm)),
        Ok(Err(_)) => Ok(false),
        Ok(Ok(built)) => {
            let (_, m) = check_join_accept_bytes(&built, key, nonce)?;
            let back = join_accept_clear(&built, key).ok().map(|c| decode_join_accept_clear(&c));
            let mut want = d.clone();
            want.rx_delay &= 0x0f;
            if !m || back.as_ref() != Some(&want) {
                return Err(Failure::new("round-trip", case(), format!("a JoinAccept built by the library into a used buffer parses back as {back:?} (authentic: {m}), built from {want:?}")).with_fp("round-trip/library-built-join-accept"));
            }
            Ok(true)
        }
    }
}

/// The same for data frames (`buflen` = size of the used caller buffer).
pub fn check_library_built_data(d: &DataDesc, nwk: &[u8; 16], app: &[u8; 16], buflen: usize, network_crypto: bool) -> Result<bool, Failure> {
    let case = || json!({"kind":"data_desc","desc":desc_json(d),"nwk":hex(nwk),"app":hex(app),"buflen":buflen,"network_crypto":network_crypto});
    match catch(|| repo_build_data(d, nwk, Some(app), buflen, network_crypto)) {
        Err(pm) => Err(Failure::panic(case(), &pm)),
        Ok(Err(_)) => Ok(false),
        Ok(Ok((lib, _front))) => {
            let (_, _, acc) = check_bytes(&lib, nwk, Some(app), d.fcnt)?;
            let back = decode_data(&lib).ok().map(|v| {
                let plain = v.plaintext(Some(nwk), Some(app), d.fcnt).filter(|_| v.fport.is_some());
                (v.ftype, v.dev_addr, v.adr(), v.adr_ack_req(), v.ack(), v.f_pending(), v.fcnt16, v.fopts.clone(), v.fport, plain)
            });
            let (wport, wplain) = match &d.payload {
                RefPayload::None => (None, None),
                RefPayload::Data { port, data } => (Some(*port), Some(data.clone())),
                RefPayload::Mac(c) => (Some(0u8), Some(c.clone())),
            };
            let up = d.ftype.uplink();
            let want = (d.ftype, d.dev_addr, d.adr, d.adr_ack_req && up, d.ack, d.f_pending && !up, d.fcnt as u16, d.fopts.clone(), wport, wplain);
            if !acc || back.as_ref() != Some(&want) {
                return Err(Failure::new("round-trip", case(), format!("a data frame built by the library parses back as {back:?} (accepted: {acc}), built from {want:?}")).with_fp("round-trip/library-built-data-frame"));
            }
            Ok(true)
        }
    }
}

pub fn replay(case: &Value, _kf: &KnownFindings) -> Result<(), Failure> {
    if case["kind"] == "fuzz_raw" {
        let (frame, nwk, app, fcnt) = fuzz_decode(&unhex(case["data"].as_str().unwrap_or("")));
        return check_bytes(&frame, &nwk, app.as_ref(), fcnt).map(|_| ());
    }
    let frame = unhex(case["frame"].as_str().unwrap_or(""));
    match case["kind"].as_str() {
        Some("bytes") => check_bytes(&frame, &key_from_json(&case["nwk"]).unwrap_or([0; 16]), key_from_json(&case["app"]).as_ref(), case["fcnt_arg"].as_u64().unwrap_or(0) as u32).map(|_| ()),
        Some("join_accept_bytes") => check_join_accept_bytes(&frame, &key_from_json(&case["key"]).unwrap_or([0; 16]), case["dev_nonce"].as_u64().unwrap_or(0) as u16).map(|_| ()),
        Some("join_request_bytes") => check_join_request_bytes(&frame, &key_from_json(&case["key"]).unwrap_or([0; 16])).map(|_| ()),
        Some("join_accept_desc") => check_library_built_join_accept(&ja_from_json(&case["desc"]), &key_from_json(&case["key"]).unwrap_or([0; 16]), case["dev_nonce"].as_u64().unwrap_or(0) as u16, case["buffer_extra"].as_u64().unwrap_or(0) as usize).map(|_| ()),
        Some("data_desc") => check_library_built_data(&desc_from_json(&case["desc"]), &key_from_json(&case["nwk"]).unwrap_or([0; 16]), &key_from_json(&case["app"]).unwrap_or([0; 16]), case["buflen"].as_u64().unwrap_or(255) as usize, case["network_crypto"].as_bool().unwrap_or(false)).map(|_| ()),
        _ => Err(Failure::new("bad-replay", case.clone(), "unknown case kind")),
    }
}

pub fn run(ctx: &mut Ctx) {
    ctx.rule = "proptest: a frame built by the reference codec from a random description (C01's space) with 0..3 mutations {flip any bit, flip a MIC bit, replace MHDR, change FOptsLen nibble/FCtrl, truncate, append, re-MIC for a neighbouring 16-bit epoch}, right or independent keys, AppSKey present/absent, counter argument {built, same low half other high half, other low half, boundaries}; pure random strings; JoinAccept/JoinRequest frames likewise; reference-built data frames and JoinAccepts decoded with a user-supplied Crypto implementation that honours exactly the documented one-block-per-call contract. Oracle: reference decoder + reference MIC, both directions (accept and reject), buffer identity on failure, double decrypt. Non-trivial: structurally valid data frame whose MIC is correct or differs from correct in <= 8 bits, or a mutation that changed the structure class; distinct by hash of (frame, keys, counter)".into();
    ctx.assumptions = vec![
        "reference codec as in C01; structural validity = LoRaWAN 1.0.x section 4 (min 12 bytes, major 0, MType 2..5, FOptsLen fits before the MIC)".into(),
        "decryption counter of the crate = high 16 bits of the argument | wire counter, as its documentation states".into(),
        "JoinAccept: no untouched-buffer claim on InvalidMic (the API documents the transformation)".into(),
    ];
    let seed = ctx.seed;
    // ---- reference-built frames decoded with a user-supplied Crypto implementation that honours exactly
    // the documented one-block-per-call contract (enc::StrictCrypto)
    {
        let mut rng = SplitMix::new(seed ^ 0xC02_5);
        let mut st = Stats::new();
        for i in 0..6000u32 {
            st.eval();
            st.class("user-supplied-crypto");
            let key = rng.key();
            let c = StrictCrypto::new(&key);
            if i % 2 == 0 {
                let ja = JoinAcceptDesc { join_nonce: rng.next_u32() & 0xFFFFFF, net_id: rng.next_u32() & 0xFFFFFF, dev_addr: rng.next_u32(), dl_settings: rng.next_u32() as u8, rx_delay: (i % 16) as u8,
                    cflist: match i % 6 { 0 => None, 2 => Some(RefCfList::Type0([8671000, 8673000, 0, 8677000, 8679000])), _ => Some(RefCfList::Type1(rng.bytes(9).try_into().unwrap())) } };
                let wire = encode_join_accept(&ja, &key);
                let case = json!({"kind":"join_accept_user_crypto","frame":hex(&wire),"key":hex(&key)});
                let mut buf = wire.clone();
                let r = catch(|| DecryptedJoinAcceptPayload::check_mic_and_decrypt_in_place(&mut buf, &c).map(|d| (d.join_nonce().value(), d.net_id().value(), d.dev_addr().value(), d.dl_settings().raw_value(), d.rx_delay(), d.c_f_list().is_some())));
                match r {
                    Err(pm) => st.fail(Failure::panic(case, &pm).with_fp("user-crypto/contract-breached")),
                    Ok(Err(e)) => st.fail(Failure::new("checked-decode-refused", case, format!("authentic JoinAccept refused with a user-supplied crypto: {e:?}")).with_fp("join-accept-authentic-rejected/user-crypto")),
                    Ok(Ok(g)) => {
                        let want = (ja.join_nonce, ja.net_id, ja.dev_addr, ja.dl_settings, ja.rx_delay & 0x0f, ja.cflist.is_some());
                        if g != want {
                            st.fail(Failure::new("decoded-fields", case, format!("JoinAccept with user-supplied crypto: want {want:?}, got {g:?}")).with_fp("join-accept-fields/user-crypto"));
                        } else {
                            st.nt_distinct();
                        }
                    }
                }
            } else {
                let app = rng.key();
                let plen = [0usize, 1, 16, 17, 33, 120, 242][(i as usize / 2) % 7];
                let d = DataDesc { ftype: FType::ALL[(i as usize / 2) % 4], dev_addr: rng.next_u32(), adr: rng.bool(), adr_ack_req: false, ack: rng.bool(), f_pending: false, fcnt: rng.next_u32(), fopts: rng.bytes((i as usize / 14) % 16),
                    payload: if plen == 0 { RefPayload::None } else { RefPayload::Data { port: 1 + rng.below(255) as u8, data: rng.bytes(plen) } } };
                let wire = encode_data(&d, &key, Some(&app));
                let case = json!({"kind":"data_user_crypto","frame":hex(&wire),"nwk":hex(&key),"app":hex(&app),"fcnt":d.fcnt});
                let ac = StrictCrypto::new(&app);
                let mut buf = wire.clone();
                let r = catch(|| DecryptedDataPayload::check_mic_and_decrypt_in_place(&mut buf, &c, Some(&ac), d.fcnt).map(|p| match p.frm_payload() { FrmPayload::Data(x) => x.to_vec(), _ => vec![] }));
                match r {
                    Err(pm) => st.fail(Failure::panic(case, &pm).with_fp("user-crypto/contract-breached")),
                    Ok(Err(e)) => st.fail(Failure::new("checked-decode-refused", case, format!("authentic frame refused with a user-supplied crypto: {e:?}")).with_fp("mic-authentic-rejected/user-crypto")),
                    Ok(Ok(plain)) => {
                        let want = match &d.payload { RefPayload::Data { data, .. } => data.clone(), _ => vec![] };
                        if plain != want {
                            st.fail(Failure::new("decoded-fields", case, "plaintext differs with a user-supplied crypto").with_fp("decoded-fields/user-crypto"));
                        } else {
                            st.nt_distinct();
                        }
                    }
                }
            }
        }
        ctx.stats.merge(st);
    }
    let cases = ctx.tier.pick(400_000u32, 6_000_000);
    let nthreads = ctx.threads as u32;
    ctx.parallel(|ti, _n, st| {
        let strat = (
            desc_strategy(15, 242),
            key_strategy(),
            key_strategy(),
            proptest::collection::vec(mutation_strategy(), 0..=3),
            0u8..8,
            any::<u32>(),
            prop_oneof![8 => Just(0u8), 1 => Just(1u8), 1 => Just(2u8)],
            proptest::option::weighted(0.15, proptest::collection::vec(any::<u8>(), 0..=255)),
        );
        let f = run_proptest(strat, cases / nthreads, seed ^ 0xC02 ^ ((ti as u64) << 40), st, |(d, nwk, app, muts, csel, crand, keysel, random_bytes), st| {
            st.eval();
            let mut d = d.clone();
            if matches!(d.payload, RefPayload::Mac(_)) {
                d.fopts.clear();
            }
            let (frame, built) = match random_bytes {
                Some(b) => {
                    st.class("pure-random-bytes");
                    (b.clone(), false)
                }
                None => {
                    let mut f = encode_data(&d, nwk, Some(app));
                    let before = decode_data(&f).is_ok();
                    for m in muts {
                        mutate(&mut f, m, nwk, d.fcnt);
                    }
                    if muts.is_empty() {
                        st.class("unmutated-built-frame");
                    } else {
                        st.class("mutated-frame");
                    }
                    if before != decode_data(&f).is_ok() {
                        st.class("structure-class-changed");
                    }
                    (f, true)
                }
            };
            let wire = if frame.len() >= 8 { u16::from_le_bytes([frame[6], frame[7]]) as u32 } else { 0 };
            let fcnt_arg = match csel {
                0..=2 => d.fcnt,
                3 => d.fcnt.wrapping_add(0x10000),
                4 => d.fcnt.wrapping_sub(0x10000),
                5 => (d.fcnt & 0xFFFF_0000) | ((wire.wrapping_add(1 + (crand & 0xff))) & 0xFFFF),
                6 => *[0u32, 0xFFFF, 0x10000, 0xFFFF_FFFF].get((*crand & 3) as usize).unwrap(),
                _ => *crand,
            };
            let other = {
                let mut k = *nwk;
                k[(crand & 15) as usize] ^= 1 << ((crand >> 4) & 7);
                k
            };
            let (use_nwk, use_app): (&[u8; 16], Option<&[u8; 16]>) = match keysel {
                0 => (nwk, Some(app)),
                1 => (&other, Some(app)),
                _ => (nwk, None),
            };
            let (structural, mic_ok, accepted) = check_bytes(&frame, use_nwk, use_app, fcnt_arg)?;
            if structural {
                st.class("structurally-valid");
                // how far is the MIC from the right one for this key/counter
                let n = frame.len();
                let right = data_mic(use_nwk, &frame[..n - 4], fcnt_arg);
                let dist: u32 = right.iter().zip(&frame[n - 4..]).map(|(a, b)| (a ^ b).count_ones()).sum();
                if dist <= 8 {
                    st.nt_hash(fnv64(format!("{}|{}|{}", hex(&frame), hex(use_nwk), fcnt_arg).as_bytes()));
                    if dist > 0 {
                        st.class("near-miss-mic");
                    }
                }
                if st.want_sample() && st.evaluations % 3001 == 7 {
                    st.sample(json!({"frame": hex(&frame), "fcnt_arg": fcnt_arg, "mic_ok": mic_ok, "accepted": accepted}));
                }
            } else if built {
                st.nt_hash(fnv64(hex(&frame).as_bytes()));
            }
            if mic_ok {
                st.class("mic-ok");
            }
            if accepted {
                st.class("accepted");
            }
            // the same round trip through the library's own builder (a used caller buffer, longer than the frame
            // in some cases)
            if built && muts.is_empty() && *keysel == 0 && crand % 4 == 0 {
                if check_library_built_data(&d, nwk, app, frame.len() + [0usize, 1, 13][(crand >> 2) as usize % 3], crand & 0x10 != 0)? {
                    st.class("library-built-data-frame");
                }
            }
            // exact round trip for unmutated frames
            if built && muts.is_empty() && *keysel == 0 && fcnt_arg == d.fcnt && !accepted {
                return Err(Failure::new("round-trip", json!({"kind":"bytes","frame":hex(&frame),"nwk":hex(nwk),"app":hex(app),"fcnt_arg":fcnt_arg}), "a frame built by the reference codec is not accepted"));
            }
            Ok(())
        });
        if let Some(f) = f {
            st.fail(f);
        }
        // join frames
        let strat = (ja_strategy(), key_strategy(), proptest::collection::vec(any::<u16>(), 0..=2), 0u8..6, any::<u16>(), any::<u8>());
        let f = run_proptest(strat, cases / nthreads / 4, seed ^ 0xC02A ^ ((ti as u64) << 40), st, |(d, key, flips, sel, nonce, x), st| {
            st.eval();
            let mut f = encode_join_accept(d, key);
            for p in flips {
                let bit = (*p as usize * (f.len() * 8)) >> 16;
                f[bit / 8] ^= 1 << (bit % 8);
            }
            match sel {
                0 => {
                    f.pop();
                }
                1 => f.push(*x),
                _ => {}
            }
            let mut k2 = *key;
            if *sel == 2 {
                k2[(*x & 15) as usize] ^= 1;
            }
            let (s, m) = check_join_accept_bytes(&f, &k2, *nonce)?;
            st.class(if m { "join-accept-authentic" } else if s { "join-accept-rejected" } else { "join-accept-malformed" });
            if s {
                st.nt_hash(fnv64(format!("ja{}{}", hex(&f), hex(&k2)).as_bytes()));
            }
            if flips.is_empty() && *sel > 2 && !m {
                return Err(Failure::new("round-trip", json!({"kind":"join_accept_bytes","frame":hex(&f),"key":hex(key),"dev_nonce":nonce}), "reference-built JoinAccept not accepted").with_fp("join-accept-authentic-rejected"));
            }
            // "parsing any built frame returns the description it was built from": the library's own builder
            // into a used caller buffer that may be longer than the frame
            if repo_cflist(&d.cflist).is_some() {
                if check_library_built_join_accept(d, key, *nonce, [0usize, 0, 1, 16, 222][(*x % 5) as usize])? {
                    st.class("library-built-join-accept");
                }
            }
            // JoinRequest
            let jr = JoinReqDesc { join_eui: (d.join_nonce as u64) << 32 | d.dev_addr as u64, dev_eui: (d.net_id as u64) << 40 | *nonce as u64, dev_nonce: *nonce };
            let mut f = encode_join_request(&jr, key);
            for p in flips {
                let bit = (*p as usize * (f.len() * 8)) >> 16;
                f[bit / 8] ^= 1 << (bit % 8);
            }
            if *sel == 0 {
                f.pop();
            }
            let (s, m) = check_join_request_bytes(&f, &k2)?;
            st.class(if m { "join-request-authentic" } else if s { "join-request-rejected" } else { "join-request-malformed" });
            Ok(())
        });
        if let Some(f) = f {
            st.fail(f);
        }
    });
}
