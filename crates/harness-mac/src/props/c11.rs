//! C11 — OTAA join establishes exactly the session the JoinAccept defines.

use crate::drive::fronts::*;
use crate::drive::history::*;
use crate::drive::net::*;
use crate::drive::*;
use crate::gen;
use serde_json::Value;
use verif_core::oracle::refcodec::{self, RefCfList};
use verif_core::oracle::refregion::Reg;
use verif_core::proptest::prelude::*;
use verif_core::*;

pub fn judge(h: &History, recs: &[StepRec]) -> Result<(u32, u32), Failure> {
    let case = || h.json();
    let reg = Reg::from_name(h.cfg.region.name()).unwrap();
    let region_cfg = h.cfg.region_configuration();
    let implemented = |d: u8| region_cfg.get_max_payload_length(lorawan_device::region::DR::from(d), false, false) > 0 || (d < 15 && { let _ = d; false });
    let mut attempts = 0;
    let mut accepted = 0;
    let mut expect_first_uplink: Option<([u8; 16], [u8; 16], u32)> = None;
    let mut joined_model = matches!(h.activation, Activation::Abp { .. });
    let mut rxc_accepts_since_join = 0u32;
    let mut steps_seen = 0usize;
    let mut cur = creds(0);
    for r in recs {
        // credentials configured by the application before this record
        while steps_seen <= r.index && steps_seen < h.steps.len() {
            if let Step::SetCreds(i) = &h.steps[steps_seen] {
                cur = creds(*i);
            }
            steps_seen += 1;
        }
        let (cur_dev_eui, cur_join_eui, cur_key) = cur;
        if r.outcome.is_panic() {
            break;
        }
        if r.trace.iter().any(|e| matches!(e, Ev::Fault(_))) {
            return Ok((attempts, accepted));
        }
        match &r.step {
            Step::Join(_) => {
                attempts += 1;
                expect_first_uplink = None;
                rxc_accepts_since_join = 0;
                // ---- the JoinRequest
                let Some(t) = r.txs.first() else { return Err(Failure::new("join-request-sent", case(), format!("join attempt at step {} handed nothing to the radio: {}", r.index, r.outcome.text()))) };
                let jr = match refcodec::decode_join_request(&t.bytes) {
                    Ok((jr, _)) => jr,
                    Err(e) => return Err(Failure::new("join-request-wellformed", case(), format!("step {}: {:?}: {}", r.index, e, hex(&t.bytes)))),
                };
                if jr.join_eui != cur_join_eui || jr.dev_eui != cur_dev_eui || t.bytes[0] != 0x00 {
                    return Err(Failure::new("join-request-identifiers", case(), format!("JoinRequest carries JoinEUI {:016x} DevEUI {:016x} MHDR {:02x}; configured {:016x} / {:016x}", jr.join_eui, jr.dev_eui, t.bytes[0], cur_join_eui, cur_dev_eui)));
                }
                if !refcodec::join_request_mic_ok(&t.bytes, &cur_key) {
                    return Err(Failure::new("join-request-mic", case(), format!("JoinRequest MIC does not verify under the AppKey: {}", hex(&t.bytes))));
                }
                // ---- outcome
                let valid = r.deliveries.iter().find_map(|d| match &d.verdict {
                    Verdict::JoinAccept { desc, nwk, app } if matches!(d.slot, Slot::Rx1 | Slot::Rx2) => Some((desc.clone(), *nwk, *app)),
                    _ => None,
                });
                let delivered_any = !r.deliveries.is_empty();
                match (&valid, &r.outcome) {
                    (Some(_), Outcome::Resp(s)) if s == "JoinSuccess" => {}
                    (None, Outcome::Resp(s)) if s == "NoJoinAccept" => {}
                    (Some(_), o) => return Err(Failure::new("join-iff-valid-accept", case(), format!("step {}: a JoinAccept with a valid MIC was delivered but the attempt ended with {}\n{}", r.index, o.text(), render(recs, 3))).with_fp("join/valid-accept-not-joined")),
                    (None, o) => return Err(Failure::new("join-iff-valid-accept", case(), format!("step {}: no valid JoinAccept was delivered (frames delivered: {delivered_any}) but the attempt ended with {}\n{}", r.index, o.text(), render(recs, 3))).with_fp("join/joined-without-valid-accept")),
                }
                joined_model = valid.is_some();
                if r.snap_after.joined != joined_model {
                    return Err(Failure::new("joined-state", case(), format!("step {}: device joined={}, model joined={joined_model}", r.index, r.snap_after.joined)));
                }
                let Some((desc, nwk, app)) = valid else { continue };
                accepted += 1;
                // ---- the session
                let Some(s) = &r.session_after else { return Err(Failure::new("session-exists", case(), "JoinSuccess without a session")) };
                let bytes = |v: &Value| -> Vec<u8> { v.as_array().map(|a| a.iter().map(|b| b.as_u64().unwrap_or(0) as u8).collect()).unwrap_or_default() };
                let (dn, da, dad) = (bytes(&s["nwkskey"]), bytes(&s["appskey"]), bytes(&s["devaddr"]));
                // the getters an application reads the session through say the same
                if let Some((kn, ka, kaddr)) = &r.api_keys {
                    if kn.to_vec() != nwk || ka.to_vec() != app || *kaddr != desc.dev_addr {
                        return Err(Failure::new("session-keys", case(), format!("step {}: the session-key getter reports nwk {} app {} addr {kaddr:08x}; the JoinAccept defines nwk {} app {} addr {:08x}", r.index, hex(kn), hex(ka), hex(&nwk), hex(&app), desc.dev_addr)).with_fp("session-keys/getter"));
                    }
                } else {
                    return Err(Failure::new("session-keys", case(), format!("step {}: JoinSuccess but the session-key getter reports no session", r.index)).with_fp("session-keys/getter"));
                }
                if dn != nwk || da != app {
                    // diagnose a stale DevNonce
                    let stale = { let net_prev = refcodec::derive_skey(&cur_key, 1, desc.join_nonce, desc.net_id, jr.dev_nonce); net_prev.to_vec() != dn };
                    return Err(Failure::new("session-keys", case(), format!("session keys differ from the LoRaWAN 1.0.x derivation with DevNonce {:04x} (nwk {} vs {}, app {} vs {}); derivation-with-sent-nonce-mismatch={stale}", jr.dev_nonce, hex(&dn), hex(&nwk), hex(&da), hex(&app))));
                }
                if dad != desc.dev_addr.to_le_bytes() {
                    return Err(Failure::new("dev-addr", case(), format!("DevAddr {} but the accept assigned {:08x}", hex(&dad), desc.dev_addr)));
                }
                if s["fcnt_up"].as_u64() != Some(0) || !s["fcnt_down"].is_null() {
                    return Err(Failure::new("counters-restart", case(), format!("after join fcnt_up={} fcnt_down={}", s["fcnt_up"], s["fcnt_down"])));
                }
                expect_first_uplink = Some((nwk, app, desc.dev_addr));
                // ---- parameters
                let (b, a) = (&r.snap_before, &r.snap_after);
                let want_delay = match desc.rx_delay & 0x0f {
                    0 | 1 => 1000,
                    n => n as u32 * 1000,
                };
                if a.rx1_delay != want_delay {
                    return Err(Failure::new("rx-delay", case(), format!("RxDelay field {} -> rx1_delay {} ms, expected {want_delay}", desc.rx_delay, a.rx1_delay)));
                }
                let off = (desc.dl_settings >> 4) & 7;
                let want_off = if off <= reg.max_rx1_offset() { off } else { b.rx1_dr_offset };
                if a.rx1_dr_offset != want_off {
                    return Err(Failure::new("rx1-dr-offset", case(), format!("DLSettings {:#04x}: rx1_dr_offset {} (before {}), expected {want_off} (region maximum {})", desc.dl_settings, a.rx1_dr_offset, b.rx1_dr_offset, reg.max_rx1_offset())));
                }
                let dr2 = desc.dl_settings & 15;
                let defined = reg.dr(dr2).is_some();
                if !defined {
                    if a.rx2_data_rate != b.rx2_data_rate {
                        return Err(Failure::new("rx2-dr", case(), format!("DLSettings {:#04x}: RX2 data rate {dr2} is not defined for the region but rx2_data_rate changed {:?} -> {:?}", desc.dl_settings, b.rx2_data_rate, a.rx2_data_rate)).with_fp("rx2-dr/undefined-applied"));
                    }
                } else if implemented(dr2) && !(reg.fixed() && dr2 < 8) {
                    if a.rx2_data_rate != Some(dr2) {
                        return Err(Failure::new("rx2-dr", case(), format!("DLSettings {:#04x}: valid RX2 data rate {dr2} not applied (rx2_data_rate {:?})", desc.dl_settings, a.rx2_data_rate)).with_fp("rx2-dr/valid-ignored"));
                    }
                }
                // ---- CFList
                match (&desc.cflist, reg.fixed()) {
                    (Some(RefCfList::Type0(fs)), false) => {
                        let first = reg.default_channels().len();
                        let (lo, hi) = reg.band();
                        for (i, raw) in fs.iter().enumerate() {
                            let f = raw * 100;
                            let got = a.plan.channels[first + i];
                            if *raw == 0 {
                                if got.is_some() {
                                    return Err(Failure::new("cflist", case(), format!("CFList entry {i} is 0 (unused) but channel {} is defined: {got:?}", first + i)).with_fp("cflist/zero-entry-defined"));
                                }
                            } else if f >= lo && f <= hi {
                                if got.map(|c| c.frequency) != Some(f) {
                                    return Err(Failure::new("cflist", case(), format!("CFList entry {i} = {f} Hz (in band) but channel {} is {got:?}", first + i)).with_fp("cflist/valid-entry-not-applied"));
                                }
                                // the channel is the one the accept defines — DR0..DR5, downlink on the same
                                // frequency — not whatever an earlier session attached to that slot
                                if let Some(c) = got {
                                    if c.dl_frequency.map(|d| d != f).unwrap_or(false) || c.dr_range != 0x50 {
                                        return Err(Failure::new("cflist", case(), format!("CFList entry {i} = {f} Hz: channel {} is {c:?}, the accept defines a DR0..DR5 channel with its downlink on the same frequency", first + i)).with_fp("cflist/channel-keeps-earlier-attributes"));
                                    }
                                }
                            } else if got.map(|c| c.frequency) == Some(f) {
                                return Err(Failure::new("cflist", case(), format!("CFList entry {i} = {f} Hz lies outside the band {lo}..{hi} but was applied to channel {}", first + i)).with_fp("cflist/out-of-band-applied"));
                            }
                        }
                    }
                    (Some(RefCfList::Type1(m)), true) => {
                        let n125 = (0..64).filter(|c| m[c / 8] & (1 << (c % 8)) != 0).count();
                        let all_zero = m.iter().all(|b| *b == 0);
                        if all_zero && a.plan.channel_mask == *m && b.plan.channel_mask != *m {
                            return Err(Failure::new("cflist", case(), "all-zero type-1 CFList (no channel left) was applied").with_fp("cflist/unusable-mask-applied"));
                        }
                        if n125 >= 2 && a.plan.channel_mask != *m {
                            return Err(Failure::new("cflist", case(), format!("usable type-1 CFList mask {} not applied (mask {})", hex(m), hex(&a.plan.channel_mask))).with_fp("cflist/valid-mask-ignored"));
                        }
                    }
                    (Some(RefCfList::Raw(_)), _) | (Some(RefCfList::Type0(_)), true) | (None, _) => {
                        // nothing to apply: the plan must be unchanged
                        if a.plan.channels != b.plan.channels {
                            return Err(Failure::new("cflist", case(), "channel table changed although the accept carries no applicable CFList").with_fp("cflist/changed-without-list"));
                        }
                    }
                    (Some(RefCfList::Type1(_)), false) => {}
                }
            }
            Step::Send { .. } | Step::Silence(_) => {
                if !joined_model {
                    let ok = matches!(&r.outcome, Outcome::Err(e) if e.contains("NotJoined"));
                    if !ok || !r.txs.is_empty() {
                        return Err(Failure::new("unjoined-cannot-send", case(), format!("step {}: device is not joined (no valid JoinAccept) but send ended with {} and {} frames were transmitted", r.index, r.outcome.text(), r.txs.len())).with_fp("join/sends-while-unjoined"));
                    }
                    continue;
                }
                if let Some((nwk, _app, addr)) = expect_first_uplink.take() {
                    let Some(t) = r.txs.first() else { continue };
                    // counter 0 — unless downlinks were accepted while listening (Class C) before the
                    // first uplink: the stack consumes one uplink counter value per accepted downlink
                    // (counters may skip, C06), so any value up to that number is a restarted counter
                    let ok = (0..=rxc_accepts_since_join).any(|c| t.view.as_ref().map(|v| v.dev_addr == addr && v.fcnt16 as u32 == c).unwrap_or(false) && refcodec::data_mic_ok(&t.bytes, &nwk, c));
                    if !ok {
                        return Err(Failure::new("first-uplink", case(), format!("first uplink after the join does not verify under the derived NwkSKey with counter 0 (..={rxc_accepts_since_join}) and the assigned address: {}", hex(&t.bytes))));
                    }
                }
            }
            Step::SetSession { .. } => {
                joined_model = !matches!(r.outcome, Outcome::Err(_)) || joined_model;
                expect_first_uplink = None;
            }
            Step::JoinAbp => {
                // activation by personalisation: joined without any frame on the air
                joined_model = true;
                expect_first_uplink = None;
                if !r.txs.is_empty() {
                    return Err(Failure::new("abp-transmits-nothing", case(), format!("step {}: ABP activation handed {} frames to the radio", r.index, r.txs.len())));
                }
                if let Some(s) = &r.session_after {
                    if s["fcnt_up"].as_u64() != Some(0) || !s["fcnt_down"].is_null() {
                        return Err(Failure::new("counters-restart", case(), format!("after ABP activation fcnt_up={} fcnt_down={}", s["fcnt_up"], s["fcnt_down"])));
                    }
                }
            }
            Step::RxcListen(_) => {
                rxc_accepts_since_join += r.deliveries.iter().filter(|d| matches!(d.verdict, Verdict::Accept { .. } | Verdict::SizeDontCare)).count() as u32;
            }
            _ => {}
        }
    }
    Ok((attempts, accepted))
}

fn junk_for_join(reg: Reg) -> impl Strategy<Value = Recipe> {
    prop_oneof![
        3 => gen::join_accept_strategy(reg, false),
        1 => proptest::collection::vec(any::<u8>(), 0..40).prop_map(Recipe::Random),
        1 => Just(Recipe::auth_empty(1)),
    ]
}

pub fn history_strategy() -> impl Strategy<Value = History> {
    (gen::cfg_strategy(), any::<u64>(), proptest::collection::vec(any::<u32>(), 0..4), any::<bool>()).prop_flat_map(|(cfg, seed, script, start_abp)| {
        let reg = Reg::from_name(cfg.region.name()).unwrap();
        let join_plan = prop_oneof![
            4 => gen::join_accept_strategy(reg, false).prop_map(RxPlan::rx1),
            3 => gen::join_accept_strategy(reg, false).prop_map(RxPlan::rx2),
            1 => Just(RxPlan::default()),
            2 => (junk_for_join(reg), gen::join_accept_strategy(reg, false)).prop_map(|(a, b)| RxPlan { rx1: vec![a], rx2: vec![b], ..Default::default() }),
            1 => (junk_for_join(reg), junk_for_join(reg)).prop_map(|(a, b)| RxPlan { rx1: vec![a], rx2: vec![b], ..Default::default() }),
        ];
        let step = prop_oneof![
            5 => join_plan.prop_map(Step::Join),
            2 => (0u8..5).prop_map(Step::SetCreds),
            3 => (1u8..=200, 0u8..8, any::<bool>()).prop_map(|(port, len, confirmed)| Step::Send { port, len, confirmed, rx: RxPlan::default() }),
            1 => (1u8..=200, 0u8..8).prop_map(|(port, len)| Step::Send { port, len, confirmed: false, rx: RxPlan::rx1(Recipe::auth_empty(1)) }),
        ];
        proptest::collection::vec(step, 1..=8).prop_map(move |steps| History { cfg: cfg.clone(), activation: if start_abp { Activation::Abp { fcnt_up: 9, fcnt_down: Some(3) } } else { Activation::Otaa }, board: Board::default(), rng_script: script.clone(), rng_seed: seed, steps })
    })
}

pub fn replay(case: &Value, _kf: &KnownFindings) -> Result<(), Failure> {
    let h = super::cross::case_history(case);
    let (_, recs) = run_history(&h).map_err(|e| Failure::new("harness", h.json(), e))?;
    judge(&h, &recs).map(|_| ())
}

fn run_one(h: &History, st: &mut Stats, class: &str) -> Result<(), Failure> {
    st.eval();
    st.class(class);
    let (_, recs) = run_history(h).map_err(|e| Failure::new("harness", h.json(), e))?;
    let (att, acc) = judge(h, &recs)?;
    st.class_n("join-attempts", att as u64);
    st.class_n("join-accepted", acc as u64);
    let delivered = recs.iter().any(|r| matches!(r.step, Step::Join(_)) && !r.deliveries.is_empty());
    if delivered {
        st.nt_hash(hash_value(&h.json()));
        if st.want_sample() && st.evaluations % 211 == 3 {
            st.sample(h.json());
        }
    }
    Ok(())
}

pub fn run(ctx: &mut Ctx) {
    let thorough = ctx.tier == Tier::Thorough;
    ctx.rule = "(1) sweep: every DLSettings byte x RxDelay 0..15 x CFList classes {none, type 0 with in-band/zero/out-of-band/0xFFFFFF frequencies, type 1 masks incl. all-zero and 500-kHz-only, RFU type octets} x arrival in RX1/RX2 x 9 regions x nb/async, each followed by an uplink; (1b) dynamic plans: join with a five-entry CFList, a downlink that narrows the mask and changes the RX1 downlink frequency and the data-rate range of CFList channels (DlChannelReq, NewChannelReq), re-join whose CFList keeps a subset of the entries (every enabled subset x kept subset): the channels after the re-join are the ones the accept defines (DR0..DR5, downlink on the same frequency); (2) proptest histories of 1..8 steps: join attempts whose windows carry valid / wrong-key / bit-flipped accepts, junk or nothing, after failed attempts and re-joins from a joined (ABP) state, sends in between. Oracle: reference codec decodes the JoinRequest and derives the session keys; refregion decides which accept parameters are valid; snapshot + first uplink observed. Non-trivial: attempt with a frame delivered in a join window; distinct by hash".into();
    ctx.assumptions = vec![
        "Class C receptions during a join attempt are not generated (outside the statement)".into(),
        "RX2 data rates that RP002 defines but the crate does not implement, or that are uplink-only on fixed plans, are don't-care; type-1 CFLists on dynamic plans are don't-care; a type-1 mask must be applied when it enables >= 2 125 kHz channels and must not be applied when it is all-zero".into(),
    ];
    let seed = ctx.seed;
    // (1) sweep
    ctx.parallel(|ti, n, st| {
        let mut rng = SplitMix::new(seed ^ 0xC11 ^ ti as u64);
        let mut k = 0usize;
        for region in REGIONS {
            let reg = Reg::from_name(region.name()).unwrap();
            let fs = gen::freq_set(reg);
            let cfs: Vec<Option<RefCfList>> = vec![
                None,
                Some(RefCfList::Type0([fs[4] / 100, fs[3] / 100, 0, fs[7] / 100, 0xFFFFFF])),
                Some(RefCfList::Type0([fs[1] / 100, 0, fs[5] / 100, 1, fs[6] / 100])),
                Some(RefCfList::Type1([0xFF; 9])),
                Some(RefCfList::Type1([0; 9])),
                Some(RefCfList::Type1([0, 0, 0, 0, 0, 0, 0, 0, 0xFF])),
                Some(RefCfList::Type1([0xFF, 0, 0, 0, 0, 0, 0, 0, 0x01])),
                Some(RefCfList::Type1([0x00, 0x03, 0, 0, 0, 0, 0, 0, 0x02])),
                Some(RefCfList::Raw([0x5A; 16])),
            ];
            // every single sub-band, and every pair of adjacent 125 kHz channels, as the only enabled ones
            let mut cfs = cfs;
            if reg.fixed() {
                for b in 0..8usize {
                    let mut m = [0u8; 9];
                    m[b] = 0xFF;
                    m[8] = 1 << b;
                    cfs.push(Some(RefCfList::Type1(m)));
                    let mut m = [0u8; 9];
                    m[b] = 0xC0;
                    cfs.push(Some(RefCfList::Type1(m)));
                    let mut m = [0u8; 9];
                    m[b] = 0x01;
                    m[(b + 3) % 8] |= 0x10;
                    cfs.push(Some(RefCfList::Type1(m)));
                }
            }
            for front in [FrontKind::Async, FrontKind::Nb] {
                for dl in 0..=255u8 {
                    for rxd in 0..16u8 {
                        k += 1;
                        if k % n != ti || (!thorough && (dl as usize + rxd as usize * 7) % 2 != 0) {
                            continue;
                        }
                        let cf = cfs[(dl as usize + rxd as usize * 3) % cfs.len()].clone();
                        let ja = Recipe::JoinAccept { dl_settings: dl, rx_delay: rxd | if rng.bool() { 0xA0 } else { 0 }, cflist: cf, wrong_key: false, stale_nonce: false, flip_bit: None, dev_addr: rng.next_u32(), net_id: rng.next_u32(), join_nonce: rng.next_u32() };
                        let plan = if rng.below(3) == 0 { RxPlan::rx2(ja) } else { RxPlan::rx1(ja) };
                        let h = History { cfg: DevCfg { region, join_bias: None, front, board: (14, 0) }, activation: Activation::Otaa, board: Board::default(), rng_script: vec![rng.next_u32()], rng_seed: rng.next_u64(),
                            steps: vec![Step::Join(plan), Step::Send { port: 3, len: 2, confirmed: false, rx: RxPlan::default() }] };
                        if let Err(f) = run_one(&h, st, "sweep") {
                            st.fail(f);
                        }
                    }
                }
            }
        }
    });
    // (1b) re-joins onto a plan an earlier session left its marks on (mask narrowed, RX1 downlink
    // frequency and data-rate range of CFList channels changed by DlChannelReq / NewChannelReq)
    ctx.parallel(|ti, n, st| {
        let mut j = 0usize;
        for region in REGIONS.iter().filter(|r| !Reg::from_name(r.name()).unwrap().fixed()) {
            for front in [FrontKind::Async, FrontKind::Nb] {
                for k in 0..31 * 32 {
                    j += 1;
                    if j % n != ti || (!thorough && k % 4 != 1) {
                        continue;
                    }
                    let h = crate::gen::rejoin_cflist_history_with(*region, front, seed, k, k % 8 != 1);
                    if let Err(f) = run_one(&h, st, "rejoin-cflist-after-channel-commands") {
                        st.fail(f);
                    }
                }
            }
        }
    });
    // (2) random
    let cases = ctx.tier.pick(150_000u32, 1_000_000);
    let nthreads = ctx.threads as u32;
    ctx.parallel(|ti, _n, st| {
        let f = run_proptest(history_strategy(), cases / nthreads + 1, seed ^ 0xC11B ^ ((ti as u64) << 36), st, |h, st| run_one(h, st, "random-history"));
        if let Some(f) = f {
            st.fail(f);
        }
    });
    // ---- cross-generator stage (see props/cross.rs)
    ctx.rule.push_str(super::cross::CROSS_RULE);
    let cross_cases = ctx.tier.pick(super::cross::QUICK_PER_GEN, super::cross::THOROUGH_PER_GEN);
    super::cross::stage(ctx, "C11", cross_cases);
}
