//! C01 — every frame the library builds is byte-exact LoRaWAN 1.0.x.

use crate::enc::*;
use lorawan::parser::Error;
use serde_json::{json, Value};
use verif_core::oracle::refcodec::*;
use verif_core::proptest::prelude::*;
use verif_core::*;

fn data_case(d: &DataDesc, nwk: &[u8; 16], app: Option<&[u8; 16]>, buflen: usize, net: bool) -> Value {
    json!({"kind":"data","desc":desc_json(d),"nwk":hex(nwk),"app":app.map(|k| hex(k)),"buflen":buflen,"network_crypto":net})
}

fn legal_len(d: &DataDesc) -> usize {
    1 + 7 + d.fopts.len()
        + match &d.payload {
            RefPayload::None => 0,
            RefPayload::Data { data, .. } => 1 + data.len(),
            RefPayload::Mac(c) => 1 + c.len(),
        }
        + 4
}

/// Returns Ok(is_refusal_case) or the failure.
pub fn check_data(d: &DataDesc, nwk: &[u8; 16], app: Option<&[u8; 16]>, buflen: usize, net: bool) -> Result<bool, Failure> {
    let case = || data_case(d, nwk, app, buflen, net);
    let reasons = refusal(d, app.is_some());
    let got = match catch(|| repo_build_data(d, nwk, app, buflen, net)) {
        Ok(g) => g,
        Err(pm) => return Err(Failure::panic(case(), &pm)),
    };
    let short = buflen < legal_len(d);
    let n_reasons = reasons.len() + short as usize;
    if n_reasons == 0 {
        let want = encode_data(d, nwk, app);
        return match got {
            Ok((bytes, front)) => {
                if bytes != want {
                    let fp = if d.fcnt > 0xFFFF { "bytes-equal/fcnt>16bit" } else { "bytes-equal" };
                    Err(Failure::new("bytes-equal", case(), format!("builder {} != reference {}", hex(&bytes), hex(&want))).with_fp(fp))
                } else if !front {
                    Err(Failure::new("front-of-buffer", case(), "returned slice is not the front of the caller's buffer"))
                } else {
                    Ok(false)
                }
            }
            Err(e) => Err(Failure::new("legal-must-build", case(), format!("legal description refused with {e:?}"))),
        };
    }
    match got {
        Ok((bytes, _)) => Err(Failure::new("forbidden-must-be-refused", case(), format!("forbidden description ({reasons:?}, buffer short: {short}) yielded frame {}", hex(&bytes)))),
        Err(e) => {
            if n_reasons == 1 {
                let want = if short {
                    Error::BufferTooShort
                } else {
                    match reasons[0] {
                        Refusal::FOptsTooLong => Error::FOptsTooLong,
                        Refusal::FOptsWithPort0 => Error::FOptsWithFPortZero,
                        Refusal::MissingKey => Error::MissingKey,
                        Refusal::DataOnPort0 => return Ok(true),
                    }
                };
                if e != want {
                    return Err(Failure::new("refusal-variant", case(), format!("single refusal reason: expected {want:?}, got {e:?}")));
                }
            }
            Ok(true)
        }
    }
}

fn check_join_request(d: &JoinReqDesc, key: &[u8; 16], buflen: usize, net: bool) -> Result<bool, Failure> {
    let case = json!({"kind":"join_request","join_eui":d.join_eui,"dev_eui":d.dev_eui,"dev_nonce":d.dev_nonce,"key":hex(key),"buflen":buflen,"network_crypto":net});
    let got = match catch(|| repo_build_join_request(d, key, buflen, net)) {
        Ok(g) => g,
        Err(pm) => return Err(Failure::panic(case, &pm)),
    };
    if buflen < 23 {
        return match got {
            Err(Error::BufferTooShort) => Ok(true),
            other => Err(Failure::new("refusal-variant", case, format!("buffer of {buflen} bytes: expected BufferTooShort, got {other:?}"))),
        };
    }
    let want = encode_join_request(d, key);
    match got {
        Ok(b) if b == want => Ok(false),
        Ok(b) => Err(Failure::new("bytes-equal", case, format!("builder {} != reference {}", hex(&b), hex(&want))).with_fp("bytes-equal/join-request")),
        Err(e) => Err(Failure::new("legal-must-build", case, format!("{e:?}"))),
    }
}

fn check_join_accept(d: &JoinAcceptDesc, key: &[u8; 16], buflen: usize) -> Result<bool, Failure> {
    let case = json!({"kind":"join_accept","desc":ja_json(d),"key":hex(key),"buflen":buflen});
    let got = match catch(|| repo_build_join_accept(d, key, buflen)) {
        Ok(g) => g,
        Err(pm) => return Err(Failure::panic(case, &pm)),
    };
    let need = if d.cflist.is_some() { 33 } else { 17 };
    if buflen < need {
        return match got {
            Err(Error::BufferTooShort) => Ok(true),
            other => Err(Failure::new("refusal-variant", case, format!("buffer of {buflen} bytes: expected BufferTooShort, got {other:?}"))),
        };
    }
    // RxDelay: bits 7..4 are RFU and documented as masked by the builder
    let mut dd = d.clone();
    dd.rx_delay &= 0x0f;
    let want = encode_join_accept(&dd, key);
    match got {
        Ok(b) if b == want => Ok(false),
        Ok(b) => Err(Failure::new("bytes-equal", case, format!("builder {} != reference {}", hex(&b), hex(&want))).with_fp("bytes-equal/join-accept")),
        Err(e) => Err(Failure::new("legal-must-build", case, format!("{e:?}"))),
    }
}

pub fn replay(case: &Value, _kf: &KnownFindings) -> Result<(), Failure> {
    match case["kind"].as_str() {
        Some("data") => {
            let d = desc_from_json(&case["desc"]);
            let nwk = key_from_json(&case["nwk"]).unwrap_or([0; 16]);
            let app = key_from_json(&case["app"]);
            check_data(&d, &nwk, app.as_ref(), case["buflen"].as_u64().unwrap_or(256) as usize, case["network_crypto"].as_bool().unwrap_or(false)).map(|_| ())
        }
        Some("join_request") => {
            let d = JoinReqDesc { join_eui: case["join_eui"].as_u64().unwrap_or(0), dev_eui: case["dev_eui"].as_u64().unwrap_or(0), dev_nonce: case["dev_nonce"].as_u64().unwrap_or(0) as u16 };
            check_join_request(&d, &key_from_json(&case["key"]).unwrap_or([0; 16]), case["buflen"].as_u64().unwrap_or(23) as usize, case["network_crypto"].as_bool().unwrap_or(false)).map(|_| ())
        }
        Some("join_accept") => check_join_accept(&ja_from_json(&case["desc"]), &key_from_json(&case["key"]).unwrap_or([0; 16]), case["buflen"].as_u64().unwrap_or(33) as usize).map(|_| ()),
        _ => Err(Failure::new("bad-replay", case.clone(), "unknown case kind")),
    }
}

fn nontrivial(d: &DataDesc, refusal: bool) -> bool {
    let plen = match &d.payload {
        RefPayload::None => 0,
        RefPayload::Data { data, .. } => data.len(),
        RefPayload::Mac(c) => c.len(),
    };
    refusal || plen >= 17 || d.fcnt >= 0x10000 || !d.fopts.is_empty()
}

fn record(st: &mut Stats, d: &DataDesc, r: Result<bool, Failure>, case: impl Fn() -> Value) {
    st.eval();
    match r {
        Ok(refused) => {
            if refused {
                st.class("refusal");
            }
            if nontrivial(d, refused) {
                st.nt_hash(hash_value(&case()));
                if st.want_sample() && st.evaluations % 997 == 5 {
                    st.sample(case());
                }
            }
        }
        Err(f) => st.fail(f),
    }
}

pub fn run(ctx: &mut Ctx) {
    ctx.rule = "systematic sweep: every payload length 0..=242 x every FOpts length 0..=15 x 4 frame types x {Data, MacCommands} (+ no-payload) with random contents/keys/counters from the boundary set, through DefaultCrypto and DefaultNetworkCrypto, exact/short/long buffers; refusal grid (FOpts 16/17 and far beyond the limit: 18..65552 bytes incl. the lengths that wrap to 0..15 mod 256 / mod 65536, FOpts with port 0, missing AppSKey, short buffers; every buffer size 0..=frame length for every FOpts length x 3 payload shapes); proptest-random descriptions; a grid of data and join frames built with a user-supplied Crypto implementation that honours exactly the documented one-block-per-call contract; JoinRequest/JoinAccept descriptions (all DLSettings/RxDelay bytes, CFList none/type0/type1). Non-trivial: payload >= 17 bytes (>= 2 keystream blocks) or FCnt >= 2^16 or FOpts non-empty or a refusal case or JoinAccept with CFList; distinct by hash of the full case".into();
    ctx.assumptions = vec![
        "reference codec (verif-core/src/oracle/refcodec.rs, aes.rs) written from FIPS-197, RFC 4493 and the LoRaWAN 1.0.x specification; self-tested against published vectors at start".into(),
        "FCtrl bit 6 is written on uplinks only and bit 4 on downlinks only, as the builder documents".into(),
        "JoinAccept RxDelay upper nibble is RFU and masked by the builder as documented".into(),
    ];
    let reps = ctx.tier.pick(3usize, 40);
    let seed = ctx.seed;
    // ---- descriptions that leave everything but the payload at the documented defaults (built from
    // `DataFrame::default()` by the bridge): unconfirmed uplink, address 0, counter 0, no flags, no FOpts
    {
        let mut st = Stats::new();
        let mut rng = SplitMix::new(seed ^ 0xC01D);
        for plen in [0usize, 1, 16, 17, 242] {
            for kind in 0..3 {
                for net in [false, true] {
                    let payload = match kind { 0 => RefPayload::None, 1 => RefPayload::Data { port: 1 + rng.below(255) as u8, data: rng.bytes(plen) }, _ => RefPayload::Mac(rng.bytes(plen)) };
                    let d = DataDesc { ftype: FType::UnconfUp, dev_addr: 0, adr: false, adr_ack_req: false, ack: false, f_pending: false, fcnt: 0, fopts: vec![], payload };
                    let (nwk, app) = (rng.key(), rng.key());
                    st.class("all-defaults");
                    let r = check_data(&d, &nwk, Some(&app), 256, net);
                    record(&mut st, &d, r, || data_case(&d, &nwk, Some(&app), 256, net));
                }
            }
        }
        ctx.stats.merge(st);
    }
    // ---- systematic sweep
    ctx.parallel(|ti, n, st| {
        let mut rng = SplitMix::new(seed ^ 0xC01 ^ (ti as u64) << 32);
        let mut idx = 0usize;
        for rep in 0..reps {
            for plen in 0..=242usize {
                for fol in 0..=15usize {
                    idx += 1;
                    if idx % n != ti {
                        continue;
                    }
                    for ftype in FType::ALL {
                        for kind in 0..2 {
                            let nwk = rng.key();
                            let app = rng.key();
                            let fcnt = if rng.below(3) == 0 { rng.next_u32() } else { *rng.pick(&FCNT_BOUNDARIES) };
                            let flags = if rep == 0 { (plen + fol) as u64 } else { rng.next_u64() };
                            let payload = if kind == 0 { RefPayload::Data { port: 1 + rng.below(255) as u8, data: rng.bytes(plen) } } else { RefPayload::Mac(rng.bytes(plen)) };
                            let d = DataDesc {
                                ftype,
                                dev_addr: rng.next_u32(),
                                adr: flags & 1 != 0,
                                adr_ack_req: flags & 2 != 0,
                                ack: flags & 4 != 0,
                                f_pending: flags & 8 != 0,
                                fcnt,
                                fopts: rng.bytes(fol),
                                payload,
                            };
                            let net = rng.bool();
                            let buflen = match rng.below(4) {
                                0 => legal_len(&d),
                                1 => 256,
                                2 => legal_len(&d) + rng.below(8) as usize,
                                _ => legal_len(&d) - 1 - rng.below(3).min(legal_len(&d) as u64 - 1) as usize,
                            };
                            let r = check_data(&d, &nwk, Some(&app), buflen, net);
                            if plen >= 17 {
                                st.class("multi-block-payload");
                            }
                            record(st, &d, r, || data_case(&d, &nwk, Some(&app), buflen, net));
                        }
                    }
                }
            }
        }
        if ti == 1 % n {
            // every buffer size below the frame's length (and the exact one), for every FOpts length and three
            // payload shapes: too small a buffer is refused with BufferTooShort whatever part of the frame fits
            for fol in 0..=15usize {
                for pk in 0..3 {
                    let nwk = rng.key();
                    let app = rng.key();
                    let payload = match pk {
                        0 => RefPayload::None,
                        1 => RefPayload::Data { port: 1 + rng.below(255) as u8, data: rng.bytes(0) },
                        _ => RefPayload::Data { port: 1 + rng.below(255) as u8, data: rng.bytes(5 + fol) },
                    };
                    let d = DataDesc { ftype: FType::ALL[(fol + pk) % 4], dev_addr: rng.next_u32(), adr: fol & 1 != 0, adr_ack_req: false, ack: fol & 2 != 0, f_pending: false, fcnt: *rng.pick(&FCNT_BOUNDARIES), fopts: rng.bytes(fol), payload };
                    for buflen in 0..=legal_len(&d) {
                        for net in [false, true] {
                            let r = check_data(&d, &nwk, Some(&app), buflen, net);
                            st.class("every-short-buffer-size");
                            record(st, &d, r, || data_case(&d, &nwk, Some(&app), buflen, net));
                        }
                    }
                }
            }
        }
        if ti == 0 {
            // all 64 header flag combinations without payload, and the refusal grid
            for ftype in FType::ALL {
                for flags in 0..16u32 {
                    for fol in [0usize, 1, 15, 16, 17] {
                        for pk in 0..3 {
                            let nwk = rng.key();
                            let app = rng.key();
                            let pl = rng.below(40) as usize;
                            let payload = match pk {
                                0 => RefPayload::None,
                                1 => RefPayload::Data { port: 1 + rng.below(255) as u8, data: rng.bytes(pl) },
                                _ => RefPayload::Mac(rng.bytes(pl)),
                            };
                            let d = DataDesc { ftype, dev_addr: rng.next_u32(), adr: flags & 1 != 0, adr_ack_req: flags & 2 != 0, ack: flags & 4 != 0, f_pending: flags & 8 != 0, fcnt: *rng.pick(&FCNT_BOUNDARIES), fopts: rng.bytes(fol), payload };
                            for have_app in [true, false] {
                                for buflen in [256usize, 0, legal_len(&d).saturating_sub(1), legal_len(&d)] {
                                    for net in [false, true] {
                                        let a = if have_app { Some(&app) } else { None };
                                        let r = check_data(&d, &nwk, a, buflen, net);
                                        record(st, &d, r, || data_case(&d, &nwk, a, buflen, net));
                                    }
                                }
                            }
                        }
                    }
                }
            }
            // FOpts far beyond the limit: lengths that wrap to 0..=15 in a narrower integer (mod 256, mod
            // 65536) and their neighbours, with buffers large enough to hold such a "frame"
            for ftype in FType::ALL {
                for fol in [18usize, 31, 32, 240, 255, 256, 257, 263, 270, 271, 272, 300, 511, 512, 519, 527, 528, 65535, 65536, 65537, 65543, 65551, 65552] {
                    for pk in 0..3 {
                        let nwk = rng.key();
                        let app = rng.key();
                        let pl = rng.below(20) as usize;
                        let payload = match pk {
                            0 => RefPayload::None,
                            1 => RefPayload::Data { port: 1 + rng.below(255) as u8, data: rng.bytes(pl) },
                            _ => RefPayload::Mac(rng.bytes(pl)),
                        };
                        let flags = rng.next_u32();
                        let d = DataDesc { ftype, dev_addr: rng.next_u32(), adr: flags & 1 != 0, adr_ack_req: flags & 2 != 0, ack: flags & 4 != 0, f_pending: flags & 8 != 0, fcnt: *rng.pick(&FCNT_BOUNDARIES), fopts: rng.bytes(fol), payload };
                        for buflen in [fol + 400, 256, fol + 12] {
                            for net in [false, true] {
                                let r = check_data(&d, &nwk, Some(&app), buflen, net);
                                record(st, &d, r, || data_case(&d, &nwk, Some(&app), buflen, net));
                            }
                        }
                    }
                }
            }
            // the same builders with a user-supplied Crypto implementation that honours exactly the
            // documented one-block-per-call contract
            for ftype in FType::ALL {
                for fol in [0usize, 1, 7, 15] {
                    for plen in [0usize, 1, 15, 16, 17, 32, 33, 100, 241, 242] {
                        for pk in 0..3 {
                            let (nwk, app) = (rng.key(), rng.key());
                            let payload = match pk {
                                0 => RefPayload::None,
                                1 => RefPayload::Data { port: 1 + rng.below(255) as u8, data: rng.bytes(plen) },
                                _ => RefPayload::Mac(rng.bytes(plen.min(200))),
                            };
                            if pk == 2 && fol > 0 {
                                continue;
                            }
                            let d = DataDesc { ftype, dev_addr: rng.next_u32(), adr: rng.bool(), adr_ack_req: rng.bool(), ack: rng.bool(), f_pending: rng.bool(), fcnt: *rng.pick(&FCNT_BOUNDARIES), fopts: rng.bytes(fol), payload };
                            st.eval();
                            st.class("user-supplied-crypto");
                            let case = || { let mut c = data_case(&d, &nwk, Some(&app), 300, false); c["crypto"] = json!("user-supplied, one block per call"); c };
                            match catch(|| repo_build_data_strict(&d, &nwk, Some(&app), 300)) {
                                Err(pm) => st.fail(Failure::panic(case(), &pm).with_fp("user-crypto/contract-breached")),
                                Ok(Err(e)) => st.fail(Failure::new("legal-must-build", case(), format!("{e:?} with a user-supplied crypto")).with_fp("user-crypto/refused")),
                                Ok(Ok(b)) => {
                                    let want = encode_data(&d, &nwk, Some(&app));
                                    if b != want {
                                        st.fail(Failure::new("bytes-equal", case(), format!("builder {} != reference {}", hex(&b), hex(&want))).with_fp("bytes-equal/user-crypto"));
                                    } else {
                                        st.nt_distinct();
                                    }
                                }
                            }
                        }
                    }
                }
            }
            for i in 0..512u32 {
                let key = rng.key();
                let jr = JoinReqDesc { join_eui: rng.next_u64(), dev_eui: rng.next_u64(), dev_nonce: rng.next_u32() as u16 };
                let ja = JoinAcceptDesc { join_nonce: rng.next_u32() & 0xFFFFFF, net_id: rng.next_u32() & 0xFFFFFF, dev_addr: rng.next_u32(), dl_settings: rng.next_u32() as u8, rx_delay: (i % 16) as u8,
                    cflist: match i % 3 { 0 => None, 1 => Some(RefCfList::Type0([8671000, 8673000, 0, 8677000, 8679000])), _ => Some(RefCfList::Type1(rng.bytes(9).try_into().unwrap())) } };
                st.eval();
                st.class("user-supplied-crypto");
                let case = json!({"kind":"join_user_crypto","key":hex(&key),"join_accept":ja_json(&ja),"dev_nonce":jr.dev_nonce});
                match catch(|| (repo_build_join_request_strict(&jr, &key), repo_build_join_accept_strict(&ja, &key))) {
                    Err(pm) => st.fail(Failure::panic(case, &pm).with_fp("user-crypto/contract-breached")),
                    Ok((a, b)) => {
                        if a.as_ref().ok() != Some(&encode_join_request(&jr, &key)) || b.as_ref().ok() != Some(&encode_join_accept(&ja, &key)) {
                            st.fail(Failure::new("bytes-equal", case, format!("join frames built with a user-supplied crypto differ from the reference: {:?} / {:?}", a.map(|x| hex(&x)), b.map(|x| hex(&x)))).with_fp("bytes-equal/user-crypto"));
                        } else {
                            st.nt_distinct();
                        }
                    }
                }
            }
            // join frames
            for i in 0..4096u32 {
                let key = rng.key();
                let jr = JoinReqDesc { join_eui: rng.next_u64(), dev_eui: rng.next_u64(), dev_nonce: if i < 16 { [0u16, 1, 0xff, 0x100, 0xfffe, 0xffff, 0x1234, 0x8000][i as usize % 8] } else { rng.next_u32() as u16 } };
                for buflen in [23usize, 22, 0, 64] {
                    st.eval();
                    match check_join_request(&jr, &key, buflen, i % 2 == 0) {
                        Ok(_) => st.class("join-request"),
                        Err(f) => st.fail(f),
                    }
                }
            }
            for dl in 0..=255u8 {
                for rxd in [0u8, 1, 7, 15, 16, 0x8f, 0xff] {
                    for cf in 0..3 {
                        let key = rng.key();
                        let cflist = match cf {
                            0 => None,
                            1 => Some(RefCfList::Type0([rng.next_u32() & 0xFFFFFF, 8671000, 0, 0xFFFFFF, rng.next_u32() & 0xFFFFFF])),
                            _ => Some(RefCfList::Type1(rng.bytes(9).try_into().unwrap())),
                        };
                        let d = JoinAcceptDesc { join_nonce: rng.next_u32() & 0xFFFFFF, net_id: rng.next_u32() & 0xFFFFFF, dev_addr: rng.next_u32(), dl_settings: dl, rx_delay: rxd, cflist };
                        for buflen in [33usize, 17, 16, 32, 0, 64] {
                            st.eval();
                            match check_join_accept(&d, &key, buflen) {
                                Ok(_) => {
                                    st.class("join-accept");
                                    if d.cflist.is_some() {
                                        st.nt_hash(hash_value(&json!([ja_json(&d), hex(&key), buflen])));
                                    }
                                }
                                Err(f) => st.fail(f),
                            }
                        }
                    }
                }
            }
        }
    });
    // ---- proptest-random descriptions (with shrinking)
    let cases = ctx.tier.pick(60_000u32, 1_000_000);
    let strat = (desc_strategy(17, 242), key_strategy(), proptest::option::weighted(0.9, key_strategy()), 0usize..4, any::<u8>(), any::<bool>());
    let mut st = Stats::new();
    let f = run_proptest(strat, cases, ctx.seed ^ 0xC01A, &mut st, |(d, nwk, app, bsel, bx, net), st| {
        let l = legal_len(d);
        let buflen = match bsel {
            0 => l,
            1 => 256.max(l),
            2 => l + (*bx as usize % 9),
            _ => l.saturating_sub(1 + (*bx as usize % 4)),
        };
        let r = check_data(d, nwk, app.as_ref(), buflen, *net);
        let c = || data_case(d, nwk, app.as_ref(), buflen, *net);
        st.class("random-description");
        st.eval();
        match r {
            Ok(refused) => {
                if refused {
                    st.class("refusal");
                }
                if nontrivial(d, refused) {
                    st.nt_hash(hash_value(&c()));
                }
                Ok(())
            }
            Err(f) => Err(f),
        }
    });
    if let Some(f) = f {
        st.fail(f);
    }
    let strat = (ja_strategy(), key_strategy());
    let f = run_proptest(strat, cases / 10, ctx.seed ^ 0xC01B, &mut st, |(d, key), st| {
        st.eval();
        st.class("random-join-accept");
        let need = if d.cflist.is_some() { 33 } else { 17 };
        check_join_accept(d, key, need).map(|_| {
            if d.cflist.is_some() {
                st.nt_hash(hash_value(&json!([ja_json(d), hex(key)])));
            }
        })
    });
    if let Some(f) = f {
        st.fail(f);
    }
    ctx.stats.merge(st);
}
