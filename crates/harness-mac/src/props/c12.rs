//! C12 — uplink header bits and ADR back-off follow the session history.

use crate::drive::fronts::*;
use crate::drive::history::*;
use crate::drive::net::*;
use crate::drive::*;
use crate::gen;
use serde_json::Value;
use std::collections::BTreeSet;
use verif_core::oracle::refcodec::FType;
use verif_core::oracle::refregion::Reg;
use verif_core::proptest::prelude::*;
use verif_core::*;

fn lower_dr(reg: Reg, dr: u8, implemented: &dyn Fn(u8) -> bool) -> Option<u8> {
    (0..dr).rev().find(|d| reg.is_uplink_dr(*d) && implemented(*d))
}

/// Reference model state: (uplinks since the last accepted downlink, data rate)
type S = (u32, u8);

pub fn judge(h: &History, recs: &[StepRec]) -> Result<(bool, u64), Failure> {
    let case = || h.json();
    let reg = Reg::from_name(h.cfg.region.name()).unwrap();
    let region_cfg = h.cfg.region_configuration();
    let implemented = |d: u8| region_cfg.get_max_payload_length(lorawan_device::region::DR::from(d), false, false) > 0;
    let mut states: BTreeSet<S> = BTreeSet::new();
    let mut adr = true;
    let mut owed_ack = false;
    let mut crossed = false;
    let mut ambiguous_steps = 0u64;
    let mut faulted_but_judged = 0u64;
    let _ = &faulted_but_judged;
    let mut started = false;
    let mut steps_iter = 0usize;
    let bias_possible = h.cfg.join_bias.is_some();
    let mut expired = false;
    // walk the steps of the history in order together with the records
    for r in recs {
        if r.outcome.is_panic() {
            break;
        }
        // application-side configuration changes between records
        while steps_iter <= r.index {
            match &h.steps[steps_iter] {
                Step::SetAdr(b) => {
                    if !*b && adr {
                        // both readings: the count restarts, or it is kept
                        let extra: Vec<S> = states.iter().map(|(_, d)| (0, *d)).collect();
                        states.extend(extra);
                    }
                    adr = *b;
                }
                Step::SetDr(d) => {
                    if reg.is_uplink_dr(*d) && implemented(*d) {
                        states = states.iter().map(|(c, _)| (*c, *d)).collect();
                    }
                }
                _ => {}
            }
            steps_iter += 1;
        }
        if matches!(r.step, Step::Join(_) | Step::JoinAbp | Step::SetSession { .. }) {
            // a new session starts (if the join succeeds): counters restart; data rate is whatever the snapshot says
            states = [(0u32, r.snap_after.data_rate)].into_iter().collect();
            owed_ack = false;
            started = true;
            expired = false;
            continue;
        }
        if !started {
            states = [(0u32, r.snap_before.data_rate)].into_iter().collect();
            started = true;
        }
        if r.trace.iter().any(|e| matches!(e, Ev::Fault(_))) {
            // a radio fault: when the transmission itself had succeeded (something else was asked of the
            // radio or the timer between the frame and the fault) the uplink has passed without an accepted
            // downlink like any other and the record is judged as usual; a fault at the transmission itself
            // leaves open whether the uplink counts, and judging stops
            let pt = r.trace.iter().position(|e| matches!(e, Ev::Tx { .. }));
            let pf = r.trace.iter().position(|e| matches!(e, Ev::Fault(_)));
            let after_tx = matches!((pt, pf), (Some(a), Some(b)) if b > a + 1) && r.txs.iter().any(|t| !t.join) && r.trace.iter().filter(|e| matches!(e, Ev::Fault(_))).count() == 1;
            if !after_tx {
                return Ok((crossed, ambiguous_steps));
            }
            faulted_but_judged += 1;
        }
        if expired {
            // the uplink counter space is used up: the statement is about the life of a session
            return Ok((crossed, ambiguous_steps));
        }
        if r.outcome == Outcome::Resp("SessionExpired".into()) {
            expired = true; // this record's uplink is still judged
        }
        let requested_confirmed = match &r.step {
            Step::Send { confirmed, .. } => *confirmed,
            _ => false,
        };
        // ---- the uplink of this record
        for t in r.txs.iter().filter(|t| !t.join) {
            let Some(v) = &t.view else { return Err(Failure::new("uplink-decodes", case(), format!("step {}: transmitted bytes are not a data frame", r.index))) };
            let sess = r.session_before.as_ref();
            let addr = sess.and_then(|s| s["devaddr"].as_array().map(|a| a.iter().enumerate().fold(0u32, |acc, (i, b)| acc | ((b.as_u64().unwrap_or(0) as u32) << (8 * i)))));
            if let Some(a) = addr {
                if v.dev_addr != a {
                    return Err(Failure::new("devaddr", case(), format!("step {}: uplink DevAddr {:08x}, session {:08x}", r.index, v.dev_addr, a)));
                }
            }
            let want_type = if requested_confirmed { FType::ConfUp } else { FType::UnconfUp };
            if v.ftype != want_type {
                return Err(Failure::new("mtype", case(), format!("step {}: requested confirmed={requested_confirmed}, frame type {:?}", r.index, v.ftype)));
            }
            if v.ack() != owed_ack {
                let fp = if owed_ack { "ack-bit/missing" } else { "ack-bit/spurious" };
                return Err(Failure::new("ack-bit", case(), format!("step {}.{}: ACK bit {} but {} accepted confirmed downlink is waiting to be acknowledged\n{}", r.index, r.sub, v.ack(), if owed_ack { "an" } else { "no" }, render(recs, 4))).with_fp(fp));
            }
            owed_ack = false;
            if v.adr() != adr {
                return Err(Failure::new("adr-bit", case(), format!("step {}: ADR bit {} while ADR enabled = {adr}", r.index, v.adr())));
            }
            let Some(dr_obs) = reg.dr_of(t.rf.sf, t.rf.bw_hz, true) else { return Err(Failure::new("uplink-dr-defined", case(), format!("step {}: SF{}/{} Hz is not an uplink data rate of the region", r.index, t.rf.sf, t.rf.bw_hz))) };
            let expect_req = |s: &S| adr && s.0 >= 64 && lower_dr(reg, s.1, &implemented).is_some();
            // with a join-channel bias configured (fixed plans) the crate documents that data frames
            // keep using the biased channel and the data rate that channel mandates until a channel
            // mask arrives: the data rate on the air is then not the session's own and is not judged
            let consistent: BTreeSet<S> = states.iter().filter(|s| (s.1 == dr_obs || bias_possible) && expect_req(s) == v.adr_ack_req()).cloned().collect();
            if consistent.is_empty() {
                let drs: BTreeSet<u8> = states.iter().map(|s| s.1).collect();
                let (rule, fp) = if !drs.contains(&dr_obs) { ("data-rate", format!("data-rate/unexpected-change/{}", h.cfg.region.name())) } else { ("adr-ack-req", if v.adr_ack_req() { "adr-ack-req/spurious".to_string() } else { "adr-ack-req/missing".to_string() }) };
                return Err(Failure::new(rule, case(), format!("step {}.{}: uplink at DR{dr_obs} with ADRACKReq={} ADR={adr}; reference model admits (uplinks since last accepted downlink, DR) in {:?}\n{}", r.index, r.sub, v.adr_ack_req(), states, render(recs, 3))).with_fp(fp));
            }
            if consistent.len() > 1 {
                ambiguous_steps += 1;
            }
            states = consistent;
        }
        // ---- completion of the transaction
        let accepted: Vec<&DeliveryRec> = r.deliveries.iter().filter(|d| matches!(d.verdict, Verdict::Accept { .. })).collect();
        if r.deliveries.iter().any(|d| matches!(d.verdict, Verdict::SizeDontCare)) {
            return Ok((crossed, ambiguous_steps));
        }
        for d in &accepted {
            if let Verdict::Accept { confirmed, .. } = &d.verdict {
                if *confirmed {
                    owed_ack = true;
                }
            }
        }
        let class_a_accept = accepted.iter().any(|d| matches!(d.slot, Slot::Rx1 | Slot::Rx2));
        let other_accept = accepted.iter().any(|d| !matches!(d.slot, Slot::Rx1 | Slot::Rx2));
        if r.txs.iter().all(|t| t.join) {
            // no uplink in this record (RxcListen): an accepted downlink restarts the count
            if !accepted.is_empty() {
                states = states.iter().map(|(_, d)| (0, *d)).collect();
            }
            continue;
        }
        // data rates the network commanded in a frame accepted in RX1/RX2 (LinkADRReq in FOpts or in a
        // port-0 payload): a change the device did not make "on its own". Whether the request was
        // acknowledged is C08's business; here both outcomes are admissible.
        let mut commanded: Vec<u8> = vec![];
        for d in accepted.iter().filter(|d| matches!(d.slot, Slot::Rx1 | Slot::Rx2)) {
            if let Verdict::Accept { fopts, fport, plain, .. } = &d.verdict {
                let mut streams: Vec<&[u8]> = vec![fopts];
                if *fport == Some(0) {
                    streams.push(plain);
                }
                for s in streams {
                    for q in super::c08::parse_reqs(s) {
                        if let super::c08::Req::LinkAdr { dr, .. } = q {
                            if dr != 15 && reg.is_uplink_dr(dr) && implemented(dr) {
                                commanded.push(dr);
                            }
                        }
                    }
                }
            }
        }
        let mut next: BTreeSet<S> = BTreeSet::new();
        for (c, d) in &states {
            if class_a_accept {
                next.insert((0, *d));
                for dr in &commanded {
                    next.insert((0, *dr));
                }
                continue;
            }
            let mut bases: Vec<u32> = vec![*c];
            if other_accept {
                // accepted in a Class C gap of this transaction: the count restarts; whether this
                // uplink itself then counts is left open by the statement
                bases = vec![0];
                next.insert((0, *d));
            }
            for b in bases {
                // the uplink passed without an accepted downlink
                let mut variants: Vec<u32> = vec![];
                if adr {
                    variants.push(b + 1);
                } else {
                    // both readings while ADR is off
                    variants.push(b);
                    variants.push(b + 1);
                }
                for n in variants {
                    let mut dr = *d;
                    if adr && n >= 96 && (n - 64) % 32 == 0 && n != b {
                        if let Some(l) = lower_dr(reg, dr, &implemented) {
                            dr = l;
                        }
                    }
                    if n >= 64 {
                        crossed = true;
                    }
                    next.insert((n, dr));
                }
            }
        }
        states = next;
    }
    Ok((crossed, ambiguous_steps))
}

fn c12_recipe() -> impl Strategy<Value = Recipe> {
    prop_oneof![
        6 => (any::<bool>(), proptest::option::of(1u8..=200), 0u8..10).prop_map(|(confirmed, port, payload_len)| Recipe::Auth { delta: 1, confirmed, port, payload_len, fopts: vec![], frm_cmds: vec![], ack: false, fpending: false }),
        1 => any::<u16>().prop_map(Recipe::Replay),
        1 => (any::<u16>(), Just(false)).prop_map(|(bit, with_cmds)| Recipe::BitFlip { bit, with_cmds }),
        1 => any::<bool>().prop_map(|same_addr| Recipe::Foreign { same_addr }),
        1 => Just(Recipe::Auth { delta: 0, confirmed: true, port: Some(1), payload_len: 1, fopts: vec![], frm_cmds: vec![], ack: false, fpending: false }),
    ]
}

pub fn history_strategy() -> impl Strategy<Value = History> {
    (0usize..3, 0usize..9, any::<u64>(), any::<bool>()).prop_flat_map(|(fk, ri, seed, otaa)| {
        let front = [FrontKind::Nb, FrontKind::Async, FrontKind::AsyncClassC][fk];
        let class_c = front == FrontKind::AsyncClassC;
        let region = REGIONS[ri];
        let reg = Reg::from_name(region.name()).unwrap();
        let slot = || prop_oneof![5 => Just(vec![]), 2 => proptest::collection::vec(c12_recipe(), 1..=1)].boxed();
        let gap = move || if class_c { prop_oneof![8 => Just(vec![]), 1 => proptest::collection::vec(c12_recipe(), 1..=1)].boxed() } else { Just(vec![]).boxed() };
        // one send in seven meets a radio fault after its transmission (at the k-th later radio call): the uplink has
        // passed without an accepted downlink all the same
        let fault = prop_oneof![6 => Just(None), 1 => (1u8..5).prop_map(Some)];
        let plan = (gap(), slot(), gap(), slot(), fault).prop_map(|(gap1, rx1, gap2, rx2, fault_at)| RxPlan { gap1, rx1, gap2, rx2, fault_at });
        let mut sv: Vec<(u32, BoxedStrategy<Step>)> = vec![
            (6, (1u8..=200, 0u8..6, any::<bool>(), plan).prop_map(|(port, len, confirmed, rx)| Step::Send { port, len, confirmed, rx }).boxed()),
            (6, prop_oneof![3 => 20u16..70, 3 => 60u16..70, 2 => 28u16..36, 1 => 1u16..5, 1 => 95u16..100].prop_map(Step::Silence).boxed()),
            (1, gen::uplink_dr_strategy(reg).prop_map(Step::SetDr).boxed()),
            (1, prop_oneof![1 => Just(false), 2 => Just(true)].prop_map(Step::SetAdr).boxed()),
            // the session taken out of the live device and handed back (nb): the count of uplinks since the
            // last accepted downlink belongs to the session and stays
            (2, any::<bool>().prop_map(|serde| Step::HandBack { serde }).boxed()),
        ];
        if class_c {
            sv.push((1, proptest::collection::vec(c12_recipe(), 0..2).prop_map(Step::RxcListen).boxed()));
        }
        let first = if otaa { gen::join_accept_strategy(reg, true).prop_map(|r| vec![Step::Join(RxPlan::rx1(r))]).boxed() } else { Just(vec![]).boxed() };
        (first, gen::uplink_dr_strategy(reg), proptest::collection::vec(proptest::strategy::Union::new_weighted(sv), 2..=14)).prop_map(move |(mut pre, dr0, steps)| {
            pre.push(Step::SetDr(dr0));
            pre.extend(steps);
            History { cfg: DevCfg { region, join_bias: None, front, board: (14, 0) }, activation: if otaa { Activation::Otaa } else { Activation::Abp { fcnt_up: 0, fcnt_down: None } }, board: Board { nb_meddle: gen::meddle_pattern(seed), ..Default::default() }, rng_script: vec![], rng_seed: seed, steps: pre }
        })
    })
}

pub fn replay(case: &Value, _kf: &KnownFindings) -> Result<(), Failure> {
    let h = super::cross::case_history(case);
    let (_, recs) = run_history(&h).map_err(|e| Failure::new("harness", h.json(), e))?;
    judge(&h, &recs).map(|_| ())
}

pub fn run(ctx: &mut Ctx) {
    ctx.rule = "proptest histories of 2..14 steps (typically 100-600 uplinks through the 'n silent uplinks' macro step, sized to land on and around 64/96/128) interleaved with accepted unconfirmed/confirmed downlinks in RX1/RX2/Class C gaps/idle, rejected frames (replays, bit-flips, foreign, stale counter), set_adr, set_datarate, confirmed/unconfirmed sends; every region, nb/async/async+ClassC, OTAA and ABP. Every uplink is decoded by the reference codec and compared step by step with an executable reference model kept as a SET of admissible (count, data rate) states where the statement leaves a choice (uplinks while ADR is off; an uplink whose Class C gap saw an accepted downlink). Non-trivial: history crossing count 64 or containing a confirmed downlink; distinct by hash".into();
    ctx.assumptions = vec![
        "'a lower data rate exists' = a lower uplink data rate RP002 defines and the crate implements for the region".into(),
        "the two readings of 'do uplinks count while ADR is disabled' are both admissible; steps where the model holds more than one state are counted in classes.ambiguous-steps".into(),
    ];
    let cases = ctx.tier.pick(20_000u32, 120_000);
    let seed = ctx.seed;
    let nthreads = ctx.threads as u32;
    ctx.parallel(|ti, _n, st| {
        let f = run_proptest(history_strategy(), cases / nthreads + 1, seed ^ 0xC12 ^ ((ti as u64) << 36), st, |h, st| {
            st.eval();
            let (_, recs) = run_history(h).map_err(|e| Failure::new("harness", h.json(), e))?;
            let (crossed, amb) = judge(h, &recs)?;
            st.class_n("uplinks", recs.iter().map(|r| r.txs.len() as u64).sum());
            st.class_n("ambiguous-steps", amb);
            let conf = recs.iter().any(|r| r.deliveries.iter().any(|d| matches!(d.verdict, Verdict::Accept { confirmed: true, .. })));
            if crossed {
                st.class("crossed-64");
            }
            if conf {
                st.class("confirmed-downlink-accepted");
            }
            if crossed || conf {
                st.nt_hash(hash_value(&h.json()));
                if st.want_sample() && crossed {
                    st.sample(h.json());
                }
            }
            Ok(())
        });
        if let Some(f) = f {
            st.fail(f);
        }
    });
    // ---- cross-generator stage (see props/cross.rs)
    ctx.rule.push_str(super::cross::CROSS_RULE);
    let cross_cases = ctx.tier.pick(super::cross::QUICK_PER_GEN, super::cross::THOROUGH_PER_GEN);
    super::cross::stage(ctx, "C12", cross_cases);
}
