//! C09 — every transmission uses an enabled in-band channel, a legal data rate and power.

use crate::drive::fronts::*;
use crate::drive::history::*;
use crate::drive::net::Verdict;
use crate::drive::*;
use crate::gen;
use crate::props::c08;
use lorawan_device::mac::VerifSnapshot;
use serde_json::Value;
use verif_core::oracle::refregion::Reg;
use verif_core::proptest::prelude::*;
use verif_core::*;

fn mask_bit(s: &VerifSnapshot, c: usize) -> bool {
    s.plan.channel_mask[c / 8] & (1 << (c % 8)) != 0
}

/// Channel / data-rate legality of one (real or dry-run) transmission in state `s`.
pub fn check_channel(reg: Reg, s: &VerifSnapshot, tx: &Rf, join: bool) -> Result<bool, (String, String)> {
    let (lo, hi) = reg.band();
    if tx.freq < lo || tx.freq > hi {
        return Err(("out-of-band".into(), format!("transmission on {} Hz, band is {lo}..{hi}", tx.freq)));
    }
    let Some(dr) = reg.dr_of(tx.sf, tx.bw_hz, true) else { return Err((format!("dr-undefined/{:?}", reg), format!("SF{}/{} Hz is not an uplink data rate the region defines", tx.sf, tx.bw_hz))) };
    let mut nontrivial = join && reg.fixed();
    if reg.fixed() {
        let Some(ch) = reg.channel_of_uplink_freq(tx.freq) else { return Err(("not-a-channel".into(), format!("{} Hz is not an uplink channel of the plan", tx.freq))) };
        let want_bw = if ch < 64 { 125_000 } else { 500_000 };
        if tx.bw_hz != want_bw {
            return Err((format!("bandwidth-mismatch/{:?}/{}", reg, if join { "join" } else { "data" }), format!("channel {ch} ({} Hz) is a {want_bw} Hz channel but the frame uses SF{}/{} Hz", tx.freq, tx.sf, tx.bw_hz)));
        }
        if join {
            let adm = reg.fixed_join_drs(ch);
            if !adm.contains(&dr) {
                return Err((format!("join-dr/{:?}", reg), format!("join on channel {ch} at DR{dr}; the channel mandates DR {adm:?}")));
            }
        } else {
            // enabled, unless the mask leaves no channel of that bandwidth at all (then the plan's
            // defaults are restored, which is every channel)
            let range = if ch < 64 { 0..64 } else { 64..72 };
            let any = range.clone().any(|c| mask_bit(s, c));
            if s.plan.channel_mask != [0xFF; 9] {
                nontrivial = true;
            }
            if any && !mask_bit(s, ch) {
                return Err(("disabled-channel/fixed".into(), format!("data frame on channel {ch} ({} Hz) which the mask {} disables", tx.freq, hex(&s.plan.channel_mask))));
            }
        }
    } else {
        let defaults = reg.default_channels();
        if join {
            if !defaults.contains(&tx.freq) {
                return Err(("join-channel/dynamic".into(), format!("join request on {} Hz, the join channels are {defaults:?}", tx.freq)));
            }
        } else {
            let usable: Vec<u32> = (0..16).filter(|c| mask_bit(s, *c)).filter_map(|c| s.plan.channels[c].map(|ch| ch.frequency)).collect();
            let adm = if usable.is_empty() { defaults.clone() } else { usable };
            if s.plan.channels.iter().flatten().count() != defaults.len() || s.plan.channel_mask[..2] != [0xFF, 0xFF] {
                nontrivial = true;
            }
            if !adm.contains(&tx.freq) {
                return Err(("disabled-channel/dynamic".into(), format!("data frame on {} Hz; defined and enabled channels are {adm:?}", tx.freq)));
            }
        }
    }
    Ok(nontrivial)
}

pub fn judge(h: &History, recs: &[StepRec]) -> Result<u32, Failure> {
    let reg = Reg::from_name(h.cfg.region.name()).unwrap();
    let case = || h.json();
    let (p, g) = h.cfg.board;
    let mut nt = 0;
    // the network's own view of "the level it last commanded": the EIRP of the TXPower index (other
    // than 15 = keep) of the last LinkADRReq block the device acknowledged completely, decoded from
    // its answers with the reference codec — not read back from the device. None = nothing commanded
    // in this session yet, or the view was lost (answers dropped, radio fault).
    let fixed = reg.fixed();
    let mut net_level: Option<i32> = None;
    let mut awaiting: Option<Vec<super::c08::Req>> = None;
    for r in recs {
        if matches!(r.step, Step::Join(_) | Step::JoinAbp | Step::SetSession { .. }) || r.trace.iter().any(|e| matches!(e, Ev::Fault(_))) {
            net_level = None;
            awaiting = None;
        }
        if let Some(reqs) = awaiting.take() {
            if let Some(t) = r.txs.iter().find(|t| !t.join) {
                let answers: Vec<u8> = match &t.view {
                    Some(v) if v.fport == Some(0) => t.plain.clone().unwrap_or_default(),
                    Some(v) => v.fopts.clone(),
                    None => vec![],
                };
                let (ans, _) = verif_core::oracle::refcodec::split_cmds(&answers, true);
                let exp = super::c08::expected_answers(&reqs, fixed);
                let mut lost = ans.len() < exp.len() || exp.iter().zip(ans.iter()).any(|(e, a)| e.0 != a.0);
                if !lost {
                    let mut i = 0;
                    while i < exp.len() {
                        if exp[i].0 == 0x03 {
                            let mut j = i;
                            while j + 1 < exp.len() && exp[j + 1].0 == 0x03 && exp[j + 1].1 == exp[j].1 + 1 {
                                j += 1;
                            }
                            if let (Some(bits), super::c08::Req::LinkAdr { txp, .. }) = (ans[i].1.first(), &reqs[exp[j].1]) {
                                if *bits == 0x07 && *txp != 15 {
                                    match reg.tx_power_eirp(*txp) {
                                        Some(e) => net_level = Some(e as i32),
                                        None => lost = true,
                                    }
                                }
                            }
                            i = j + 1;
                        } else {
                            i += 1;
                        }
                    }
                }
                if lost {
                    net_level = None;
                }
            } else {
                awaiting = Some(reqs); // no uplink in this record (idle listening): still owed
            }
        }
        if let Outcome::Panic(pm) = &r.outcome {
            if pm.contains(HANG_MSG) {
                return Err(Failure::new("selection-terminates", case(), format!("channel selection did not terminate within the RNG budget\n{}", render(recs, 3))).with_fp("selection-hang"));
            }
            break;
        }
        let join = matches!(r.step, Step::Join(_));
        for t in &r.txs {
            match check_channel(reg, &r.snap_before, &t.rf, join) {
                Ok(n) => nt += n as u32,
                Err((fp, d)) => return Err(Failure::new("tx-legal", case(), format!("step {}.{}: {d}\n{}", r.index, r.sub, render(std::slice::from_ref(r), 1))).with_fp(fp)),
            }
            // power
            let pw = t.pw as i32;
            let mut limits: Vec<(i32, &str)> = vec![(p as i32, "the radio's maximum"), (reg.max_eirp_floor() - g as i32, "regional maximum EIRP less antenna gain")];
            if !join {
                if let Some(c) = r.snap_before.tx_power {
                    limits.push((c as i32, "the level the network last commanded"));
                    nt += 1;
                }
            }
            if !join {
                if let Some(l) = net_level {
                    limits.push((l, "the level the network last commanded (network view)"));
                    nt += 1;
                }
            }
            for (l, what) in limits {
                if pw > l {
                    return Err(Failure::new("tx-power", case(), format!("step {}.{}: conducted power {pw} dBm exceeds {what} ({l} dBm); board max {p} dBm, gain {g} dBi, commanded {:?}\n{}", r.index, r.sub, r.snap_before.tx_power, render(std::slice::from_ref(r), 1))).with_fp(format!("power-above/{}", what.split(' ').take(3).collect::<Vec<_>>().join("-"))));
                }
            }
        }
        // requests accepted in RX1/RX2 of this record are answered by the next uplink
        if let Some(d) = r.deliveries.iter().find(|d| matches!(d.slot, Slot::Rx1 | Slot::Rx2) && matches!(d.verdict, Verdict::Accept { .. })) {
            if let Verdict::Accept { fopts, fport, plain, .. } = &d.verdict {
                let mut reqs = super::c08::parse_reqs(fopts);
                if *fport == Some(0) {
                    if !reqs.is_empty() {
                        reqs.push(super::c08::Req::Silent(0)); // two command streams: blocks do not span them
                    }
                    reqs.extend(super::c08::parse_reqs(plain));
                }
                awaiting = if reqs.iter().any(|q| matches!(q, super::c08::Req::LinkAdr { .. })) { Some(reqs) } else { None };
            }
        }
        if r.deliveries.iter().any(|d| matches!(d.verdict, Verdict::SizeDontCare)) {
            net_level = None;
            awaiting = None;
        }
    }
    Ok(nt)
}

/// Every outcome of the channel selector in the current state (the harness owns the RNG).
fn enumerate(w: &World, reg: Reg, h: &History, st: &mut Stats) -> Result<(), Failure> {
    let _watch = w.watch();
    let snap = w.front.snapshot();
    for join in [false, true] {
        // first draws: every value of the bits a selector can look at (0..71) and the values at the limits
        // of the type (a scaled draw `r * n / MAX` or `r / (MAX / n)` goes out of range only there)
        for first in (0..72u32).chain([u32::MAX, u32::MAX - 1, u32::MAX - 71, 0x8000_0000, 0x7FFF_FFFF, 0xFFFF_0000, 0x0001_0000]) {
            // third variant: an entropy source that dwells on the first value for 600 draws (a rejection
            // loop then simply needs that many draws; any other way out of the loop must still respect
            // the mask)
            for second in [0u32, 0x9E3779B9, 1] {
                let script = if second == 1 { vec![first; 600] } else { vec![first, second.wrapping_add(first.wrapping_mul(7)), first ^ 0x2A] };
                let mut rng = DryRng::new(script, 7 + first as u64);
                let front = &w.front;
                let o = match catch(|| front.tx_outcome(&mut rng, join)) {
                    Ok(o) => o,
                    Err(pm) => {
                        if pm.contains(HANG_MSG) {
                            return Err(Failure::new("selection-terminates", h.json(), format!("channel selector (join={join}, first draw {first}) did not terminate within the RNG budget in state {}", snapshot_json(&snap))).with_fp("selection-hang"));
                        }
                        // a data-frame dry run for a data rate the plan cannot serve is C04's business
                        continue;
                    }
                };
                st.eval();
                st.class("selector-outcome");
                let tx = Rf::from_parts(o.frequency, &o.bb, 0);
                match check_channel(reg, &snap, &tx, join) {
                    Ok(n) => {
                        if n {
                            st.nt_hash(fnv64(format!("{:?}{}{}{:?}", tx, join, hex(&snap.plan.channel_mask), h.cfg.region).as_bytes()));
                        }
                    }
                    Err((fp, d)) => return Err(Failure::new("tx-legal", h.json(), format!("channel selector outcome (join={join}, first draw {first}): {d}; state {}", snapshot_json(&snap))).with_fp(fp)),
                }
            }
        }
    }
    Ok(())
}

fn run_one(h: &History, st: &mut Stats, class: &str) -> Result<(), Failure> {
    st.eval();
    st.class(class);
    // run step by step so that every reached state is enumerated
    let mut w = World::new(h).map_err(|e| Failure::new("harness", h.json(), e))?;
    let reg = Reg::from_name(h.cfg.region.name()).unwrap();
    let mut recs = vec![];
    for (i, s) in h.steps.iter().enumerate() {
        recs.extend(w.step(i, s));
        if w.dead {
            break;
        }
        if matches!(s, Step::Send { .. } | Step::Join(_)) {
            enumerate(&w, reg, h, st)?;
        }
    }
    let nt = judge(h, &recs)?;
    if nt > 0 {
        st.nt_hash(hash_value(&h.json()));
        if st.want_sample() && st.evaluations % 307 == 5 {
            st.sample(h.json());
        }
    }
    Ok(())
}

pub fn replay(case: &Value, _kf: &KnownFindings) -> Result<(), Failure> {
    let h = super::cross::case_history(case);
    let mut st = Stats::new();
    run_one(&h, &mut st, "replay")
}

pub fn history_strategy() -> impl Strategy<Value = History> {
    (c08::history_strategy(), gen::cfg_strategy(), proptest::collection::vec(any::<u32>(), 0..5)).prop_flat_map(|(mut h, cfg2, script)| {
        // C08's plan-changing histories, on every board and with join bias; plus re-joins with CFLists
        if h.cfg.front.buf_size() == 256 && h.cfg.front.queue_depth() == 4 {
            h.cfg.board = cfg2.board; // small radio buffers and depth-1 queues exist for board (14, 0) only
        }
        if h.cfg.region.fixed() {
            h.cfg.join_bias = cfg2.join_bias.or(if cfg2.region.fixed() { None } else { Some((1 + (cfg2.board.0 % 8), 1)) });
        }
        h.rng_script = script;
        let reg = Reg::from_name(h.cfg.region.name()).unwrap();
        (Just(h), proptest::collection::vec((any::<u16>(), prop_oneof![2 => gen::join_accept_strategy(reg, true).prop_map(|r| Step::Join(RxPlan::rx1(r))), 1 => Just(Step::Join(RxPlan::default())), 2 => (95u16..135).prop_map(Step::Silence), 1 => gen::uplink_dr_strategy(reg).prop_map(Step::SetDr)]), 0..3)).prop_map(|(mut h, extra)| {
            for (pos, s) in extra {
                let at = (pos as usize * (h.steps.len() + 1)) >> 16;
                h.steps.insert(at, s);
            }
            h
        })
    })
}

pub fn run(ctx: &mut Ctx) {
    ctx.rule = "proptest histories that change channel plans (JoinAccept CFLists of both types, LinkADRReq masks with every ChMaskCntl, NewChannelReq create/delete, DlChannelReq, >= 96-uplink silences for ADR back-off, re-joins, set_datarate) in 9 regions x join-bias settings x 5 board (MAX_RADIO_POWER, ANTENNA_GAIN) combinations x nb/async/async+ClassC; after every transaction the hook runs the real channel selector on a clone of the region state for every first-draw value 0..71 x 2 second-draw streams, for data and for join frames, under the RNG budget; every real transmission is judged as well (frequency, SF/BW, conducted power against the snapshot before it). Non-trivial: state whose plan or mask differs from the region default, a join on a fixed plan, or a transmission with a commanded power level; distinct by hash".into();
    ctx.assumptions = vec![
        "non-termination has two detectors: the RNG draw budget per API call (10 000 draws; a rejection-sampling loop without an accepted value) and the non-termination monitor (a step or selector enumeration that stays open for 20 s of wall-clock time while its thread burns 10 s of CPU: a loop that draws no random numbers); both produce a replayable history".into(),
        "channel plan, mask and commanded power are read from the verif-hooks snapshot before the transmission (C08 judges that the snapshot follows the negotiation)".into(),
        "when the mask leaves no usable channel the device may restore the regional defaults (LoRaMac-node behaviour); per-channel data-rate ranges are not judged; AU915 125 kHz joins may use DR0 or DR2".into(),
        "power: conducted power <= MAX_RADIO_POWER, <= regional MaxEIRP - antenna gain, <= EIRP of the last acknowledged TXPower index".into(),
    ];
    let seed = ctx.seed;
    let thorough = ctx.tier == Tier::Thorough;
    let cases = ctx.tier.pick(30_000u32, 400_000);
    let nthreads = ctx.threads as u32;
    ctx.parallel(|ti, _n, st| {
        let f = run_proptest(history_strategy(), cases / nthreads + 1, seed ^ 0xC09 ^ ((ti as u64) << 36), st, |h, st| run_one(h, st, "history"));
        if let Some(f) = f {
            st.fail(f);
        }
    });
    // dynamic plans: every single-channel mask on every channel index (the only usable channel is the
    // one just created), and every pair "highest defined index x lowest enabled index"
    ctx.parallel(|ti, n, st| {
        let mut k = 0usize;
        for region in REGIONS.iter().filter(|r| !r.fixed()) {
            let reg = Reg::from_name(region.name()).unwrap();
            let f = gen::freq_set(reg)[4];
            let nd = reg.default_channels().len() as u8;
            for front in [FrontKind::Async, FrontKind::Nb] {
                for hi in nd..16u8 {
                    for only in 0..=hi {
                        k += 1;
                        if k % n != ti {
                            continue;
                        }
                        let mut cmds = vec![crate::drive::net::Cmd::NewChannelReq { idx: hi, freq: f, dr_range: 0x50 }];
                        if only >= nd && only != hi {
                            cmds.push(crate::drive::net::Cmd::NewChannelReq { idx: only, freq: f + 200_000, dr_range: 0x50 });
                        }
                        cmds.push(crate::drive::net::Cmd::LinkAdrReq { dr: 15, txp: 15, mask: 1u16 << only, cntl: 0, nbtrans: 1 });
                        let h = History { cfg: DevCfg { region: *region, join_bias: None, front, board: (14, 0) }, activation: Activation::Abp { fcnt_up: 0, fcnt_down: None }, board: Board::default(), rng_script: vec![], rng_seed: seed ^ k as u64,
                            steps: vec![Step::Send { port: 1, len: 1, confirmed: false, rx: RxPlan::rx1(crate::drive::net::Recipe::auth_cmds(1, cmds)) }, Step::Send { port: 1, len: 1, confirmed: false, rx: RxPlan::default() }, Step::Send { port: 1, len: 1, confirmed: false, rx: RxPlan::default() }] };
                        if let Err(f) = run_one(&h, st, "single-channel-mask") {
                            st.fail(f);
                        }
                    }
                }
            }
        }
    });
    // dynamic plans: a re-join whose CFList removes channels that the surviving mask still names
    ctx.parallel(|ti, n, st| {
        let mut j = 0usize;
        for region in REGIONS.iter().filter(|r| !r.fixed()) {
            for front in [FrontKind::Async, FrontKind::Nb] {
                for k in 0..31 * 32 {
                    j += 1;
                    if j % n != ti || (!thorough && k % 4 != 1) {
                        continue;
                    }
                    let h = gen::rejoin_cflist_history(*region, front, seed, k);
                    if let Err(f) = run_one(&h, st, "rejoin-cflist-removes-channels") {
                        st.fail(f);
                    }
                }
            }
        }
    });
    // frequency tables of the fixed plans, entry by entry, through forced join sequences
    ctx.parallel(|ti, n, st| {
        for (k, region) in [RegionId::Us915, RegionId::Au915].iter().enumerate() {
            for sb in 0..=8u8 {
                if (k * 9 + sb as usize) % n != ti {
                    continue;
                }
                let h = History { cfg: DevCfg { region: *region, join_bias: if sb == 0 { None } else { Some((sb, 2)) }, front: FrontKind::Async, board: (30, 3) }, activation: Activation::Otaa, board: Board::default(), rng_script: vec![], rng_seed: seed ^ sb as u64,
                    steps: (0..80).map(|_| Step::Join(RxPlan::default())).collect() };
                if let Err(f) = run_one(&h, st, "join-sequence") {
                    st.fail(f);
                }
            }
        }
    });
    // ---- cross-generator stage (see props/cross.rs)
    ctx.rule.push_str(super::cross::CROSS_RULE);
    let cross_cases = ctx.tier.pick(super::cross::QUICK_PER_GEN, super::cross::THOROUGH_PER_GEN);
    super::cross::stage(ctx, "C09", cross_cases);
}
