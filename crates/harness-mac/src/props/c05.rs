//! C05 — a downlink is accepted iff it is authentic and fresh (replay protection).

use crate::drive::fronts::*;
use crate::drive::history::*;
use crate::drive::net::*;
use crate::drive::*;
use serde_json::{json, Value};
use verif_core::oracle::refregion::Reg;
use verif_core::proptest::prelude::*;
use verif_core::*;

const BOUNDARIES: [u64; 7] = [0, 0xFFFF, 0x10000, 0x7FFF_FFFF, 0x8000_0000, 0xFFFF_0000, 0xFFFF_FFFF];

fn arith_case(last: Option<u32>, wire: u16) -> Value {
    json!({"kind":"arith","last":last,"wire":wire})
}

fn arith_one(last: Option<u32>, wire: u16) -> Result<(), Failure> {
    let got = lorawan_device::mac::verif_next_fcnt_down(last, wire);
    let want = fresh_counter(last, wire);
    if got != want {
        let fp = match (want, got) {
            (None, Some(_)) => "counter-rule/accepts-stale-or-far",
            (Some(_), None) => "counter-rule/rejects-fresh",
            _ => "counter-rule/wrong-value",
        };
        return Err(Failure::new("counter-rule", arith_case(last, wire), format!("last={last:?} wire={wire}: device reconstructs {got:?}, the rule last < N <= last+16384, N = wire (mod 2^16) gives {want:?}")).with_fp(fp));
    }
    Ok(())
}

/// Judge over a history: device acts on a frame exactly when the reference verdict is Accept.
pub fn judge(h: &History, recs: &[StepRec]) -> Result<(bool, bool), Failure> {
    let case = || h.json();
    let mut any_accept = false;
    let mut any_fresh_reject = false;
    let mut last_n: Option<u32> = None;
    // the application may leave received payloads in the device's queue (SetDrain): what is taken out later
    // is then a mix of several transactions (and a full queue drops payloads), so payloads are compared only
    // for transactions after which the queue was emptied and before which it was empty
    let mut steps_seen = 0usize;
    let mut drain = true;
    let mut queue_dirty = false;
    for r in recs {
        while steps_seen <= r.index && steps_seen < h.steps.len() {
            if let Step::SetDrain(b) = &h.steps[steps_seen] {
                drain = *b;
            }
            steps_seen += 1;
        }
        // only transactions take payloads out (the records of JoinAbp / SetSession do not)
        let drains_here = drain && !matches!(r.step, Step::JoinAbp | Step::SetSession { .. });
        let compare_payloads = drains_here && !queue_dirty;
        if drains_here {
            queue_dirty = false;
        } else if !drain {
            queue_dirty = true;
        }
        if r.outcome.is_panic() {
            break;
        }
        if r.deliveries.iter().any(|d| matches!(d.verdict, Verdict::SizeDontCare)) {
            return Ok((any_accept, any_fresh_reject)); // not judged beyond this point
        }
        if matches!(r.step, Step::Join(_) | Step::JoinAbp | Step::SetSession { .. }) {
            last_n = None;
            continue;
        }
        // a radio fault ends the transaction with an error: its response and the payload hand-over are
        // not judged, but every frame that was handed to the device before the fault was decided, and
        // the history goes on afterwards
        let faulted = r.trace.iter().any(|e| matches!(e, Ev::Fault(_)));
        // model: counter after this transaction
        let mut model_last = r.deliveries.first().map(|d| d.last_before).unwrap_or(None);
        let mut have_model = !r.deliveries.is_empty();
        let mut expected_dl: Vec<(u8, Vec<u8>)> = vec![];
        let mut class_a_accept: Option<u32> = None;
        let mut ended_by_oversize = false;
        for d in &r.deliveries {
            match &d.verdict {
                Verdict::Accept { n, fport, plain, .. } => {
                    any_accept = true;
                    model_last = Some(*n);
                    if let Some(p) = fport {
                        if *p != 0 {
                            expected_dl.push((*p, plain.clone()));
                        }
                    }
                    if matches!(d.slot, Slot::Rx1 | Slot::Rx2) {
                        class_a_accept = Some(*n);
                    }
                    if let Some(l) = last_n {
                        if *n <= l {
                            return Err(Failure::new("harness", case(), "reference model accepted a non-increasing counter"));
                        }
                    }
                    last_n = Some(*n);
                }
                Verdict::Reject(why) => {
                    if *why == "counter not fresh" {
                        any_fresh_reject = true;
                    }
                }
                Verdict::Oversize => {
                    if matches!(d.slot, Slot::Rx1 | Slot::Rx2) {
                        ended_by_oversize = true;
                    }
                }
                _ => {}
            }
        }
        let _ = ended_by_oversize;
        // device side
        let dev_last = r.session_after.as_ref().map(|s| s["fcnt_down"].as_u64().map(|x| x as u32));
        if have_model {
            if let Some(dev_last) = dev_last {
                if dev_last != model_last {
                    let fp = match (dev_last, model_last) {
                        (Some(a), Some(b)) if a > b => "accepted-frame-that-must-be-rejected",
                        (Some(_), None) => "accepted-frame-that-must-be-rejected",
                        _ => "rejected-frame-that-must-be-accepted",
                    };
                    let oversz = r.deliveries.iter().any(|d| matches!(d.verdict, Verdict::Oversize));
                    let fp = if oversz && fp == "accepted-frame-that-must-be-rejected" { format!("{fp}/oversize/{}", h.cfg.region.name()) } else { fp.to_string() };
                    return Err(Failure::new("accept-iff", case(), format!("after step {}: device remembers downlink counter {dev_last:?}, the reference model (authentic + fresh + fits) says {model_last:?}\n{}", r.index, render(recs, 4))).with_fp(fp));
                }
            }
        } else {
            have_model = false;
        }
        let _ = have_model;
        if faulted {
            continue;
        }
        // response of the transaction
        if let Some(n) = class_a_accept {
            let ok = match &r.outcome {
                Outcome::Resp(s) => *s == format!("DownlinkReceived({n})") || s == "SessionExpired",
                _ => false,
            };
            if !ok {
                return Err(Failure::new("response", case(), format!("step {}: frame with counter {n} accepted in a Class A window but the transaction ended with {}\n{}", r.index, r.outcome.text(), render(recs, 4))).with_fp("response/accepted-not-reported"));
            }
        } else if let Outcome::Resp(s) = &r.outcome {
            if s.starts_with("DownlinkReceived") && !matches!(r.step, Step::RxcListen(_)) {
                return Err(Failure::new("response", case(), format!("step {}: {} reported although no frame delivered in a Class A window had to be accepted\n{}", r.index, s, render(recs, 4))).with_fp("response/reported-without-accept"));
            }
        }
        if let (Step::RxcListen(_), Outcome::Resp(s)) = (&r.step, &r.outcome) {
            if let Some(n) = s.strip_prefix("DownlinkReceived(").and_then(|x| x.strip_suffix(')')).and_then(|x| x.parse::<u32>().ok()) {
                if !r.deliveries.iter().any(|d| matches!(&d.verdict, Verdict::Accept { n: m, .. } if *m == n)) {
                    return Err(Failure::new("response", case(), format!("rxc_listen reported DownlinkReceived({n}) for a frame that must be rejected")).with_fp("response/reported-without-accept"));
                }
            }
        }
        // payloads handed to the application (the queue holds D = 4 or 1; compare when it cannot have
        // overflowed — which payloads survive an overflow is the queue's business, but nothing else
        // may come out of it)
        let depth = h.cfg.front.queue_depth();
        if compare_payloads && expected_dl.len() > depth && r.session_after.is_some() {
            let mut want = expected_dl.clone();
            let all_known = r.downlinks.iter().all(|g| want.iter().position(|w| w == g).map(|i| want.remove(i)).is_some());
            if !all_known || r.downlinks.len() > depth || r.downlinks.is_empty() {
                return Err(Failure::new("payload", case(), format!("step {}: {} payloads were accepted into a queue of depth {depth}; the application received {:?}, reference decryption gives {:?}", r.index, expected_dl.len(), r.downlinks.iter().map(|(p, d)| (p, hex(d))).collect::<Vec<_>>(), expected_dl.iter().map(|(p, d)| (p, hex(d))).collect::<Vec<_>>())).with_fp("payload-mismatch/overflowed-queue"));
            }
        }
        if compare_payloads && expected_dl.len() <= depth && r.session_after.is_some() {
            let mut got = r.downlinks.clone();
            let mut want = expected_dl.clone();
            got.sort();
            want.sort();
            if got != want {
                return Err(Failure::new("payload", case(), format!("step {}: application received {:?}, reference decryption with the accepted counters gives {:?}", r.index, got.iter().map(|(p, d)| (p, hex(d))).collect::<Vec<_>>(), want.iter().map(|(p, d)| (p, hex(d))).collect::<Vec<_>>())).with_fp("payload-mismatch"));
            }
        }
    }
    Ok((any_accept, any_fresh_reject))
}

fn c05_recipe() -> impl Strategy<Value = Recipe> {
    prop_oneof![
        6 => (prop_oneof![4 => Just(1i64), 2 => Just(2i64), 1 => Just(16383i64), 2 => Just(16384i64)], any::<bool>(), proptest::option::of(1u8..=223), 0u8..30).prop_map(|(delta, confirmed, port, payload_len)| Recipe::Auth { delta, confirmed, port, payload_len, fopts: vec![], frm_cmds: vec![], ack: false, fpending: false }),
        3 => any::<u16>().prop_map(Recipe::Replay),
        2 => (prop_oneof![Just(0i64), Just(-1i64), Just(-5i64), Just(-16384i64), Just(-65536i64)], any::<bool>()).prop_map(|(delta, confirmed)| Recipe::Auth { delta, confirmed, port: Some(3), payload_len: 2, fopts: vec![], frm_cmds: vec![], ack: false, fpending: false }),
        3 => prop_oneof![Just(16385i64), Just(65535i64), Just(65536i64), Just(65537i64), Just(70000i64)].prop_map(|delta| Recipe::Auth { delta, confirmed: false, port: Some(3), payload_len: 2, fopts: vec![], frm_cmds: vec![], ack: false, fpending: false }),
        2 => any::<bool>().prop_map(|plus| Recipe::WrongEpoch { plus }),
        2 => (any::<u16>(), any::<bool>()).prop_map(|(bit, with_cmds)| Recipe::BitFlip { bit, with_cmds }),
        1 => any::<bool>().prop_map(|same_addr| Recipe::Foreign { same_addr }),
        2 => (any::<bool>(), 0u8..3).prop_map(|(authentic, excess)| Recipe::Oversize { authentic, excess }),
        2 => any::<bool>().prop_map(|confirmed| Recipe::MaxFit { confirmed }),
        1 => proptest::collection::vec(any::<u8>(), 12..30).prop_map(Recipe::Random),
    ]
}

pub fn history_strategy() -> impl Strategy<Value = History> {
    let lasts = prop_oneof![
        2 => Just(None),
        1 => Just(Some(0u32)),
        2 => (0xFFFCu32..=0x10002).prop_map(Some),
        1 => Just(Some(0x1FFFFu32)),
        1 => Just(Some(0xFFFF_FFFFu32 - 16385)),
        2 => (0xFFFF_FFF0u32..=0xFFFF_FFFE).prop_map(Some),
        1 => any::<u32>().prop_map(Some),
    ];
    (0usize..3, 0usize..9, lasts, any::<u64>()).prop_flat_map(|(fk, ri, last, seed)| {
        let front = [FrontKind::Nb, FrontKind::Async, FrontKind::AsyncClassC][fk];
        let class_c = front == FrontKind::AsyncClassC;
        let region = REGIONS[ri];
        let reg = Reg::from_name(region.name()).unwrap();
        let slot = || prop_oneof![2 => Just(vec![]), 3 => proptest::collection::vec(c05_recipe(), 1..=2)].boxed();
        let gap = move || if class_c { prop_oneof![3 => Just(vec![]), 1 => proptest::collection::vec(c05_recipe(), 1..=2)].boxed() } else { Just(vec![]).boxed() };
        let plan = (gap(), slot(), gap(), slot()).prop_map(|(gap1, rx1, gap2, rx2)| RxPlan { gap1, rx1, gap2, rx2, fault_at: None });
        let mut sv: Vec<(u32, BoxedStrategy<Step>)> = vec![
            (8, (1u8..=200, 0u8..10, any::<bool>(), plan).prop_map(|(port, len, confirmed, rx)| Step::Send { port, len, confirmed, rx }).boxed()),
            (1, crate::gen::uplink_dr_strategy(reg).prop_map(Step::SetDr).boxed()),
        ];
        if class_c {
            sv.push((2, proptest::collection::vec(c05_recipe(), 0..3).prop_map(Step::RxcListen).boxed()));
        }
        proptest::collection::vec(proptest::strategy::Union::new_weighted(sv), 1..=10).prop_map(move |steps| History {
            cfg: DevCfg { region, join_bias: None, front, board: (14, 0) },
            activation: Activation::Abp { fcnt_up: 5, fcnt_down: last },
            board: Board::default(),
            rng_script: vec![],
            rng_seed: seed,
            steps,
        })
    })
}

pub const KF_EU433_DR2: &str = "C05-eu433-dr2-max-payload";

pub fn replay(case: &Value, _kf: &KnownFindings) -> Result<(), Failure> {
    if case["kind"] == "arith" {
        return arith_one(case["last"].as_u64().map(|x| x as u32), case["wire"].as_u64().unwrap_or(0) as u16);
    }
    let h = super::cross::case_history(case);
    let (_, recs) = run_history(&h).map_err(|e| Failure::new("harness", h.json(), e))?;
    judge(&h, &recs).map(|_| ())
}

pub fn run(ctx: &mut Ctx) {
    let thorough = ctx.tier == Tier::Thorough;
    ctx.rule = format!("(a) counter arithmetic through the hook: all 65536 wire values x last in {{None}} + every value within +-70000 of {{0, 0xFFFF, 0x10000, 2^31-1, 2^31, 0xFFFF0000, 2^32-1}} ({}), plus random last values, against the rule 'unique N = wire (mod 2^16) with last < N <= last+16384'; (b) proptest device histories: ABP sessions whose accepted counter starts at None/0/0xFFFC..0x10002/0x1FFFF/2^32-16386/2^32-16..2^32-2/random, 1..10 transactions with deliveries in RX1/RX2/Class C gaps/idle drawn from fresh (delta 1,2,16383,16384), replayed, reordered, far-future (16385,65535,65536,65537), wrong-epoch MIC, bit-flipped, foreign, oversize (M+5+1..) and exactly-fitting (M+5) frames; nb, async, async+ClassC; 9 regions. (d) an authentic frame in RX1/RX2 for every RX1DROffset 0..7 x every uplink data rate x 9 regions x nb/async (windows whose nominal data rate the region does not define included); (c) authentic frames of N-2, N-1 and N bytes delivered to devices whose radio buffer holds N = 64 / 255 bytes (RX1, RX2, Class C gap and idle listening; default and highest uplink data rate; 9 regions). Oracle: reference codec + the statement's rule decide accept/reject per delivered frame; device's remembered counter, responses and delivered payloads must match. Non-trivial: (a) pairs with wire within +-16400 of last mod 2^16 or crossing an epoch; (b) histories with >= 1 accepted frame and >= 1 frame rejected for freshness with a valid MIC", if thorough { "every value" } else { "stride 257" });
    ctx.exhaustive = thorough;
    ctx.assumptions = vec![
        "maximum frame size per data rate from RP002-1.0.3 (refregion); cells that differ between RP002 revisions are not judged".into(),
        "a frame of an uplink message type whose MIC verifies counts as authentic (the statement speaks of the frame's own direction)".into(),
    ];
    let seed = ctx.seed;
    // (a)
    let stride: u64 = if thorough { 1 } else { 257 };
    ctx.parallel(|ti, n, st| {
        let mut rng = SplitMix::new(seed ^ 0xC05A ^ ti as u64);
        let mut lasts: Vec<Option<u32>> = vec![];
        if ti == 0 {
            lasts.push(None);
        }
        for (bi, b) in BOUNDARIES.iter().enumerate() {
            let lo = b.saturating_sub(70_000);
            let hi = (b + 70_000).min(u32::MAX as u64);
            let mut v = lo + ((ti as u64 + bi as u64 * 3) % stride);
            let mut k = 0u64;
            while v <= hi {
                if (k % n as u64) == ti as u64 || stride > 1 {
                    if stride == 1 || (k % n as u64) == ti as u64 {
                        lasts.push(Some(v as u32));
                    }
                }
                v += stride;
                k += 1;
            }
        }
        for _ in 0..(if thorough { 20_000 } else { 2_000 }) / n {
            lasts.push(Some(rng.next_u32()));
        }
        for last in lasts {
            for wire in 0..=0xFFFFu32 {
                st.evaluations += 1;
                let w = wire as u16;
                if let Some(l) = last {
                    let d = (wire as i64 - (l & 0xFFFF) as i64).rem_euclid(65536);
                    if d <= 16400 || d >= 65536 - 16400 {
                        st.nt_counted += 1;
                    }
                }
                if let Err(f) = arith_one(last, w) {
                    st.fail(f);
                }
            }
        }
    });
    // (c) frames that fill the device's radio buffer exactly (buffer sizes 64 and 255 instead of 256):
    // what the radio hands over must reach the MAC unshortened
    ctx.parallel(|ti, n, st| {
        let mut k = 0usize;
        for (front, size) in [(FrontKind::AsyncBuf64, 64usize), (FrontKind::AsyncBuf255, 255)] {
            for region in REGIONS {
                let reg = Reg::from_name(region.name()).unwrap();
                let top_dr = (0..16u8).filter(|d| reg.is_uplink_dr(*d)).max().unwrap_or(0);
                for total in [size - 2, size - 1, size] {
                    for place in 0..4u8 {
                        for confirmed in [false, true] {
                            for fast in [false, true] {
                                k += 1;
                                if k % n != ti {
                                    continue;
                                }
                                let frame = Recipe::Auth { delta: 1, confirmed, port: Some(5), payload_len: (total - 13) as u8, fopts: vec![], frm_cmds: vec![], ack: false, fpending: false };
                                let quiet = Step::Send { port: 9, len: 1, confirmed: false, rx: RxPlan::default() };
                                let mut steps = vec![];
                                if fast {
                                    steps.push(Step::SetDr(top_dr));
                                }
                                match place {
                                    0 => steps.push(Step::Send { port: 9, len: 1, confirmed: false, rx: RxPlan::rx1(frame) }),
                                    1 => steps.push(Step::Send { port: 9, len: 1, confirmed: false, rx: RxPlan::rx2(frame) }),
                                    2 => steps.push(Step::Send { port: 9, len: 1, confirmed: false, rx: RxPlan { gap1: vec![frame], ..Default::default() } }),
                                    _ => {
                                        steps.push(quiet.clone());
                                        steps.push(Step::RxcListen(vec![frame]));
                                    }
                                }
                                steps.push(quiet);
                                let h = History { cfg: DevCfg { region, join_bias: None, front, board: (14, 0) }, activation: Activation::Abp { fcnt_up: 5, fcnt_down: None }, board: Board::default(), rng_script: vec![], rng_seed: seed ^ k as u64, steps };
                                st.eval();
                                st.class("radio-buffer-boundary");
                                match run_history(&h) {
                                    Err(e) => st.fail(Failure::new("harness", h.json(), e)),
                                    Ok((_, recs)) => match judge(&h, &recs) {
                                        Ok((acc, _)) => {
                                            if acc {
                                                st.class(if total == size { "frame-fills-radio-buffer-accepted" } else { "frame-near-radio-buffer-accepted" });
                                                st.nt_hash(hash_value(&h.json()));
                                            }
                                        }
                                        Err(f) => st.fail(f),
                                    },
                                }
                            }
                        }
                    }
                }
            }
        }
    });
    // (d) an authentic, fresh frame in every receive window the regional parameters can produce:
    // every RX1DROffset 0..7 (negotiated by RXParamSetupReq; offsets the region does not define are
    // refused and change nothing) x every uplink data rate x RX1/RX2, incl. the windows whose nominal
    // data rate the region does not define (the device falls back to another one)
    ctx.parallel(|ti, n, st| {
        let mut k = 0usize;
        for region in REGIONS {
            let reg = Reg::from_name(region.name()).unwrap();
            let (f2, dr2) = reg.rx2_default();
            let drs: Vec<u8> = (0..16u8).filter(|d| reg.is_uplink_dr(*d)).collect();
            for front in [FrontKind::Async, FrontKind::Nb] {
                for off in 0..8u8 {
                    for d in &drs {
                        for in_rx2 in [false, true] {
                            k += 1;
                            if k % n != ti {
                                continue;
                            }
                            let frame = Recipe::Auth { delta: 1, confirmed: false, port: Some(5), payload_len: 3, fopts: vec![], frm_cmds: vec![], ack: false, fpending: false };
                            let steps = vec![
                                Step::Send { port: 9, len: 1, confirmed: false, rx: RxPlan::rx1(Recipe::auth_cmds(1, vec![Cmd::RxParamSetupReq { dl_settings: (off << 4) | dr2, freq: f2 }])) },
                                Step::SetDr(*d),
                                Step::Send { port: 9, len: 1, confirmed: false, rx: if in_rx2 { RxPlan::rx2(frame) } else { RxPlan::rx1(frame) } },
                                Step::Send { port: 9, len: 1, confirmed: false, rx: RxPlan::default() },
                            ];
                            let h = History { cfg: DevCfg { region, join_bias: None, front, board: (14, 0) }, activation: Activation::Abp { fcnt_up: 5, fcnt_down: None }, board: Board::default(), rng_script: vec![], rng_seed: seed ^ 0xD ^ k as u64, steps };
                            st.eval();
                            st.class("window-table");
                            match run_history(&h) {
                                Err(e) => st.fail(Failure::new("harness", h.json(), e)),
                                Ok((_, recs)) => match judge(&h, &recs) {
                                    Ok((acc, _)) => {
                                        if acc && off > 0 {
                                            st.nt_hash(hash_value(&h.json()));
                                        }
                                    }
                                    Err(f) => st.fail(f),
                                },
                            }
                        }
                    }
                }
            }
        }
    });
    // (b)
    let cases = ctx.tier.pick(60_000u32, 600_000);
    let nthreads = ctx.threads as u32;
    ctx.parallel(|ti, _n, st| {
        let f = run_proptest(history_strategy(), cases / nthreads + 1, seed ^ 0xC05B ^ ((ti as u64) << 36), st, |h, st| {
            st.eval();
            st.class("device-history");
            let (_, recs) = run_history(h).map_err(|e| Failure::new("harness", h.json(), e))?;
            let (acc, rej) = judge(h, &recs)?;
            if acc {
                st.class("history-with-accept");
            }
            if rej {
                st.class("history-with-freshness-reject");
            }
            if acc && rej {
                st.nt_hash(hash_value(&h.json()));
                if st.want_sample() {
                    st.sample(h.json());
                }
            }
            Ok(())
        });
        if let Some(f) = f {
            st.fail(f);
        }
    });
    // ---- cross-generator stage (see props/cross.rs)
    ctx.rule.push_str(super::cross::CROSS_RULE);
    let cross_cases = ctx.tier.pick(super::cross::QUICK_PER_GEN, super::cross::THOROUGH_PER_GEN);
    super::cross::stage(ctx, "C05", cross_cases);
}
