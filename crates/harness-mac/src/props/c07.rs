//! C07 — frames that are not accepted change nothing (2-safety / non-interference).

use crate::drive::fronts::*;
use crate::drive::history::*;
use crate::drive::net::*;
use crate::drive::*;
use crate::gen;
use crate::props::c08;
use serde_json::{json, Value};
use verif_core::oracle::refcodec;
use verif_core::oracle::refregion::Reg;
use verif_core::proptest::prelude::*;
use verif_core::*;

fn is_rejected(v: &Verdict) -> bool {
    matches!(v, Verdict::Reject(_))
}

/// The twin history: the same run without the frames the reference model rejects.
/// Returns None when the pair cannot be judged (size don't-care, panic).
fn twin(h: &History, recs: &[StepRec]) -> Option<(History, Vec<(usize, usize)>)> {
    let mut t = h.clone();
    let mut oversize_at = vec![];
    for (i, step) in t.steps.iter_mut().enumerate() {
        let my: Vec<&StepRec> = recs.iter().filter(|r| r.index == i).collect();
        let rebuild = |slot: Slot, my: &Vec<&StepRec>, cut: &mut bool| -> Vec<Recipe> {
            let mut out = vec![];
            for r in my {
                for d in r.deliveries.iter().filter(|d| d.slot == slot) {
                    if *cut {
                        break;
                    }
                    match &d.verdict {
                        Verdict::Reject(_) => {}
                        Verdict::Oversize if matches!(slot, Slot::Rx1 | Slot::Rx2) => {
                            *cut = true;
                        }
                        Verdict::Oversize => {}
                        _ => out.push(Recipe::Bytes(d.bytes.clone())),
                    }
                }
            }
            out
        };
        match step {
            Step::Join(rx) | Step::Send { rx, .. } => {
                let mut cut = false;
                let g1 = rebuild(Slot::Gap1, &my, &mut cut);
                let r1 = rebuild(Slot::Rx1, &my, &mut cut);
                let g2 = if cut { vec![] } else { rebuild(Slot::Gap2, &my, &mut cut) };
                let r2 = if cut { vec![] } else { rebuild(Slot::Rx2, &my, &mut cut) };
                if cut {
                    oversize_at.push((i, 0));
                }
                // a radio fault of the original run belongs to the environment, not to the rejected frames: the twin
                // meets it at the same radio call
                let fault_at = rx.fault_at;
                *rx = RxPlan { gap1: g1, rx1: r1, gap2: g2, rx2: r2, fault_at };
            }
            Step::RxcListen(v) => {
                let mut cut = false;
                *v = rebuild(Slot::Idle, &my, &mut cut);
            }
            _ => {}
        }
    }
    Some((t, oversize_at))
}

fn norm(trace: &[Ev], drop_deliveries: bool) -> Vec<Ev> {
    // "no update" is the report for a frame that is not accepted; on the nb front-end a packet that does not
    // fit the device's radio buffer is reported as BufferTooSmall while the window stays open
    // (the number of a failed radio call counts from the start of the history: frames heard earlier shift it)
    trace.iter().filter(|e| !matches!(e, Ev::Resp(s) if s == "NoUpdate" || s == "Err(State(BufferTooSmall))") && !(drop_deliveries && matches!(e, Ev::Deliver { .. }))).map(|e| if let Ev::Fault(_) = e { Ev::Fault(0) } else { e.clone() }).collect()
}

pub fn judge_pair(h: &History) -> Result<(u32, bool), Failure> {
    let (mut world_p, recs_p) = run_history(h).map_err(|e| Failure::new("harness", h.json(), e))?;
    if recs_p.iter().any(|r| r.outcome.is_panic() || r.deliveries.iter().any(|d| matches!(d.verdict, Verdict::SizeDontCare))) {
        return Ok((0, false));
    }
    let n_rejected: u32 = recs_p.iter().map(|r| r.deliveries.iter().filter(|d| is_rejected(&d.verdict) || matches!(d.verdict, Verdict::Oversize)).count() as u32).sum();
    if n_rejected == 0 {
        return Ok((0, false));
    }
    // "... while the receive window stays open": Class C listening (the gaps of a transaction, idle listening
    // with a session) goes on after a frame that is not accepted, so every frame the script holds for that
    // listening period after a rejected one is heard too. The twin below is built from what was heard; a
    // device that stops listening after a rejected frame would otherwise take the later frames out of both runs.
    if h.cfg.front.is_async() {
        for a in &recs_p {
            let (plan, idle): (Option<&RxPlan>, Option<&Vec<Recipe>>) = match &a.step {
                Step::Send { rx, .. } | Step::Join(rx) => (Some(rx), None),
                Step::RxcListen(v) if a.snap_before.joined => (None, Some(v)),
                _ => (None, None),
            };
            if plan.map(|p| p.fault_at.is_some()).unwrap_or(false) || matches!(a.outcome, Outcome::Err(_) | Outcome::Panic(_)) {
                continue;
            }
            for (slot, scripted) in [(Slot::Gap1, plan.map(|p| p.gap1.len())), (Slot::Gap2, plan.map(|p| p.gap2.len())), (Slot::Idle, idle.map(|v| v.len()))] {
                let Some(scripted) = scripted else { continue };
                let heard: Vec<&DeliveryRec> = a.deliveries.iter().filter(|d| d.slot == slot).collect();
                if let Some(last) = heard.last() {
                    if heard.len() < scripted && is_rejected(&last.verdict) && !a.deliveries.iter().any(|d| matches!(d.verdict, Verdict::Oversize)) {
                        let what = match &last.verdict { Verdict::Reject(w) => w.replace(' ', "-"), _ => String::new() };
                        return Err(Failure::new("non-interference", json!({"kind": "pair", "with_rejected_frames": h.json()}), format!("step {}.{}: after the rejected frame {} ({what}) heard by Class C listening ({slot:?}) the device stopped listening: {} of the {scripted} frames on the air in that period were heard\n{}", a.index, a.sub, hex(&last.bytes), heard.len(), render(std::slice::from_ref(a), 1))).with_fp(format!("window-closed/{what}/classC")));
                    }
                }
            }
        }
    }
    let Some((t, oversize_at)) = twin(h, &recs_p) else { return Ok((0, false)) };
    let (mut world_t, recs_t) = run_history(&t).map_err(|e| Failure::new("harness", t.json(), e))?;
    let case = || json!({"kind": "pair", "with_rejected_frames": h.json()});
    // "something to lose" before the first rejected delivery?
    let mut something = false;
    for r in &recs_p {
        if r.deliveries.iter().any(|d| is_rejected(&d.verdict) && (refcodec::decode_data(&d.bytes).is_ok() || d.bytes.len() == 17 || d.bytes.len() == 33)) {
            if let Some(s) = &r.session_before {
                if s["uplink"]["pending_len"].as_u64().unwrap_or(0) > 0 || s["uplink"]["confirmed"].as_bool().unwrap_or(false) || s["adr_ack_cnt"].as_u64().unwrap_or(0) > 0 {
                    something = true;
                }
            }
        }
    }
    if recs_p.len() != recs_t.len() {
        return Err(Failure::new("non-interference", case(), format!("the run with rejected frames has {} transactions, its twin {}\nwith: {}\ntwin: {}", recs_p.len(), recs_t.len(), render(&recs_p, 6), render(&recs_t, 6))).with_fp("different-number-of-transactions"));
    }
    for (a, b) in recs_p.iter().zip(recs_t.iter()) {
        // a transaction with a radio fault in which frames were heard: a frame heard by Class C listening is one
        // more radio call, so "the same radio call" is not the same moment in the two runs; the pair is judged
        // up to here
        if matches!(&a.step, Step::Send { rx, .. } | Step::Join(rx) if rx.fault_at.is_some()) && !a.deliveries.is_empty() {
            return Ok((n_rejected, something));
        }
        let which = a.deliveries.iter().find(|d| is_rejected(&d.verdict) || matches!(d.verdict, Verdict::Oversize));
        let kind = |recs: &[StepRec], upto: usize| -> String {
            // classify the most recent rejected frame at or before this step for the fingerprint
            for r in recs[..=upto].iter().rev() {
                for d in r.deliveries.iter().rev() {
                    match &d.verdict {
                        Verdict::Reject(w) => return format!("{}/{}", w.replace(' ', "-"), if matches!(d.slot, Slot::Rx1 | Slot::Rx2) { "classA" } else { "classC" }),
                        Verdict::Oversize => return "oversize".to_string(),
                        _ => {}
                    }
                }
            }
            "none".into()
        };
        let pos = recs_p.iter().position(|r| std::ptr::eq(r, a)).unwrap();
        let fail = |what: &str, d: String| Failure::new("non-interference", case(), format!("step {}.{} differs in {what} from the twin run that never received the rejected frame(s): {d}\nwith frames: {}\ntwin:        {}", a.index, a.sub, render(std::slice::from_ref(a), 1), render(std::slice::from_ref(b), 1))).with_fp(format!("{what}/{}", kind(&recs_p, pos)));
        // transmissions (bytes, configuration)
        let txa: Vec<_> = a.txs.iter().map(|t| (t.bytes.clone(), t.pw, t.rf)).collect();
        let txb: Vec<_> = b.txs.iter().map(|t| (t.bytes.clone(), t.pw, t.rf)).collect();
        if txa != txb {
            let d = if txa.len() == txb.len() && !txa.is_empty() { format!("uplink {} vs {}", hex(&txa[0].0), hex(&txb[0].0)) } else { format!("{} vs {} transmissions", txa.len(), txb.len()) };
            return Err(fail("uplink", d));
        }
        // Class C listening on a device without a session is not a receive opportunity (the call reports
        // NotJoined as soon as anything at all is heard, and would otherwise wait forever): the
        // response of that call is outside the statement, everything after it is still compared
        let unjoined_listen = matches!(a.step, Step::RxcListen(_)) && !a.snap_before.joined;
        if a.outcome != b.outcome && !unjoined_listen {
            return Err(fail("response", format!("{} vs {}", a.outcome.text(), b.outcome.text())));
        }
        let in_oversize = oversize_at.iter().any(|(i, _)| *i == a.index);
        if !in_oversize && !unjoined_listen {
            let (na, nb) = (norm(&a.trace, true), norm(&b.trace, true));
            if na != nb {
                let k = na.iter().zip(nb.iter()).position(|(x, y)| x != y).unwrap_or(na.len().min(nb.len()));
                return Err(fail("radio-and-timer-requests", format!("first difference at event {k}: {:?} vs {:?}", na.get(k).map(|e| e.json()), nb.get(k).map(|e| e.json()))));
            }
        }
        if a.session_after != b.session_after {
            return Err(fail("session-state", format!("{} vs {}", a.session_after.clone().unwrap_or(Value::Null), b.session_after.clone().unwrap_or(Value::Null))));
        }
        if a.snap_after != b.snap_after {
            return Err(fail("mac-state", format!("{} vs {}", snapshot_json(&a.snap_after), snapshot_json(&b.snap_after))));
        }
        if a.downlinks != b.downlinks {
            return Err(fail("delivered-payloads", format!("{:?} vs {:?}", a.downlinks.len(), b.downlinks.len())));
        }
        let _ = which;
    }
    // what an application that collects lazily still finds in the downlink queue at the end
    if !world_p.dead && !world_t.dead {
        let (qa, qb) = (world_p.front.take_downlinks(), world_t.front.take_downlinks());
        if qa != qb {
            return Err(Failure::new("non-interference", case(), format!("after the last step the downlink queue holds {qa:02x?}; on the twin that never received the rejected frame(s) it holds {qb:02x?}\nwith frames: {}", render(&recs_p, 6))).with_fp("queued-payloads"));
        }
    }
    Ok((n_rejected, something))
}

pub fn replay(case: &Value, _kf: &KnownFindings) -> Result<(), Failure> {
    let h = super::cross::case_history(if case.get("with_rejected_frames").is_some() { &case["with_rejected_frames"] } else { case });
    judge_pair(&h).map(|_| ())
}

/// rejected-frame recipes (whether one really is rejected is decided by the reference model)
fn rejected_recipe(reg: Reg) -> impl Strategy<Value = Recipe> {
    prop_oneof![
        3 => crate::gen::random_bytes_strategy().prop_map(Recipe::Random),
        5 => (any::<u16>(), any::<bool>()).prop_map(|(bit, with_cmds)| Recipe::BitFlip { bit, with_cmds }),
        2 => any::<bool>().prop_map(|same_addr| Recipe::Foreign { same_addr }),
        3 => any::<u16>().prop_map(Recipe::Replay),
        2 => prop_oneof![Just(16385i64), Just(0i64), Just(-3i64), Just(70000i64)].prop_map(|delta| Recipe::Auth { delta, confirmed: true, port: Some(4), payload_len: 3, fopts: vec![Cmd::RxTimingSetupReq(7), Cmd::DevStatusReq], frm_cmds: vec![], ack: false, fpending: false }),
        1 => any::<bool>().prop_map(|plus| Recipe::WrongEpoch { plus }),
        2 => (any::<bool>(), 0u8..4).prop_map(|(authentic, excess)| Recipe::Oversize { authentic, excess }),
        2 => gen::join_accept_strategy(reg, false),
    ]
}

/// the authentic application downlink that follows a rejected frame in the same Class C listening period
fn follow_up() -> Recipe {
    Recipe::Auth { delta: 1, confirmed: false, port: Some(5), payload_len: 2, fopts: vec![], frm_cmds: vec![], ack: false, fpending: false }
}

pub fn history_strategy() -> impl Strategy<Value = History> {
    (c08::history_strategy(), proptest::collection::vec(any::<u16>(), 1..=5)).prop_flat_map(|(h, positions)| {
        let reg = Reg::from_name(h.cfg.region.name()).unwrap();
        let n = positions.len();
        (Just(h), Just(positions), proptest::collection::vec((rejected_recipe(reg), 0u8..5, any::<bool>(), any::<bool>()), n..=n), proptest::collection::vec((any::<u16>(), prop_oneof![2 => (1u16..70).prop_map(Step::Silence), 2 => any::<bool>().prop_map(Step::SetAdr), 2 => gen::join_plan_strategy(reg).prop_map(Step::Join), 3 => prop_oneof![3 => Just(false), 1 => Just(true)].prop_map(Step::SetDrain)]), 0..3))
    })
    .prop_map(|(mut h, positions, inserts, extra)| {
        for (pos, s) in extra {
            let at = (pos as usize * (h.steps.len() + 1)) >> 16;
            h.steps.insert(at, s);
        }
        let class_c = matches!(h.cfg.front, FrontKind::AsyncClassC | FrontKind::AsyncQ1 | FrontKind::AsyncSeeded);
        // insert rejected frames at receive opportunities
        for (pos, (recipe, slot, front, follow)) in positions.iter().zip(inserts) {
            let targets: Vec<usize> = h.steps.iter().enumerate().filter(|(_, s)| matches!(s, Step::Send { .. } | Step::Join(_) | Step::RxcListen(_))).map(|(i, _)| i).collect();
            if targets.is_empty() {
                continue;
            }
            let i = targets[(*pos as usize * targets.len()) >> 16];
            match &mut h.steps[i] {
                Step::Send { rx, .. } | Step::Join(rx) => {
                    let list = match (slot, class_c) {
                        (0, true) => &mut rx.gap1,
                        (1, true) => &mut rx.gap2,
                        (2, _) | (0, false) => &mut rx.rx2,
                        _ => &mut rx.rx1,
                    };
                    if front {
                        list.insert(0, recipe);
                    } else {
                        list.push(recipe);
                    }
                    // Class C gaps take several frames: in half of the insertions an authentic
                    // downlink is heard after the rejected frame in the same gap (the window "stays open")
                    if follow && class_c && slot < 2 && !list.iter().skip(1).any(|r| matches!(r, Recipe::Auth { .. })) {
                        list.push(follow_up());
                    }
                }
                Step::RxcListen(v) => {
                    if front {
                        v.insert(0, recipe)
                    } else {
                        v.push(recipe)
                    }
                    if follow && !v.iter().skip(1).any(|r| matches!(r, Recipe::Auth { .. })) {
                        v.push(follow_up());
                    }
                }
                _ => {}
            }
        }
        h
    })
}

pub fn run(ctx: &mut Ctx) {
    ctx.rule = "proptest pairs (H+, H): H+ is a history of accepted MAC-bearing downlinks, sends (also on port 0), confirmed downlinks, silences, ADR toggles and (re-)joins into which 1..5 frames from {random bytes, single-bit flips of authentic frames (header/FOpts/payload/MIC), authentic frames of another session, replays, stale/far-future counters with valid MIC, wrong-epoch MIC, oversize frames, JoinAccepts under a wrong key / bit-flipped / while joined} are inserted at RX1, RX2, Class C gaps and idle listening (random bytes include the empty reception and single octets; in half of the Class C insertions an authentic downlink follows the rejected frame in the same listening period); the reference codec decides which delivered frames are rejected; H is H+ re-run with exactly those frames removed (an oversize frame in a Class A window also removes the rest of that receive procedure). After a rejected frame heard by Class C listening every later frame scripted for that listening period must be heard too (`window-closed`). Twin devices with identical configuration and RNG streams must agree on every uplink (bytes, power, RF config), every radio/timer request, every response, delivered payloads (also those an application that does not collect its downlinks finds in the queue at the end: SetDrain steps, queue depth 4 and the crate's default 1), session JSON and MAC snapshot after every transaction. Non-trivial: a rejected frame that is structurally a data frame / JoinAccept delivered while answers were pending, an ACK was owed or the ADR count was > 0; distinct by hash".into();
    ctx.assumptions = vec![
        "async receive windows are single-shot: a rejected frame replaces the time-out of that window; in nb windows and Class C gaps frames are additional".into(),
        "for a transaction in which an oversize frame ended the receive procedure, only the uplink, the response, the following transactions and the states are compared".into(),
        "rxc_listen() on a device without a session is not a receive opportunity: it reports NotJoined as soon as any frame is heard; the response of that call is not compared (states and everything later are)".into(),
    ];
    let cases = ctx.tier.pick(80_000u32, 1_000_000);
    let seed = ctx.seed;
    let nthreads = ctx.threads as u32;
    ctx.parallel(|ti, _n, st| {
        let f = run_proptest(history_strategy(), cases / nthreads + 1, seed ^ 0xC07 ^ ((ti as u64) << 36), st, |h, st| {
            st.eval();
            let (n, something) = judge_pair(h)?;
            if n > 0 {
                st.class("pair-with-rejected-frame");
                st.class_n("rejected-frames", n as u64);
            }
            if something {
                st.nt_hash(hash_value(&h.json()));
                if st.want_sample() {
                    st.sample(h.json());
                }
            }
            Ok(())
        });
        if let Some(f) = f {
            st.fail(f);
        }
    });
    // ---- cross-generator stage (see props/cross.rs)
    ctx.rule.push_str(super::cross::CROSS_RULE);
    let cross_cases = ctx.tier.pick(super::cross::QUICK_PER_GEN, super::cross::THOROUGH_PER_GEN);
    super::cross::stage(ctx, "C07", cross_cases);
}
