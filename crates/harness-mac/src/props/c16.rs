//! C16 — time on air equals the Semtech formula exactly (exhaustive enumeration).

use lora_modulation::{Bandwidth, BaseBandModulationParams, CodingRate, SpreadingFactor};
use serde_json::{json, Value};
use verif_core::oracle::airtime;
use verif_core::*;

pub const SFS: [SpreadingFactor; 8] = [
    SpreadingFactor::_5,
    SpreadingFactor::_6,
    SpreadingFactor::_7,
    SpreadingFactor::_8,
    SpreadingFactor::_9,
    SpreadingFactor::_10,
    SpreadingFactor::_11,
    SpreadingFactor::_12,
];
pub const BWS: [Bandwidth; 10] = [
    Bandwidth::_7KHz,
    Bandwidth::_10KHz,
    Bandwidth::_15KHz,
    Bandwidth::_20KHz,
    Bandwidth::_31KHz,
    Bandwidth::_41KHz,
    Bandwidth::_62KHz,
    Bandwidth::_125KHz,
    Bandwidth::_250KHz,
    Bandwidth::_500KHz,
];
pub const CRS: [CodingRate; 4] = [CodingRate::_4_5, CodingRate::_4_6, CodingRate::_4_7, CodingRate::_4_8];

fn case_json(sf: usize, bw: usize, cr: usize, pre: Option<u8>, explicit: bool, len: u8) -> Value {
    json!({"kind":"toa","sf":SFS[sf].factor(),"bw_hz":BWS[bw].hz(),"cr_denom":CRS[cr].denom(),"preamble":pre,"explicit_header":explicit,"len":len})
}

fn idx_sf(f: u64) -> usize {
    SFS.iter().position(|s| s.factor() as u64 == f).unwrap_or(0)
}
fn idx_bw(hz: u64) -> usize {
    BWS.iter().position(|b| b.hz() as u64 == hz).unwrap_or(0)
}
fn idx_cr(d: u64) -> usize {
    CRS.iter().position(|c| c.denom() as u64 == d).unwrap_or(0)
}

/// one evaluation: Ok(value) or Err(failure)
fn eval_toa(p: &BaseBandModulationParams, sf: usize, bw: usize, cr: usize, pre: Option<u8>, explicit: bool, len: u8) -> Result<u32, Failure> {
    eval_toa_ex(p, sf, bw, cr, pre, explicit, len, None)
}

/// `built_cr`: the parameter set was created with that coding rate and its public `cr` field was then
/// assigned the one under test (the set in force when time_on_air_us is called is what counts)
fn eval_toa_ex(p: &BaseBandModulationParams, sf: usize, bw: usize, cr: usize, pre: Option<u8>, explicit: bool, len: u8, built_cr: Option<usize>) -> Result<u32, Failure> {
    // the `ldro` field is public and documented as forceable: the case records a forced value
    let auto = BaseBandModulationParams::new(SFS[sf], BWS[bw], CRS[cr]).ldro;
    let forced = p.ldro != auto;
    let case_json = |sf, bw, cr, pre, explicit, len| {
        let mut c = case_json(sf, bw, cr, pre, explicit, len);
        if forced {
            c["ldro_forced"] = json!(p.ldro);
        }
        if let Some(b) = built_cr {
            c["built_with_cr_denom"] = json!(CRS[b].denom());
        }
        c
    };
    let got = match catch(|| p.time_on_air_us(pre, explicit, len)) {
        Ok(v) => v,
        Err(pm) => return Err(Failure::panic(case_json(sf, bw, cr, pre, explicit, len), &pm)),
    };
    let want = airtime::time_on_air_us(SFS[sf].factor(), BWS[bw].hz(), CRS[cr].denom(), p.ldro, pre.map(|x| x as u32), explicit, len as u32);
    if want > u32::MAX as u128 {
        return Err(Failure::new("no-overflow", case_json(sf, bw, cr, pre, explicit, len), format!("exact value {want} does not fit the u32 return type; got {got}")));
    }
    if got as u128 != want {
        let num = airtime::numerator(SFS[sf].factor(), explicit, len as u32);
        let fp = if built_cr.is_some() { "formula-equal/cr-reassigned" } else if forced { "formula-equal/ldro-forced" } else if num <= 0 { "formula-equal/numerator<=0" } else { "formula-equal" };
        return Err(Failure::new("formula-equal", case_json(sf, bw, cr, pre, explicit, len), format!("time_on_air_us = {got}, Semtech formula = {want} (numerator {num})")).with_fp(fp));
    }
    Ok(got)
}

pub fn replay(case: &Value, _kf: &KnownFindings) -> Result<(), Failure> {
    match case["kind"].as_str() {
        Some("toa") => {
            let (sf, bw, cr) = (idx_sf(case["sf"].as_u64().unwrap_or(7)), idx_bw(case["bw_hz"].as_u64().unwrap_or(125000)), idx_cr(case["cr_denom"].as_u64().unwrap_or(5)));
            let built = case["built_with_cr_denom"].as_u64().map(idx_cr);
            let mut p = BaseBandModulationParams::new(SFS[sf], BWS[bw], CRS[built.unwrap_or(cr)]);
            p.cr = CRS[cr];
            if let Some(f) = case["ldro_forced"].as_bool() {
                p.ldro = f;
            }
            let pre = case["preamble"].as_u64().map(|x| x as u8);
            eval_toa_ex(&p, sf, bw, cr, pre, case["explicit_header"].as_bool().unwrap_or(true), case["len"].as_u64().unwrap_or(0) as u8, built).map(|_| ())
        }
        Some("symbols") => {
            let (sf, bw) = (idx_sf(case["sf"].as_u64().unwrap_or(7)), idx_bw(case["bw_hz"].as_u64().unwrap_or(125000)));
            helper_case(sf, bw, case["ms"].as_u64().unwrap_or(0) as u32, case["symbols"].as_u64().unwrap_or(0) as u32)
        }
        _ => Err(Failure::new("bad-replay", case.clone(), "unknown case kind")),
    }
}

/// delay_in_symbols / symbols_to_ms inside the domain where the exact result fits the types.
fn helper_case(sf: usize, bw: usize, ms: u32, symbols: u32) -> Result<(), Failure> {
    let p = BaseBandModulationParams::new(SFS[sf], BWS[bw], CodingRate::_4_5);
    let t = airtime::t_sym_us(SFS[sf].factor(), BWS[bw].hz());
    let cj = || json!({"kind":"symbols","sf":SFS[sf].factor(),"bw_hz":BWS[bw].hz(),"ms":ms,"symbols":symbols});
    let want_syms = (ms as u64 * 1000) / t;
    if ms as u64 * 1000 <= u32::MAX as u64 && want_syms <= u16::MAX as u64 {
        match catch(|| p.delay_in_symbols(ms)) {
            Ok(g) if g as u64 == want_syms => {}
            Ok(g) => return Err(Failure::new("delay-in-symbols", cj(), format!("delay_in_symbols({ms}) = {g}, floor(ms*1000/t_sym) = {want_syms}"))),
            Err(pm) => return Err(Failure::panic(cj(), &pm)),
        }
    }
    let want_ms = (t * symbols as u64) / 1000;
    if t * symbols as u64 <= u32::MAX as u64 {
        match catch(|| p.symbols_to_ms(symbols)) {
            Ok(g) if g as u64 == want_ms => {}
            Ok(g) => return Err(Failure::new("symbols-to-ms", cj(), format!("symbols_to_ms({symbols}) = {g}, floor(t_sym*symbols/1000) = {want_ms}"))),
            Err(pm) => return Err(Failure::panic(cj(), &pm)),
        }
    }
    Ok(())
}

pub fn run(ctx: &mut Ctx) {
    ctx.level = "exploration".into();
    ctx.exhaustive = true;
    ctx.rule = "exhaustive: 8 SF x 10 BW x 4 CR x 256 lengths x 2 header modes x (None + 256 preamble lengths), each compared for exact equality with the Semtech formula in i64/u128 arithmetic and for monotonicity in the length; plus the same with low-data-rate optimisation forced to the other setting through the public field (4 preamble settings), and with the public coding-rate field assigned after creation (every ordered pair of coding rates); plus delay_in_symbols/symbols_to_ms on ms/symbol grids. Non-trivial (distinct by construction): numerator <= 0, or implicit header, or CR != 4/5, or preamble != Some(8)".into();
    ctx.assumptions = vec![
        "the Semtech formula is the SX127x/AN1200.13 one the crate documents, for every SF".into(),
        "the DE term uses the parameter set's LDRO flag: the one `new()` derives (C15 judges that decision) and the opposite one forced by the caller".into(),
        "symbol time is floor(2^SF*1e6/BW_Hz) with the crate's bandwidth constants, as documented".into(),
    ];
    let fine = ctx.tier == Tier::Thorough;
    // 320 (sf,bw,cr) combos distributed over threads
    ctx.parallel(|ti, n, st| {
        let mut combo = 0usize;
        for sf in 0..8 {
            for bw in 0..10 {
                for cr in 0..4 {
                    combo += 1;
                    if combo % n != ti {
                        continue;
                    }
                    let p = BaseBandModulationParams::new(SFS[sf], BWS[bw], CRS[cr]);
                    // low-data-rate optimisation forced to the other setting by the caller (public field):
                    // the formula's DE term must follow it
                    let mut pf = p;
                    pf.ldro = !p.ldro;
                    for explicit in [true, false] {
                        for pre in [None, Some(0u8), Some(8), Some(255)] {
                            for len in 0..=255u8 {
                                st.eval();
                                st.class("ldro-forced");
                                st.nt_distinct();
                                if let Err(f) = eval_toa(&pf, sf, bw, cr, pre, explicit, len) {
                                    st.fail(f);
                                }
                            }
                        }
                    }
                    // a parameter set that is used again with another coding rate (public field assigned after
                    // `new()`): the coding rate in force at the call is what the formula takes
                    for k in 1..4usize {
                        let b = (cr + k) % 4;
                        let mut pc = BaseBandModulationParams::new(SFS[sf], BWS[bw], CRS[b]);
                        pc.cr = CRS[cr];
                        for explicit in [true, false] {
                            for pre in [None, Some(8u8)] {
                                for len in (0..=255u8).step_by(3) {
                                    st.eval();
                                    st.class("cr-reassigned");
                                    st.nt_distinct();
                                    if let Err(f) = eval_toa_ex(&pc, sf, bw, cr, pre, explicit, len, Some(b)) {
                                        st.fail(f);
                                    }
                                }
                            }
                        }
                    }
                    for explicit in [true, false] {
                        for prei in 0..257u32 {
                            let pre = if prei == 0 { None } else { Some((prei - 1) as u8) };
                            let mut prev: Option<u32> = None;
                            for len in 0..=255u8 {
                                st.eval();
                                let num = airtime::numerator(SFS[sf].factor(), explicit, len as u32);
                                let nt = num <= 0 || !explicit || cr != 0 || pre != Some(8);
                                if nt {
                                    st.nt_distinct();
                                }
                                if num <= 0 {
                                    st.class("numerator<=0");
                                }
                                match eval_toa(&p, sf, bw, cr, pre, explicit, len) {
                                    Ok(v) => {
                                        if let Some(pv) = prev {
                                            if v < pv {
                                                st.fail(Failure::new("monotone-in-length", case_json(sf, bw, cr, pre, explicit, len), format!("len {} -> {pv} us but len {len} -> {v} us", len - 1)));
                                            }
                                        }
                                        prev = Some(v);
                                        if nt && st.want_sample() && (len as usize * 7 + prei as usize) % 97 == 3 {
                                            let mut c = case_json(sf, bw, cr, pre, explicit, len);
                                            c["time_on_air_us"] = json!(v);
                                            st.sample(c);
                                        }
                                    }
                                    Err(f) => {
                                        prev = None;
                                        st.fail(f)
                                    }
                                }
                            }
                        }
                    }
                    if cr == 0 {
                        // helper functions
                        let ms_step = if fine { 1 } else { 7 };
                        let mut ms = 0u32;
                        while ms <= 20_000 {
                            st.eval();
                            st.class("helper-grid");
                            if let Err(f) = helper_case(sf, bw, ms, ms) {
                                st.fail(f);
                            }
                            ms += ms_step;
                        }
                        for ms in [65_535u32, 100_000, 1_000_000, 4_294_967] {
                            st.eval();
                            if let Err(f) = helper_case(sf, bw, ms, 65_535) {
                                st.fail(f);
                            }
                        }
                    }
                }
            }
        }
    });
}
