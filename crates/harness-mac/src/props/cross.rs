//! Cross-generator stage: every history-based property owns a generator tuned to reach the states its
//! statement talks about — but a property quantifies over *all* histories, and the other properties'
//! generators reach shapes (plan changes, counter boundaries, long silences, joins with odd CFLists,
//! rejected-frame insertions, Class C interplay) that the own generator produces rarely or never. This
//! stage runs a property's judge over the histories of all the *other* history generators.
//!
//! Soundness: a judge is a function of (history, records) only and already has to cope with every step
//! and recipe of the history language, because all generators draw from the shared `gen` strategies.
//! What a judge cannot decide it skips (don't-care bands, suspended network view); nothing here adds a
//! demand that the own stage does not make.
use crate::drive::fronts::FrontKind;
use crate::drive::history::*;
use proptest::prelude::*;
use serde_json::Value;
use verif_core::*;

use super::{c04, c05, c06, c07, c08, c09, c10, c11, c12, c20};

pub const GENERATORS: [&str; 11] = ["gen", "C05", "C06", "C07", "C08", "C09", "C10", "C11", "C12", "C20", "fuzzdec"];

pub fn strategy_of(name: &str) -> BoxedStrategy<History> {
    match name {
        "gen" => crate::gen::history_strategy(12).boxed(),
        "C05" => c05::history_strategy().boxed(),
        "C06" => c06::history_strategy().boxed(),
        "C07" => c07::history_strategy().boxed(),
        "C08" => c08::history_strategy().boxed(),
        "C09" => c09::history_strategy().boxed(),
        // C10's own random part: shared histories with generated board timings
        "C10" => (crate::gen::history_strategy(10), 0u32..4, -1i32..3)
            .prop_map(|(mut h, t, o)| {
                h.board.lead_ms = [0, 10, 50, 200][t as usize];
                h.board.buffer_ms = h.board.lead_ms / 2;
                h.board.nb_offset_ms = o * 15;
                h.board.tx_ms = t * 7;
                h.board.nb_duration_ms = [100, 150, 999, 1000, 1001, 3000][(h.rng_seed % 6) as usize];
                if h.cfg.front.is_nb() {
                    h.board.tx_ms = [t * 7, t * 7, 0x7FFF_FB00 + t * 300, 0xFFFF_F800 + t * 400, 0xFFFF_FFFF][((h.rng_seed >> 8) % 5) as usize];
                }
                h
            })
            .boxed(),
        "C11" => c11::history_strategy().boxed(),
        "C12" => c12::history_strategy().boxed(),
        "C20" => c20::history_strategy().boxed(),
        // histories decoded from random bytes by the libFuzzer decoder (verbatim MAC bytes, raw CFLists)
        _ => proptest::collection::vec(any::<u8>(), 8..220).prop_map(|b| c04::decode_history_v2(&b)).boxed(),
    }
}

/// Runs the judge of property `own` on one history. Ok(true) = the judge found something to judge.
pub fn judge_as(own: &str, h: &History) -> Result<bool, Failure> {
    if own == "C07" {
        return c07::judge_pair(h).map(|(n, nt)| n > 0 && nt);
    }
    if own == "C20" {
        let mut any = false;
        for k in 0..=h.steps.len() {
            if let Some(nt) = c20::check_at(h, k)? {
                any |= nt;
            }
        }
        return Ok(any);
    }
    let (_, recs) = run_history(h).map_err(|e| Failure::new("harness", h.json(), e))?;
    match own {
        "C04" => c04::judge(h, &recs).map(|_| true),
        "C05" => c05::judge(h, &recs).map(|(a, b)| a && b),
        "C06" => c06::judge(h, &recs).map(|(n, _)| n >= 2),
        "C08" => c08::judge(h, &recs).map(|(j, _)| j > 0),
        "C09" => c09::judge(h, &recs).map(|n| n > 0),
        "C10" => c10::judge(h, &recs).map(|n| n > 0),
        "C11" => c11::judge(h, &recs).map(|(att, _)| att > 0),
        "C12" => c12::judge(h, &recs).map(|(c, _)| c),
        _ => Ok(false),
    }
}

/// The stage itself: `cases` histories from every foreign generator, judged as `own`.
pub fn stage(ctx: &mut Ctx, own: &'static str, cases_per_gen: u32) {
    let seed = ctx.seed;
    let nthreads = ctx.threads as u32;
    let gens: Vec<&'static str> = GENERATORS.iter().copied().filter(|g| *g != own).collect();
    ctx.parallel(|ti, _n, st| {
        for (gi, g) in gens.iter().enumerate() {
            if st.failed() {
                break;
            }
            let class = format!("cross:{g}");
            let f = run_proptest(strategy_of(g), cases_per_gen / nthreads + 1, seed ^ 0xC505 ^ ((ti as u64) << 36) ^ ((gi as u64) << 28) ^ fnv64(own.as_bytes()), st, |h, st| {
                st.eval();
                st.class(&class);
                if judge_as(own, h)? {
                    st.class("cross:judged");
                    st.nt_hash(hash_value(&h.json()));
                }
                Ok(())
            });
            if let Some(f) = f {
                st.fail(f);
            }
        }
    });
}

/// Entry point of the libFuzzer target `fuzz_hist`: the input is decoded into a history (decoder v2)
/// and judged by the property named in VERIF_FUZZ_JUDGE (every history judge when it is ALL).
pub fn fuzz_hist(data: &[u8], own: &str) -> Result<(), Failure> {
    let h = c04::decode_history_v2(data);
    if own == "ALL" {
        for j in ["C04", "C05", "C06", "C07", "C08", "C09", "C10", "C11", "C12"] {
            judge_as(j, &h)?;
        }
        return Ok(());
    }
    judge_as(own, &h).map(|_| ())
}

/// A replay case is a history document, or the raw input of the libFuzzer stage.
pub fn case_history(case: &Value) -> History {
    if case["kind"] == "fuzz_raw" {
        return c04::decode_history_v2(&unhex(case["data"].as_str().unwrap_or("")));
    }
    History::from_json(case)
}

pub const QUICK_PER_GEN: u32 = 6_000;
pub const THOROUGH_PER_GEN: u32 = 60_000;

pub const CROSS_RULE: &str = " Cross-generator stage: the same judge also runs over histories drawn from the generators of the other history-based properties (shared random histories, C05..C12, C20 and histories decoded from random bytes by the libFuzzer decoder), classes cross:<generator>.";

/// Development aid: `vcheck-mac XJ` runs every judge over every generator and reports per pair.
pub fn run_all(ctx: &mut Ctx) {
    ctx.rule = "development: every judge x every generator".into();
    let cases = ctx.tier.pick(4_000u32, 60_000);
    for own in ["C04", "C05", "C06", "C07", "C08", "C09", "C10", "C11", "C12", "C20"] {
        let before = ctx.stats.failures.len();
        stage(ctx, own, cases);
        let fs = &ctx.stats.failures[before..];
        println!("XJ judge={own}: failures={}", fs.len());
        for f in fs.iter().take(6) {
            println!("   rule={} fp={} detail={}", f.rule, f.fingerprint, f.detail.chars().take(300).collect::<String>());
        }
    }
}

pub fn replay(case: &Value, _kf: &KnownFindings) -> Result<(), Failure> {
    let h = History::from_json(case);
    for own in ["C04", "C05", "C06", "C07", "C08", "C09", "C10", "C11", "C12", "C20"] {
        judge_as(own, &h)?;
    }
    Ok(())
}
