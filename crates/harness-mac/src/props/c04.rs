//! C04 — no received frame or network command can panic or hang the device.

use crate::drive::fronts::*;
use crate::drive::history::*;
use crate::drive::net::*;
use crate::drive::*;
use crate::gen;
use serde_json::Value;
use verif_core::oracle::refcodec::RefCfList;
use verif_core::oracle::refregion::Reg;
use verif_core::*;

/// Judge: every call returned (no panic, no RNG-budget hang); while joined, a send from Idle hands a
/// frame to the radio or reports SessionExpired.
pub fn judge(h: &History, recs: &[StepRec]) -> Result<(), Failure> {
    for r in recs {
        match &r.outcome {
            Outcome::Panic(p) => {
                let hang = p.contains(HANG_MSG);
                let fp = if hang { format!("hang: RNG budget exceeded in {}", match r.step { Step::Join(_) => "join", _ => "send" }) } else { panic_fingerprint(p) };
                return Err(Failure { rule: if hang { "no-hang".into() } else { "no-panic".into() }, fingerprint: fp, case: h.json(), detail: format!("{p}\n{}", render(recs, 5)) });
            }
            Outcome::Err(e) if e.starts_with("harness") => return Err(Failure::new("harness", h.json(), e.clone())),
            _ => {}
        }
        // can still transmit: a Send while the model says joined must reach the radio
        if let Step::Send { rx, .. } = &r.step {
            let joined = r.snap_before.joined;
            let faulted = rx.fault_at.is_some();
            // a payload that cannot share a 255-byte frame with up to 15 bytes of owed MAC answers may be
            // refused with the proper error (an application payload of at most 227 bytes always fits)
            let room = h.cfg.front.buf_size().min(255) - 13 - 15;
            let refused_too_long = r.payload_sent.len() > room && matches!(&r.outcome, Outcome::Err(e) if e.contains("PayloadTooLong"));
            if joined && r.txs.is_empty() && !faulted && !refused_too_long && !matches!(&r.outcome, Outcome::Resp(s) if s == "SessionExpired") {
                return Err(Failure::new("can-still-transmit", h.json(), format!("joined device did not hand a frame to the radio: {}\n{}", r.outcome.text(), render(recs, 5))));
            }
        }
    }
    Ok(())
}

/// Byte string -> history (for the coverage-guided stage). The MAC-command streams of authentic
/// downlinks, the CFList and the DLSettings/RxDelay octets are taken verbatim from the input, so that
/// coverage feedback steers the very bytes the stack parses; everything else selects among shapes.
pub fn decode_history(data: &[u8]) -> History {
    let mut it = data.iter().copied();
    let b0 = it.next().unwrap_or(0);
    let b1 = it.next().unwrap_or(0);
    let region = REGIONS[b0 as usize % REGIONS.len()];
    let front = [FrontKind::Async, FrontKind::Nb, FrontKind::AsyncClassC][(b1 & 3) as usize % 3];
    let otaa = b1 & 4 != 0;
    let cfg = DevCfg { region, join_bias: None, front, board: (14, 0) };
    let activation = if otaa { Activation::Otaa } else { Activation::Abp { fcnt_up: 0, fcnt_down: None } };
    decode_body(cfg, activation, b0 as u64 * 131 + b1 as u64, &mut it, false)
}

/// Second decoder (libFuzzer target `fuzz_hist`, cross-generator stage): two more header octets
/// select the join-channel bias, the board constants and the counters an ABP session starts from.
pub fn decode_history_v2(data: &[u8]) -> History {
    let mut it = data.iter().copied();
    let b0 = it.next().unwrap_or(0);
    let b1 = it.next().unwrap_or(0);
    let b2 = it.next().unwrap_or(0);
    let b3 = it.next().unwrap_or(0);
    let region = REGIONS[b0 as usize % REGIONS.len()];
    let front = [FrontKind::Async, FrontKind::Nb, FrontKind::AsyncClassC][(b1 & 3) as usize % 3];
    let otaa = b1 & 4 != 0;
    let join_bias = if region.fixed() && b2 & 0x80 != 0 { Some((1 + (b2 & 7), 1 + ((b2 >> 3) & 7) as usize)) } else { None };
    let cfg = DevCfg { region, join_bias, front, board: BOARDS[(b3 & 7) as usize % BOARDS.len()] };
    let up = [0u32, 0, 0xFFFD, 0x7FFF_FFFE, 0xFFFF_FFF8, 0xFFFF_FFFD, 1 << 24, 0x0001_0000][((b3 >> 3) & 7) as usize];
    let down = [None, None, Some(0xFFF0u32), Some(0x1_FFFE), Some(0xFFFF_BFF0)][((b3 >> 6) as usize + (b1 >> 6) as usize) % 5];
    let activation = if otaa { Activation::Otaa } else { Activation::Abp { fcnt_up: up, fcnt_down: down } };
    let mut h = decode_body(cfg, activation, ((b0 as u64 * 131 + b1 as u64) * 131 + b2 as u64) * 131 + b3 as u64, &mut it, true);
    h.board.nb_async_tx = b1 & 8 != 0;
    // bit 6 of the third octet (unused by the join bias): the nb application meddles in mid-transaction
    if b2 & 0x40 != 0 {
        h.board.nb_meddle = (h.rng_seed as u32).wrapping_mul(0x9E37_79B9) | 1 << (b3 & 31);
    }
    h.board.snr = [5i8, -20, 31, 32, 127, -128, -32, -33][((b1 >> 4) & 7) as usize];
    h
}

fn decode_body(cfg: DevCfg, activation: Activation, seed: u64, it: &mut dyn Iterator<Item = u8>, v2: bool) -> History {
    let mut nx = move || it.next();
    let region = cfg.region;
    let reg = Reg::from_name(region.name()).unwrap();
    let front = cfg.front;
    let otaa = matches!(activation, Activation::Otaa);
    let class_c = front == FrontKind::AsyncClassC;
    let drs: Vec<u8> = (0..16u8).filter(|d| reg.is_uplink_dr(*d)).collect();
    let mut steps = vec![];
    let take = |n: usize, nx: &mut dyn FnMut() -> Option<u8>| -> Vec<u8> { (0..n).filter_map(|_| nx()).collect() };
    let mut nx: Box<dyn FnMut() -> Option<u8>> = Box::new(nx);
    let ja = |nx: &mut dyn FnMut() -> Option<u8>| -> Recipe {
        let dl = nx().unwrap_or(0);
        let rxd = nx().unwrap_or(1);
        let k = nx().unwrap_or(0);
        let cflist = match k % 4 {
            0 => None,
            _ => {
                let mut raw = [0u8; 16];
                for r in raw.iter_mut() {
                    *r = nx().unwrap_or(0);
                }
                if k % 4 == 1 {
                    raw[15] = 0;
                } else if k % 4 == 2 {
                    raw[15] = 1;
                }
                Some(RefCfList::Raw(raw))
            }
        };
        Recipe::JoinAccept { dl_settings: dl, rx_delay: rxd, cflist, wrong_key: k & 0x80 != 0 && k & 0x40 != 0, stale_nonce: false, flip_bit: None, dev_addr: 0x01020304 ^ k as u32, net_id: 0x13, join_nonce: 7 + k as u32 }
    };
    if otaa {
        steps.push(Step::Join(RxPlan::rx1(ja(&mut *nx))));
    }
    while steps.len() < 14 {
        let Some(op) = nx() else { break };
        let frame = |nx: &mut dyn FnMut() -> Option<u8>| -> Option<Recipe> {
            let k = nx()?;
            let n = nx().unwrap_or(0) as usize;
            Some(match k % 8 {
                0 | 1 | 2 => Recipe::Auth { delta: 1 + (k as i64 >> 6), confirmed: k & 8 != 0, port: None, payload_len: 0, fopts: vec![Cmd::Raw(take(n % 16, nx))], frm_cmds: vec![], ack: k & 16 != 0, fpending: k & 32 != 0 },
                3 => Recipe::Auth { delta: 1, confirmed: k & 8 != 0, port: Some(0), payload_len: 0, fopts: vec![], frm_cmds: vec![Cmd::Raw(take(n % 48, nx))], ack: false, fpending: false },
                4 => {
                    let port = match k >> 6 {
                        0 => Some(0),
                        1 => None,
                        2 => Some(224),
                        _ => Some(n as u8),
                    };
                    let fo = take((n >> 4) % 16, nx);
                    Recipe::AuthRaw { delta: 1, confirmed: k & 8 != 0, fopts: fo, port, frm: take(n % 40, nx) }
                }
                5 => Recipe::Random(take(n % 48, nx)),
                6 => Recipe::Replay(n as u16 * 256),
                _ => Recipe::BitFlip { bit: n as u16 * 97, with_cmds: k & 8 != 0 },
            })
        };
        match op % 8 {
            0..=3 => {
                let port = nx().unwrap_or(1);
                let len = nx().unwrap_or(0) % 24;
                let mut rx = RxPlan::default();
                if let Some(f) = frame(&mut *nx) {
                    match (op >> 3) % 4 {
                        0 | 1 => rx.rx1.push(f),
                        2 => rx.rx2.push(f),
                        _ => {
                            if class_c {
                                rx.gap1.push(f)
                            } else {
                                rx.rx1.push(f)
                            }
                        }
                    }
                }
                steps.push(Step::Send { port: if port == 0 { 0 } else { port.min(223) }, len, confirmed: op & 0x80 != 0, rx });
            }
            4 if v2 && op & 0x20 != 0 => steps.push(Step::JoinSilence(1 + (nx().unwrap_or(0) as u16 % 90))),
            4 if v2 && op & 0x10 != 0 => steps.push(Step::SetCreds(op >> 6)),
            4 if v2 && op & 0x08 != 0 => {
                let k = nx().unwrap_or(0);
                steps.push(Step::SetSession { alt: op & 0x40 != 0, fcnt_up: [0u32, 3, 0xFFFF, 0xFFFF_FFFE][(k & 3) as usize], fcnt_down: [None, Some(0u32), Some(7), Some(0xFFFF)][((k >> 2) & 3) as usize] });
            }
            4 => {
                let r = ja(&mut *nx);
                steps.push(Step::Join(if op & 0x40 != 0 { RxPlan::rx2(r) } else { RxPlan::rx1(r) }));
            }
            5 => steps.push(Step::Silence(1 + (nx().unwrap_or(0) as u16 % 130))),
            6 if v2 && op & 0x80 != 0 => steps.push(Step::JoinAbp),
            6 if v2 && op & 0x40 != 0 => steps.push(Step::SetDrain(op & 0x20 != 0)),
            7 if v2 && class_c && op & 0x40 != 0 => steps.push(Step::SetClassC(op & 0x80 != 0)),
            6 => steps.push(Step::SetDr(drs[nx().unwrap_or(0) as usize % drs.len()])),
            _ => {
                if class_c {
                    let v: Vec<Recipe> = frame(&mut *nx).into_iter().collect();
                    steps.push(Step::RxcListen(v));
                } else {
                    steps.push(Step::SetAdr(op & 0x80 != 0));
                }
            }
        }
    }
    steps.push(Step::Silence(2));
    steps.push(Step::Send { port: 2, len: 4, confirmed: true, rx: RxPlan::rx1(Recipe::auth_empty(1)) });
    History { cfg, activation, board: Board::default(), rng_script: vec![], rng_seed: seed, steps }
}

/// Entry point of the libFuzzer target.
pub fn fuzz_history(data: &[u8]) -> Result<(), Failure> {
    let h = decode_history(data);
    let (_, recs) = run_history(&h).map_err(|e| Failure::new("harness", h.json(), e))?;
    judge(&h, &recs)
}

pub fn replay(case: &Value, _kf: &KnownFindings) -> Result<(), Failure> {
    if case["kind"] == "fuzz_raw" {
        return fuzz_history(&unhex(case["data"].as_str().unwrap_or("")));
    }
    let h = History::from_json(case);
    let (_, recs) = run_history(&h).map_err(|e| Failure::new("harness", h.json(), e))?;
    judge(&h, &recs)
}

fn base_history(cfg: &DevCfg, otaa: bool, seed: u64, mid: Vec<Step>) -> History {
    let mut steps = vec![];
    if otaa {
        steps.push(Step::Join(RxPlan::rx1(Recipe::JoinAccept { dl_settings: 0, rx_delay: 1, cflist: None, wrong_key: false, stale_nonce: false, flip_bit: None, dev_addr: 0x01020304, net_id: 0x13, join_nonce: 7 })));
    }
    steps.extend(mid);
    // "the device can still transmit afterwards"
    steps.push(Step::Silence(3));
    steps.push(Step::Send { port: 2, len: 4, confirmed: true, rx: RxPlan::rx1(Recipe::auth_empty(1)) });
    History { cfg: cfg.clone(), activation: if otaa { Activation::Otaa } else { Activation::Abp { fcnt_up: 0, fcnt_down: None } }, board: Board::default(), rng_script: vec![], rng_seed: seed, steps }
}

fn send_with(cmds: Vec<Cmd>, in_frm: bool, slot2: bool) -> Step {
    let r = if in_frm { Recipe::Auth { delta: 1, confirmed: false, port: Some(0), payload_len: 0, fopts: vec![], frm_cmds: cmds, ack: false, fpending: false } } else { Recipe::auth_cmds(1, cmds) };
    Step::Send { port: 1, len: 2, confirmed: false, rx: if slot2 { RxPlan::rx2(r) } else { RxPlan::rx1(r) } }
}

fn run_one(h: &History, st: &mut Stats, class: &str) {
    st.eval();
    st.class(class);
    match run_history(h) {
        Err(e) => st.fail(Failure::new("harness", h.json(), e)),
        Ok((_, recs)) => {
            let nt = recs.iter().any(|r| r.deliveries.iter().any(|d| matches!(&d.verdict, Verdict::Accept { fopts, fport, plain, .. } if !fopts.is_empty() || (*fport == Some(0) && !plain.is_empty())) || matches!(d.verdict, Verdict::JoinAccept { .. })));
            if nt {
                st.nt_hash(hash_value(&h.json()));
            }
            if st.want_sample() && st.evaluations % 5003 == 17 {
                st.sample(h.json());
            }
            if let Err(f) = judge(h, &recs) {
                st.fail(f);
            }
        }
    }
}

pub fn run(ctx: &mut Ctx) {
    let thorough = ctx.tier == Tier::Thorough;
    ctx.rule = "(a) exhaustive: every word of length <= 3 (quick, 4 regions) / <= 4 (thorough, 9 regions) over a 14-letter event alphabet (silent uplink; FOpts together with a port-0 payload; garbage+foreign frame; confirmed downlink; plan narrowed to one channel in the upper half of the table; requests that would empty the plan; data-rate/channel mismatch + DlChannelReq; six queued answers after a bit-flipped frame; replay + oversize; join with CFList; join with wrong-key then all-ones DLSettings/raw CFList in RX2; join timeout; 100 silent uplinks; highest uplink DR) x {nb, async, async+ClassC} x {OTAA, ABP}, each followed by 3 silent uplinks and an answered one; (b) field sweeps: for every handled MAC command every value of every field (LinkADRReq: all 256 DR/TXPower bytes x all 256 Redundancy bytes x mask patterns; RXParamSetupReq: all 256 DLSettings x frequency set; RXTimingSetupReq/TXParamSetupReq/DutyCycleReq: all 256; authentic frames of every shape incl. FOpts together with a port-0 payload and commands on ports 224/255; NewChannelReq: all 256 indices x frequency set x DrRange bytes; DlChannelReq: all 256 indices x frequency set; JoinAccept: all 256 DLSettings x RxDelay 0..15 x CFList classes), in FOpts and in port-0 payload, RX1 and RX2, OTAA and ABP, each followed by 3 silent uplinks and one uplink with an authentic downlink; (b2) plans that shrink under a mask (a mask naming a freshly created channel and one other index, then the removal of that channel, in one or two downlinks; every index pair, dynamic plans); (d) join walks: US915/AU915 x every sub-band bias x 1..9 (non-compliant) retries x front-ends, 150..300 unanswered join attempts followed by a successful join and traffic; (c) proptest random histories up to 12 steps mixing every frame recipe incl. >= 90-uplink silences and re-joins; regions x {nb, async, async+ClassC}. Oracle: no panic (catch_unwind), no hang (RNG draw budget per call), joined device still hands frames to the radio. Non-trivial: history with >= 1 authentic downlink carrying MAC commands or a valid JoinAccept that the reference model says is processed; distinct by hash".into();
    ctx.assumptions = vec![
        "non-termination has two detectors: the RNG draw budget per API call (10 000 draws; a rejection-sampling loop without an accepted value) and the non-termination monitor (a step or selector enumeration that stays open for 20 s of wall-clock time while its thread burns 10 s of CPU: a loop that draws no random numbers); both produce a replayable history".into(),
        "application inputs stay inside what the API documents: region-defined uplink data rates, port 0 only with empty data, payload <= 242 bytes; everything received is unrestricted".into(),
        "a rejection-sampling loop that draws more than 20000 random numbers in one API call is reported as a hang".into(),
    ];
    let seed = ctx.seed;
    // field sweeps: every region in both tiers (the quick tier thins the (region, front-end, activation)
    // combinations); the depth-3 alphabet of the quick tier runs on one region of each family plus two
    let regions: Vec<RegionId> = REGIONS.to_vec();
    let regions_alpha: Vec<RegionId> = if thorough { REGIONS.to_vec() } else { vec![RegionId::Eu868, RegionId::Us915, RegionId::As923_1, RegionId::Au915] };
    let fronts = [FrontKind::Async, FrontKind::Nb, FrontKind::AsyncClassC];
    // ---- (b) sweeps
    let mut jobs: Vec<(RegionId, FrontKind, bool, u8)> = vec![];
    for (ri, r) in regions.iter().enumerate() {
        for (fi, f) in fronts.iter().enumerate() {
            for otaa in [false, true] {
                for part in 0..11u8 {
                    if thorough || (ri + fi + otaa as usize) % 3 == 0 {
                        jobs.push((*r, *f, otaa, part));
                    }
                }
            }
        }
    }
    ctx.parallel(|ti, n, st| {
        for (ji, (region, front, otaa, part)) in jobs.iter().enumerate() {
            if ji % n != ti {
                continue;
            }
            let cfg = DevCfg { region: *region, join_bias: None, front: *front, board: (14, 0) };
            let reg = Reg::from_name(region.name()).unwrap();
            let freqs = gen::freq_set(reg);
            let mut rng = SplitMix::new(seed ^ 0xC04 ^ ji as u64);
            let mut emit = |cmds: Vec<Cmd>, st: &mut Stats, class: &str| {
                let in_frm = rng.below(3) == 0;
                let slot2 = rng.below(4) == 0;
                let h = base_history(&cfg, *otaa, rng.next_u64(), vec![send_with(cmds, in_frm, slot2)]);
                run_one(&h, st, class);
            };
            match part {
                0 | 1 => {
                    // LinkADRReq: dr_txp x redundancy x masks (half of the dr_txp space per part)
                    let masks: [u16; 6] = [0xFFFF, 0, 0x0001, 0x00FF, 0x8000, 0x0007];
                    let stride = if thorough { 1 } else { 5 };
                    let mut dt = (*part as usize) * 128;
                    while dt < (*part as usize + 1) * 128 {
                        let mut red = (dt % stride) as usize;
                        while red < 256 {
                            let mask = masks[(dt + red) % masks.len()];
                            emit(vec![Cmd::LinkAdrReqRaw { dr_txp: dt as u8, mask, redundancy: red as u8 }], st, "sweep-LinkADRReq");
                            red += stride;
                        }
                        dt += 1;
                    }
                }
                2 => {
                    // multi-command LinkADRReq blocks
                    for cntl1 in 0..8u8 {
                        for cntl2 in 0..8u8 {
                            for m in [0u16, 0xFFFF, 0x00FF, 0x0100] {
                                emit(vec![Cmd::LinkAdrReq { dr: 15, txp: 15, mask: m, cntl: cntl1, nbtrans: 0 }, Cmd::LinkAdrReq { dr: (cntl1 + cntl2) % 16, txp: cntl2, mask: !m, cntl: cntl2, nbtrans: 1 }], st, "sweep-LinkADRReq-block");
                                emit(vec![Cmd::LinkAdrReq { dr: 0, txp: 0, mask: m, cntl: cntl1, nbtrans: 0 }, Cmd::DevStatusReq, Cmd::LinkAdrReq { dr: 3, txp: 1, mask: m, cntl: cntl2, nbtrans: 1 }], st, "sweep-LinkADRReq-block");
                            }
                        }
                    }
                }
                3 => {
                    for dl in 0..=255u8 {
                        for f in &freqs {
                            emit(vec![Cmd::RxParamSetupReq { dl_settings: dl, freq: *f }], st, "sweep-RXParamSetupReq");
                        }
                    }
                }
                4 => {
                    for v in 0..=255u8 {
                        emit(vec![Cmd::RxTimingSetupReq(v)], st, "sweep-RXTimingSetupReq");
                        emit(vec![Cmd::TxParamSetupReq(v)], st, "sweep-TXParamSetupReq");
                        emit(vec![Cmd::DutyCycleReq(v)], st, "sweep-DutyCycleReq");
                        emit(vec![Cmd::Raw(vec![v])], st, "sweep-raw-cid");
                        emit(vec![Cmd::Raw(vec![v, v, v])], st, "sweep-raw-cid");
                    }
                    // authentic frames of every shape, including those a conforming sender never builds:
                    // FOpts together with a port-0 payload, port 0 with application-looking bytes,
                    // commands on the highest ports, empty payload with a port
                    let fopts_set: [&[u8]; 5] = [&[], &[0x06], &[0x02, 0x05, 0x01], &[0x0D, 1, 2, 3, 4, 5], &[0x03, 0x51, 0x07, 0x00, 0x01, 0x06, 0x08, 0x02, 0x0A, 0x00, 0x68, 0xE2, 0x8C, 0x06, 0x06]];
                    let frm_set: [&[u8]; 5] = [&[], &[0x06], &[0x06, 0x0D], &[0x05, 0x23, 0xD2, 0xAD, 0x84, 0x08, 0x03, 0x03, 0x50, 0xFF, 0xFF, 0x00], &[0xFF; 40]];
                    for fo in fopts_set {
                        for frm in frm_set {
                            for port in [None, Some(0u8), Some(1), Some(223), Some(224), Some(255)] {
                                for confirmed in [false, true] {
                                    let r = Recipe::AuthRaw { delta: 1, confirmed, fopts: fo.to_vec(), port, frm: frm.to_vec() };
                                    let slot2 = rng.below(3) == 0;
                                    let h = base_history(&cfg, *otaa, rng.next_u64(), vec![Step::Send { port: 1, len: 2, confirmed: false, rx: if slot2 { RxPlan::rx2(r) } else { RxPlan::rx1(r) } }]);
                                    run_one(&h, st, "sweep-raw-authentic-frame");
                                }
                            }
                        }
                    }
                }
                5 => {
                    let drs: Vec<u8> = if thorough { (0..=255).collect() } else { vec![0x50, 0x00, 0xF0, 0xFF, 0x05, 0x77, 0x60, 0xE0, 0x0F] };
                    for idx in 0..=255u8 {
                        for f in &freqs {
                            let d = drs[(idx as usize + (*f as usize / 100)) % drs.len()];
                            emit(vec![Cmd::NewChannelReq { idx, freq: *f, dr_range: d }], st, "sweep-NewChannelReq");
                        }
                    }
                    for d in 0..=255u8 {
                        emit(vec![Cmd::NewChannelReq { idx: 5, freq: freqs[4], dr_range: d }], st, "sweep-NewChannelReq");
                    }
                }
                6 => {
                    for idx in 0..=255u8 {
                        for f in &freqs {
                            emit(vec![Cmd::DlChannelReq { idx, freq: *f }], st, "sweep-DlChannelReq");
                            if idx < 16 {
                                emit(vec![Cmd::NewChannelReq { idx, freq: freqs[4], dr_range: 0x50 }, Cmd::DlChannelReq { idx, freq: *f }], st, "sweep-DlChannelReq");
                            }
                        }
                    }
                }
                7 => {
                    // many requests in one frame: 1..=16 copies of every request that has an answer,
                    // with and without a leading one-byte answer, so that the queued answers hit every
                    // fill level 0..=15 (and beyond) right before an answer of every size is queued
                    let f = freqs[4];
                    let reqs = [Cmd::DevStatusReq, Cmd::LinkAdrReq { dr: 15, txp: 15, mask: 7, cntl: 0, nbtrans: 1 }, Cmd::RxParamSetupReq { dl_settings: 0, freq: f }, Cmd::RxTimingSetupReq(2), Cmd::NewChannelReq { idx: 5, freq: f, dr_range: 0x50 }, Cmd::DlChannelReq { idx: 0, freq: f }];
                    for a in &reqs {
                        for b in &reqs {
                            for n in 1..=16usize {
                                for lead in 0..3usize {
                                    let mut v: Vec<Cmd> = (0..lead).map(|_| Cmd::RxTimingSetupReq(1)).collect();
                                    v.extend((0..n).map(|_| a.clone()));
                                    v.push(b.clone());
                                    // FOpts holds at most 15 bytes of requests; longer streams go to port 0
                                    let bytes = Cmd::encode_all(&v).len();
                                    let r = if bytes <= 15 && (n + lead) % 2 == 0 { Recipe::auth_cmds(1, v) } else { Recipe::Auth { delta: 1, confirmed: false, port: Some(0), payload_len: 0, fopts: vec![], frm_cmds: v, ack: false, fpending: false } };
                                    let h = base_history(&cfg, *otaa, rng.next_u64(), vec![Step::Send { port: 1, len: 2, confirmed: false, rx: RxPlan::rx1(r) }]);
                                    run_one(&h, st, "sweep-many-requests");
                                }
                            }
                        }
                    }
                }
                10 => {
                    // DevStatusReq for every SNR value the radio can report (the answer carries it in a
                    // 6-bit signed field), in FOpts and in a port-0 payload
                    for snr in i8::MIN..=i8::MAX {
                        for in_frm in [false, true] {
                            let mut h = base_history(&cfg, *otaa, rng.next_u64(), vec![send_with(vec![Cmd::DevStatusReq], in_frm, snr % 5 == 0)]);
                            h.board.snr = snr;
                            run_one(&h, st, "sweep-DevStatusReq-snr");
                        }
                    }
                }
                9 => {
                    // plans that shrink under a mask: a mask that names one freshly created channel a and
                    // one other index u (undefined, default, or another created channel), then the
                    // removal of a (NewChannelReq with frequency 0) in the same or in a later downlink —
                    // what is left enabled may be an undefined channel only
                    if reg.fixed() {
                        continue;
                    }
                    let nd = reg.default_channels().len() as u8;
                    let f = freqs[4];
                    for a in nd..16u8 {
                        for u in 0..16u8 {
                            if u == a {
                                continue;
                            }
                            for later in [false, true] {
                                let mut first = vec![Cmd::NewChannelReq { idx: a, freq: f, dr_range: 0x50 }];
                                if u >= nd && (a + u) % 3 == 0 {
                                    first.push(Cmd::NewChannelReq { idx: u, freq: f + 200_000, dr_range: 0x50 });
                                }
                                first.push(Cmd::LinkAdrReq { dr: 15, txp: 15, mask: (1u16 << a) | (1u16 << u), cntl: 0, nbtrans: 1 });
                                let remove = Cmd::NewChannelReq { idx: a, freq: 0, dr_range: 0x50 };
                                let mid = if later {
                                    vec![send_with(first, rng.below(3) == 0, false), Step::Silence(1), send_with(vec![remove], false, rng.below(4) == 0)]
                                } else {
                                    first.push(remove);
                                    vec![send_with(first, true, false)]
                                };
                                let h = base_history(&cfg, *otaa, rng.next_u64(), mid);
                                run_one(&h, st, "sweep-plan-shrinks");
                            }
                        }
                    }
                }
                _ => {
                    // JoinAccept sweep (only meaningful with OTAA; run regardless of `otaa` flag as a re-join from ABP)
                    let cfs: Vec<Option<RefCfList>> = vec![
                        None,
                        Some(RefCfList::Type0([freqs[4] / 100, freqs[2] / 100, 0, freqs[7] / 100, 0xFFFFFF])),
                        Some(RefCfList::Type0([0; 5])),
                        Some(RefCfList::Type1([0xFF; 9])),
                        Some(RefCfList::Type1([0; 9])),
                        Some(RefCfList::Type1([0, 0, 0, 0, 0, 0, 0, 0, 0xFF])),
                        Some(RefCfList::Type1([0x01, 0, 0, 0, 0, 0, 0, 0, 0])),
                        Some(RefCfList::Type1([0xFF, 0, 0, 0, 0, 0, 0, 0, 0x01])),
                        Some(RefCfList::Raw([0x5A; 16])),
                    ];
                    for dl in 0..=255u8 {
                        for rxd in 0..16u8 {
                            if !thorough && (dl as usize + rxd as usize) % 3 != 0 {
                                continue;
                            }
                            let cf = cfs[(dl as usize * 16 + rxd as usize) % cfs.len()].clone();
                            let ja = Recipe::JoinAccept { dl_settings: dl, rx_delay: rxd, cflist: cf, wrong_key: false, stale_nonce: false, flip_bit: None, dev_addr: rng.next_u32(), net_id: rng.next_u32(), join_nonce: rng.next_u32() };
                            let plan = if rng.below(3) == 0 { RxPlan::rx2(ja) } else { RxPlan::rx1(ja) };
                            let mut h = base_history(&cfg, false, rng.next_u64(), vec![Step::Join(plan)]);
                            if *otaa {
                                h.activation = Activation::Otaa;
                            }
                            run_one(&h, st, "sweep-JoinAccept");
                        }
                    }
                }
            }
        }
    });
    // ---- (d) join walks of the fixed plans: long runs of unanswered join attempts for every sub-band
    // bias and retry count (the walk keeps per-sub-band bookkeeping that only such runs exhaust), then
    // a successful join and traffic
    let mut walks: Vec<(RegionId, FrontKind, Option<(u8, usize)>, u16)> = vec![];
    for region in [RegionId::Us915, RegionId::Au915] {
        for front in fronts {
            walks.push((region, front, None, 200));
            for sb in 1..=8u8 {
                for retries in [1usize, 2, 3, 4, 6, 9] {
                    if thorough || (sb as usize + retries + front as usize) % 2 == 0 {
                        walks.push((region, front, Some((sb, retries)), if thorough { 300 } else { 150 }));
                    }
                }
            }
        }
    }
    ctx.parallel(|ti, n, st| {
        for (wi, (region, front, bias, attempts)) in walks.iter().enumerate() {
            if wi % n != ti {
                continue;
            }
            let cfg = DevCfg { region: *region, join_bias: *bias, front: *front, board: (14, 0) };
            let mut h = base_history(&cfg, true, seed ^ 0xC04D ^ wi as u64, vec![]);
            h.steps.insert(0, Step::JoinSilence(*attempts));
            run_one(&h, st, "join-walk");
        }
    });
    // ---- (e) dynamic plans: a re-join whose CFList removes channels that the surviving mask still names
    ctx.parallel(|ti, n, st| {
        let mut j = 0usize;
        for region in REGIONS.iter().filter(|r| !r.fixed()) {
            for front in [FrontKind::Async, FrontKind::Nb, FrontKind::AsyncClassC] {
                for k in 0..31 * 32 {
                    j += 1;
                    if j % n != ti || (!thorough && k % 6 != 1) {
                        continue;
                    }
                    run_one(&gen::rejoin_cflist_history(*region, front, seed, k), st, "rejoin-cflist-removes-channels");
                }
            }
        }
    });
    // ---- (a) every word up to a bounded depth over the event alphabet
    crate::props::c04_alpha::run(ctx, &regions_alpha, if thorough { 4 } else { 3 });
    // ---- (c) random histories
    let cases = ctx.tier.pick(60_000u32, 600_000);
    let nthreads = ctx.threads as u32;
    ctx.parallel(|ti, _n, st| {
        let f = run_proptest(gen::history_strategy(12), cases / nthreads + 1, seed ^ 0xC04C ^ ((ti as u64) << 36), st, |h, st| {
            st.eval();
            st.class("random-history");
            let (_, recs) = run_history(h).map_err(|e| Failure::new("harness", h.json(), e))?;
            if recs.iter().any(|r| r.deliveries.iter().any(|d| matches!(d.verdict, Verdict::Accept { .. } | Verdict::JoinAccept { .. }))) {
                st.nt_hash(hash_value(&h.json()));
            }
            if recs.len() > 90 {
                st.class("long-silence");
            }
            judge(h, &recs)
        });
        if let Some(f) = f {
            st.fail(f);
        }
    });
    // ---- cross-generator stage (see props/cross.rs)
    ctx.rule.push_str(super::cross::CROSS_RULE);
    let cross_cases = ctx.tier.pick(super::cross::QUICK_PER_GEN, super::cross::THOROUGH_PER_GEN);
    super::cross::stage(ctx, "C04", cross_cases);
}
