//! C20 — a persisted session restores losslessly and never rewinds counters.

use crate::drive::fronts::*;
use crate::drive::history::*;
use crate::drive::net::*;
use crate::gen;
use crate::props::c08;
use lorawan_device::mac::Session;
use serde_json::{json, Value};
use verif_core::oracle::refregion::Reg;
use verif_core::proptest::prelude::*;
use verif_core::*;

/// suffix run after the restore: both devices see the same simple traffic
fn suffix(seed: u64) -> Vec<Step> {
    let mut r = SplitMix::new(seed);
    let mut v = vec![];
    for k in 0..4 {
        let rx = match (k + r.below(3)) % 4 {
            0 => RxPlan::default(),
            1 => RxPlan::rx1(Recipe::Replay(r.next_u32() as u16)),
            2 => RxPlan { rx1: vec![Recipe::Replay(r.next_u32() as u16)], rx2: vec![Recipe::Auth { delta: 1, confirmed: r.bool(), port: Some(9), payload_len: 3, fopts: vec![], frm_cmds: vec![], ack: false, fpending: false }], ..Default::default() },
            _ => RxPlan::rx1(Recipe::auth_empty(1)),
        };
        v.push(Step::Send { port: if k == 2 { 0 } else { 5 }, len: 2, confirmed: r.bool(), rx });
    }
    v
}

/// Persist after `k` steps of `h`, restore, and continue both devices in lock-step.
/// name of the first `name: value` pair that differs between two Debug renderings
fn first_diff_field(a: &str, b: &str) -> String {
    let i = a.bytes().zip(b.bytes()).position(|(x, y)| x != y).unwrap_or(a.len().min(b.len()));
    let head = &a[..i];
    let colon = head.rfind(": ").unwrap_or(0);
    let start = head[..colon].rfind(|c: char| !(c.is_alphanumeric() || c == '_')).map(|p| p + 1).unwrap_or(0);
    head[start..colon].to_string()
}

/// nb front-end: the application can read the session between any two events of a transaction (the
/// power can be cut there): every such snapshot restores to an equal session.
pub fn check_midflight(h: &History) -> Result<u32, Failure> {
    if !h.cfg.front.is_nb() {
        return Ok(0);
    }
    let mut a = World::new(h).map_err(|e| Failure::new("harness", h.json(), e))?;
    a.env.0.borrow_mut().capture_sessions = true;
    for (i, s) in h.steps.iter().enumerate() {
        let _ = a.step(i, s);
        if a.dead {
            break;
        }
    }
    let caps = std::mem::take(&mut a.env.0.borrow_mut().captured_sessions);
    let mut n = 0;
    for (k, (text, orig)) in caps.iter().enumerate() {
        let case = || json!({"kind": "midflight", "history": h.json(), "event": k});
        let restored: Session = match catch(|| serde_json::from_str::<Session>(text)) {
            Ok(Ok(s)) => s,
            Ok(Err(e)) => return Err(Failure::new("restores", case(), format!("a session the device itself serialised mid-transaction does not deserialise: {e}\n{text}")).with_fp("own-document-rejected")),
            Err(pm) => return Err(Failure::panic(case(), &pm)),
        };
        let got = crate::drive::fronts::norm_session_debug(&format!("{restored:?}"));
        if got != *orig {
            let field = first_diff_field(orig, &got);
            return Err(Failure::new("lossless", case(), format!("session read at event {k} of the history (mid-transaction) restores differently: original {orig} / restored {got}")).with_fp(format!("lossless/field/{field}")));
        }
        n += 1;
    }
    Ok(n)
}

pub fn check_at(h: &History, k: usize) -> Result<Option<bool>, Failure> {
    let case = || json!({"kind": "persist", "history": h.json(), "persist_after_steps": k});
    let mut a = World::new(h).map_err(|e| Failure::new("harness", h.json(), e))?;
    for (i, s) in h.steps.iter().take(k).enumerate() {
        let recs = a.step(i, s);
        if a.dead || recs.iter().any(|r| r.deliveries.iter().any(|d| matches!(d.verdict, Verdict::SizeDontCare))) {
            return Ok(None);
        }
    }
    let Some(doc) = a.front.session_json() else { return Ok(None) };
    // ---- lossless: serialise -> deserialise -> serialise
    let text = serde_json::to_string(&doc).unwrap();
    let restored: Session = match catch(|| serde_json::from_str::<Session>(&text)) {
        Ok(Ok(s)) => s,
        Ok(Err(e)) => return Err(Failure::new("restores", case(), format!("a session the device itself serialised does not deserialise: {e}\n{text}")).with_fp("own-document-rejected")),
        Err(pm) => return Err(Failure::panic(case(), &pm)),
    };
    // every field, also those the serialised form may leave out: the Debug rendering of the restored
    // session equals that of the original (transient bookkeeping masked)
    if let Some(orig) = a.front.session_debug() {
        let got = crate::drive::fronts::norm_session_debug(&format!("{restored:?}"));
        if got != orig {
            let field = first_diff_field(&orig, &got);
            return Err(Failure::new("lossless", case(), format!("restored session differs from the original in a field: original {orig} / restored {got}")).with_fp(format!("lossless/field/{field}")));
        }
    }
    let doc2 = serde_json::to_value(&restored).unwrap();
    if doc2 != doc {
        let field = doc.as_object().and_then(|o| o.keys().find(|k| doc[k.as_str()] != doc2[k.as_str()]).cloned()).unwrap_or_default();
        return Err(Failure::new("lossless", case(), format!("restored session differs in '{field}': {} -> {}", doc[&field], doc2[&field])).with_fp(format!("lossless/{field}")));
    }
    // accessors
    if restored.fcnt_down().map(|x| x as u64) != doc["fcnt_down"].as_u64() || restored.fcnt_up as u64 != doc["fcnt_up"].as_u64().unwrap_or(u64::MAX) {
        return Err(Failure::new("lossless", case(), "counters of the restored session differ from the document").with_fp("lossless/counters"));
    }
    let nontrivial = !doc["fcnt_down"].is_null() || doc["uplink"]["pending_len"].as_u64().unwrap_or(0) > 0 || doc["uplink"]["confirmed"].as_bool().unwrap_or(false);
    // ---- behavioural equality: the restored twin continues like the original
    // every second crash point restores onto a live, ABP-provisioned nb device instead of a fresh one
    // ... and every fourth one on a device whose application settings (data rate, ADR switch) were made
    // before the restore rather than after it
    let dr = a.front.get_datarate();
    let adr = a.front.get_adr();
    let pre = k % 4 == 3 && h.cfg.front.is_nb();
    let mut b = World::from_session_via(h, &doc2, &a, k % 2 == 1, if pre { Some((dr, adr)) } else { None }).map_err(|e| Failure::new("harness", case(), e))?;
    if !pre {
        b.front.set_datarate(dr);
        b.front.set_adr(adr);
    }
    for (j, s) in suffix(h.rng_seed ^ k as u64).iter().enumerate() {
        let ra = a.step(1000 + j, s);
        let rb = b.step(1000 + j, s);
        let (Some(ra), Some(rb)) = (ra.first(), rb.first()) else { break };
        if ra.outcome.is_panic() || rb.outcome.is_panic() {
            if rb.outcome.is_panic() && !ra.outcome.is_panic() {
                return Err(Failure::new("restored-behaves", case(), format!("restored device panicked: {}", rb.outcome.text())).with_fp("restored-panics"));
            }
            break;
        }
        // the two devices hold different (non-persisted) MAC configurations, so a receive window may
        // have a different size limit: when the reference verdicts for the two runs differ the step is
        // outside what the statement fixes and the comparison stops here
        let kind = |r: &StepRec| -> Vec<u8> { r.deliveries.iter().map(|d| match d.verdict { Verdict::Accept { .. } => 0, Verdict::Reject(_) => 1, Verdict::Oversize => 2, Verdict::SizeDontCare => 3, Verdict::JoinAccept { .. } => 4 }).collect() };
        if kind(ra) != kind(rb) || kind(ra).contains(&3) {
            break;
        }
        let fa = ra.txs.first().map(|t| t.bytes.clone());
        let fb = rb.txs.first().map(|t| t.bytes.clone());
        if fa != fb {
            let what = match (ra.txs.first().and_then(|t| t.fcnt32), rb.txs.first().and_then(|t| t.fcnt32)) {
                (Some(x), Some(y)) if x != y => format!("counter {x} vs {y}"),
                _ => "frame bytes".into(),
            };
            return Err(Failure::new("restored-behaves", case(), format!("uplink {j} after the restore differs ({what}): original {} / restored {}", fa.map(|b| hex(&b)).unwrap_or_default(), fb.map(|b| hex(&b)).unwrap_or_default())).with_fp("next-uplink-differs"));
        }
        // same acceptance of the same deliveries (replays of pre-crash frames included)
        let va: Vec<bool> = ra.deliveries.iter().map(|d| matches!(d.verdict, Verdict::Accept { .. })).collect();
        let da = ra.session_after.as_ref().map(|s| s["fcnt_down"].clone());
        let db = rb.session_after.as_ref().map(|s| s["fcnt_down"].clone());
        if da != db || ra.outcome != rb.outcome {
            return Err(Failure::new("restored-behaves", case(), format!("after uplink {j}: original {} fcnt_down {:?}; restored {} fcnt_down {:?} (reference verdicts {:?})", ra.outcome.text(), da, rb.outcome.text(), db, va)).with_fp("acceptance-differs"));
        }
        // a replayed frame that is accepted now may carry MAC commands; their answers depend on the
        // (non-persisted) channel plan, so the pending answers of the two devices may differ from here on
        if ra.deliveries.iter().any(|d| matches!(&d.verdict, Verdict::Accept { fopts, fport, plain, .. } if !fopts.is_empty() || (*fport == Some(0) && !plain.is_empty()))) {
            break;
        }
        if ra.session_after != rb.session_after {
            let (x, y) = (ra.session_after.clone().unwrap_or(Value::Null), rb.session_after.clone().unwrap_or(Value::Null));
            let diff: Vec<String> = x.as_object().map(|o| o.keys().filter(|k| x[k.as_str()] != y[k.as_str()]).map(|k| format!("{k}: {} vs {}", x[k.as_str()], y[k.as_str()])).collect()).unwrap_or_default();
            return Err(Failure::new("restored-behaves", case(), format!("session after uplink {j} differs: {}", diff.join("; "))).with_fp("session-diverges"));
        }
    }
    Ok(Some(nontrivial))
}

/// A mutated document must be rejected, or yield a session on which a short history is panic-free.
pub fn check_document(h_cfg: &DevCfg, text: &str) -> Result<bool, Failure> {
    let case = || json!({"kind": "document", "config": h_cfg.json(), "text": text});
    let parsed = match catch(|| serde_json::from_str::<Session>(text)) {
        Ok(r) => r,
        Err(pm) => return Err(Failure::panic(case(), &pm).with_fp(format!("deserialise-{}", panic_fingerprint(&pm)))),
    };
    let Ok(sess) = parsed else { return Ok(false) };
    let doc = match catch(|| serde_json::to_value(&sess)) {
        Ok(Ok(d)) => d,
        Ok(Err(e)) => return Err(Failure::new("accepted-document-usable", case(), format!("accepted session does not serialise: {e}"))),
        Err(pm) => return Err(Failure::panic(case(), &pm)),
    };
    let h = History { cfg: h_cfg.clone(), activation: Activation::Abp { fcnt_up: 0, fcnt_down: None }, board: Board::default(), rng_script: vec![], rng_seed: 3, steps: vec![] };
    let base = World::new(&h).map_err(|e| Failure::new("harness", case(), e))?;
    let mut w = match catch(|| World::from_session(&h, &doc, &base)) {
        Ok(Ok(w)) => w,
        Ok(Err(e)) => return Err(Failure::new("accepted-document-usable", case(), format!("device cannot be built from the accepted session: {e}"))),
        Err(pm) => return Err(Failure::panic(case(), &pm)),
    };
    // the network does not know this session's keys: drive with sends, time-outs, noise and foreign frames
    let steps = vec![
        Step::Send { port: 1, len: 3, confirmed: false, rx: RxPlan::default() },
        Step::Send { port: 0, len: 0, confirmed: true, rx: RxPlan::rx1(Recipe::Random(vec![0x60, 1, 2, 3, 4, 0, 0, 0, 9, 9, 9, 9])) },
        Step::Send { port: 200, len: 40, confirmed: false, rx: RxPlan::rx2(Recipe::Foreign { same_addr: true }) },
        Step::Silence(3),
        Step::Send { port: 2, len: 0, confirmed: true, rx: RxPlan::default() },
    ];
    for (i, s) in steps.iter().enumerate() {
        for r in w.step(i, s) {
            if let Outcome::Panic(p) = &r.outcome {
                return Err(Failure::new("accepted-document-usable", case(), format!("a session accepted from this document makes the device panic: {p}")).with_fp(format!("accepted-document-{}", panic_fingerprint(p))));
            }
        }
    }
    Ok(true)
}

fn mutate_documents(doc: &Value, rng: &mut SplitMix, out: &mut Vec<String>) {
    let obj = doc.as_object().unwrap();
    let keys: Vec<String> = obj.keys().cloned().collect();
    for k in &keys {
        // drop, rename, null, wrong type
        let mut d = doc.clone();
        d.as_object_mut().unwrap().remove(k);
        out.push(d.to_string());
        let mut d = doc.clone();
        let v = d.as_object_mut().unwrap().remove(k).unwrap();
        d.as_object_mut().unwrap().insert(format!("{k}_x"), v);
        out.push(d.to_string());
        for repl in [json!(null), json!("x"), json!(-1), json!(1.5), json!([]), json!({}), json!(true), json!(u64::MAX), json!(4294967296u64), json!([1, 2, 3])] {
            let mut d = doc.clone();
            d[k] = repl;
            out.push(d.to_string());
        }
    }
    // arrays: length +-1, element out of range
    for k in ["nwkskey", "appskey", "devaddr"] {
        if let Some(a) = doc[k].as_array() {
            let mut d = doc.clone();
            d[k].as_array_mut().unwrap().pop();
            out.push(d.to_string());
            let mut d = doc.clone();
            d[k].as_array_mut().unwrap().push(json!(7));
            out.push(d.to_string());
            let mut d = doc.clone();
            d[k][0] = json!(256);
            out.push(d.to_string());
            let _ = a;
        }
    }
    // wrapped forms of the keys (newtype structs serialise transparently or not)
    // uplink sub-document
    for pl in 0..=255u64 {
        let mut d = doc.clone();
        d["uplink"]["pending_len"] = json!(pl);
        out.push(d.to_string());
    }
    for sub in ["confirmed", "pending_len", "pending_data"] {
        let mut d = doc.clone();
        d["uplink"].as_object_mut().unwrap().remove(sub);
        out.push(d.to_string());
        let mut d = doc.clone();
        d["uplink"][sub] = json!(null);
        out.push(d.to_string());
    }
    let mut d = doc.clone();
    d["uplink"]["pending_data"].as_array_mut().unwrap().pop();
    out.push(d.to_string());
    let mut d = doc.clone();
    d["uplink"]["pending_data"].as_array_mut().unwrap().push(json!(1));
    out.push(d.to_string());
    let mut d = doc.clone();
    d["uplink"]["pending_data"] = json!([3, 7, 3, 7, 3, 7, 3, 7, 3, 7, 3, 7, 3, 7, 3]);
    d["uplink"]["pending_len"] = json!(15);
    out.push(d.to_string());
    // alternative encodings of the same document: members in another order (sorted, reversed), and
    // structs written as sequences of their values (the form of formats without field names; serde's
    // derived visitors accept it) — the uplink sub-document in every order of its three members, with
    // every pending_len
    {
        let rev = |v: &Value| -> String {
            let o = v.as_object().unwrap();
            let body: Vec<String> = o.iter().rev().map(|(k, x)| format!("{}:{}", json!(k), x)).collect();
            format!("{{{}}}", body.join(","))
        };
        out.push(rev(doc));
        let mut d = doc.clone();
        let up = d["uplink"].clone();
        out.push(doc.to_string().replacen(&up.to_string(), &rev(&up), 1));
        let names = ["confirmed", "pending_len", "pending_data"];
        let perms = [[0usize, 1, 2], [0, 2, 1], [1, 0, 2], [1, 2, 0], [2, 0, 1], [2, 1, 0]];
        for perm in perms {
            for pl in (0..=255u64).filter(|pl| *pl <= 17 || *pl % 16 >= 14 || perm == [0, 1, 2]) {
                let mut u = up.clone();
                u["pending_len"] = json!(pl);
                d["uplink"] = Value::Array(perm.iter().map(|i| u[names[*i]].clone()).collect());
                out.push(d.to_string());
            }
        }
        // the whole session as a sequence, members in document order and in sorted order
        let vals: Vec<Value> = doc.as_object().unwrap().values().cloned().collect();
        out.push(Value::Array(vals.clone()).to_string());
        let mut vals2 = vals;
        vals2.reverse();
        out.push(Value::Array(vals2).to_string());
    }
    // counters at the limits
    for v in [0u64, 0xFFFF, 0x10000, 0xFFFF_FFFE, 0xFFFF_FFFF] {
        for k in ["fcnt_up", "fcnt_down", "adr_ack_cnt"] {
            let mut d = doc.clone();
            d[k] = json!(v);
            out.push(d.to_string());
        }
    }
    // duplicate field, truncation at every byte, random byte edits
    let text = doc.to_string();
    out.push(text.replacen('{', "{\"fcnt_up\":1,", 1));
    for i in 0..text.len() {
        out.push(text[..i].to_string());
    }
    for _ in 0..200 {
        let mut b = text.clone().into_bytes();
        let i = rng.below(b.len() as u64) as usize;
        let alphabet = b"0123456789,:[]{}\"ntf-e. ";
        b[i] = alphabet[rng.below(alphabet.len() as u64) as usize];
        if let Ok(s) = String::from_utf8(b) {
            out.push(s);
        }
    }
}

/// libFuzzer entry: the bytes are the text of a persisted session document.
pub fn fuzz_document(data: &[u8]) -> Result<(), Failure> {
    let Ok(text) = std::str::from_utf8(data) else { return Ok(()) };
    let cfg = DevCfg { region: RegionId::Eu868, join_bias: None, front: if data.len() % 2 == 0 { FrontKind::Async } else { FrontKind::Nb }, board: (14, 0) };
    check_document(&cfg, text).map(|_| ())
}

pub fn replay(case: &Value, _kf: &KnownFindings) -> Result<(), Failure> {
    if case["kind"] == "fuzz_raw" {
        return fuzz_document(&unhex(case["data"].as_str().unwrap_or("")));
    }
    match case["kind"].as_str() {
        Some("midflight") => check_midflight(&History::from_json(&case["history"])).map(|_| ()),
        Some("persist") => check_at(&History::from_json(&case["history"]), case["persist_after_steps"].as_u64().unwrap_or(0) as usize).map(|_| ()),
        Some("document") => check_document(&DevCfg::from_json(&case["config"]), case["text"].as_str().unwrap_or("")).map(|_| ()),
        _ => Err(Failure::new("bad-replay", case.clone(), "unknown case kind")),
    }
}

pub fn history_strategy() -> impl Strategy<Value = History> {
    // C08's histories (pending answers of every length, owed ACKs) with counters placed at boundaries
    (c08::history_strategy(), prop_oneof![Just(0u32), 0xFFFDu32..=0x10001, Just(0x7FFF_FFFFu32), 0xFFFF_FFF0u32..=0xFFFF_FFFB], prop_oneof![Just(None), (0xFFF0u32..=0x1000F).prop_map(Some), Just(Some(0xFFFF_FFF0u32)), any::<u32>().prop_map(Some)], proptest::collection::vec((any::<u16>(), (1u16..70).prop_map(Step::Silence)), 0..2), proptest::collection::vec((any::<u16>(), 0u8..5), 0..2)).prop_map(|(mut h, up, down, extra, faults)| {
        // a radio fault at the transmission or at one of the next radio calls of some sends: what the device has
        // learnt by then (the counter is used up) must be in the document it persists
        let sends: Vec<usize> = h.steps.iter().enumerate().filter(|(_, s)| matches!(s, Step::Send { .. })).map(|(i, _)| i).collect();
        for (pos, k) in faults {
            if sends.is_empty() {
                break;
            }
            let i = sends[(pos as usize * sends.len()) >> 16];
            if let Step::Send { rx, .. } = &mut h.steps[i] {
                rx.fault_at = Some(k);
            }
        }
        if matches!(h.activation, Activation::Abp { .. }) {
            h.activation = Activation::Abp { fcnt_up: up, fcnt_down: down };
        }
        for (pos, s) in extra {
            let at = (pos as usize * (h.steps.len() + 1)) >> 16;
            h.steps.insert(at, s);
        }
        let _ = Reg::from_name(h.cfg.region.name());
        let _ = gen::freq_set;
        h
    })
}

pub fn run(ctx: &mut Ctx) {
    ctx.rule = "(A0) every field: the Debug rendering (all fields, persisted or not) of the deserialised session equals that of the original, at every step boundary and, on the nb front-end, at every event inside every transaction (the application can read the session there); (A) crash-point enumeration: proptest histories (MAC-bearing downlinks so that pending answers of every length incl. full 15 bytes occur, owed ACKs, ADR counts, counters at 16/32-bit boundaries, OTAA and ABP) and for EVERY prefix length k: serialise the session with serde_json, deserialise, re-serialise and compare; build a second device from the restored session (same region and public configuration calls) and run both on a fixed-shape suffix of 4 transactions (time-outs, replays of frames accepted before the crash point, fresh authentic downlinks, a port-0 uplink): uplink bytes, responses, remembered counters and session documents must stay equal. (B) structurally mutated documents (members reordered; structs written as sequences of their values, the uplink sub-document in every member order x every pending_len; every field dropped / renamed / null / wrong type / out-of-range number, array length +-1, pending_len 0..255, counters at type limits, duplicate field, truncation at every byte, random byte edits): Err, or a session on which a 7-transaction history stays panic- and hang-free. Non-trivial: snapshot with fcnt_down = Some or pending answers or an owed ACK; mutated documents that are accepted; distinct by hash".into();
    ctx.level = "fault_enumeration".into();
    ctx.assumptions = vec![
        "negotiated MAC parameters and the channel plan are not part of the Session type; after a restore they restart from the regional defaults, so RX/TX radio configurations are not compared, only frames, responses and session documents".into(),
        "the restored twin gets the same set_datarate/set_adr calls as the original".into(),
    ];
    let seed = ctx.seed;
    let cases = ctx.tier.pick(10_000u32, 150_000);
    let nthreads = ctx.threads as u32;
    ctx.parallel(|ti, _n, st| {
        let f = run_proptest(history_strategy(), cases / nthreads + 1, seed ^ 0xC20 ^ ((ti as u64) << 36), st, |h, st| {
            for k in 0..=h.steps.len() {
                st.eval();
                st.class("crash-point");
                if let Some(nt) = check_at(h, k)? {
                    if nt {
                        st.nt_hash(fnv64(format!("{}{k}", h.json()).as_bytes()));
                        if st.want_sample() && k > 1 {
                            st.sample(json!({"kind": "persist", "history": h.json(), "persist_after_steps": k}));
                        }
                    }
                }
            }
            // nb front-end: snapshots taken between the events of each transaction
            let n = check_midflight(h)?;
            if n > 0 {
                st.evaluations += n as u64;
                st.class_n("midflight-snapshot", n as u64);
            }
            Ok(())
        });
        if let Some(f) = f {
            st.fail(f);
        }
    });
    // (A') pending answers of every length 0..=15 (and overflow), persisted right after the downlink
    ctx.parallel(|ti, n, st| {
        let mut k = 0usize;
        for region in REGIONS {
            let reg = Reg::from_name(region.name()).unwrap();
            let f = gen::freq_set(reg)[4];
            // AsyncSeeded: the restored device is built by new_with_seed_and_session
            for front in [FrontKind::Async, FrontKind::Nb, FrontKind::AsyncSeeded] {
                for l in 0..=17usize {
                    for confirmed in [false, true] {
                        k += 1;
                        if k % n != ti {
                            continue;
                        }
                        let mut cmds = vec![];
                        for _ in 0..l / 2 {
                            cmds.push(Cmd::RxParamSetupReq { dl_settings: 0, freq: f });
                        }
                        if l % 2 == 1 {
                            cmds.insert(0, Cmd::RxTimingSetupReq(3));
                        }
                        let h = History { cfg: DevCfg { region, join_bias: None, front, board: (14, 0) }, activation: Activation::Abp { fcnt_up: 0xFFFE + l as u32, fcnt_down: Some(0xFFFF) }, board: Board::default(), rng_script: vec![], rng_seed: seed ^ k as u64,
                            steps: vec![Step::Send { port: 3, len: 1, confirmed: false, rx: RxPlan::rx1(Recipe::Auth { delta: 1, confirmed, port: Some(0), payload_len: 0, fopts: vec![], frm_cmds: cmds, ack: false, fpending: false }) }, Step::Send { port: 4, len: 1, confirmed: false, rx: RxPlan::default() }] };
                        for at in 0..=2 {
                            st.eval();
                            st.class("pending-length-grid");
                            match check_at(&h, at) {
                                Ok(Some(true)) => st.nt_hash(fnv64(format!("grid{}{at}", h.json()).as_bytes())),
                                Ok(_) => {}
                                Err(f) => st.fail(f),
                            }
                        }
                    }
                }
            }
        }
    });
    // (B) mutated documents from real sessions
    let n_docs = ctx.tier.pick(6usize, 200);
    ctx.parallel(|ti, n, st| {
        let mut rng = SplitMix::new(seed ^ 0xC20B ^ ti as u64);
        for di in 0..n_docs {
            if di % n != ti {
                continue;
            }
            // a real document: run a short history with pending answers
            let cfg = DevCfg { region: REGIONS[di % 9], join_bias: None, front: [FrontKind::Async, FrontKind::Nb, FrontKind::AsyncSeeded, FrontKind::Nb][di % 4], board: (14, 0) };
            let h = History { cfg: cfg.clone(), activation: Activation::Abp { fcnt_up: rng.next_u32(), fcnt_down: if di % 3 == 0 { None } else { Some(rng.next_u32()) } }, board: Board::default(), rng_script: vec![], rng_seed: rng.next_u64(),
                steps: vec![Step::Send { port: 1, len: 1, confirmed: false, rx: RxPlan::rx1(Recipe::Auth { delta: 1, confirmed: true, port: None, payload_len: 0, fopts: vec![Cmd::RxTimingSetupReq(2), Cmd::DevStatusReq], frm_cmds: vec![], ack: false, fpending: false }) }] };
            let Ok((mut w, _)) = run_history(&h) else { continue };
            let Some(doc) = w.front.session_json() else { continue };
            let mut docs = vec![];
            mutate_documents(&doc, &mut rng, &mut docs);
            for text in docs {
                st.eval();
                match check_document(&cfg, &text) {
                    Ok(accepted) => {
                        st.class(if accepted { "mutated-document-accepted" } else { "mutated-document-rejected" });
                        if accepted {
                            st.nt_hash(fnv64(text.as_bytes()));
                        }
                    }
                    Err(f) => st.fail(f),
                }
            }
        }
    });
    // ---- cross-generator stage (see props/cross.rs)
    ctx.rule.push_str(super::cross::CROSS_RULE);
    let cross_cases = ctx.tier.pick(super::cross::QUICK_PER_GEN, super::cross::THOROUGH_PER_GEN);
    super::cross::stage(ctx, "C20", cross_cases);
}
