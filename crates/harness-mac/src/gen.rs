//! Shared proptest strategies for histories (used by C04, C05, C07, C08, C09, C10, C11, C12, C20).

use crate::drive::fronts::*;
use crate::drive::history::*;
use crate::drive::net::*;
use verif_core::oracle::refcodec::RefCfList;
use verif_core::oracle::refregion::Reg;
use verif_core::proptest::prelude::*;

pub fn freq_set(reg: Reg) -> Vec<u32> {
    let (lo, hi) = reg.band();
    let mut v = vec![0, lo - 100, lo, lo + 100, (lo + hi) / 2 / 100 * 100, hi - 100, hi, hi + 100, 0xFFFFFF * 100, 100];
    v.extend(reg.default_channels());
    v.push(reg.rx2_default().0);
    v
}

pub fn freq_strategy(reg: Reg) -> impl Strategy<Value = u32> {
    let set = freq_set(reg);
    let (lo, hi) = reg.band();
    prop_oneof![
        3 => (0..set.len()).prop_map(move |i| set[i]),
        3 => (lo / 100..=hi / 100).prop_map(|f| f * 100),
        1 => (0u32..=0xFFFFFF).prop_map(|f| f * 100),
    ]
}

pub fn mask_strategy() -> impl Strategy<Value = u16> {
    prop_oneof![
        2 => Just(0xFFFFu16),
        1 => Just(0u16),
        2 => Just(0x0007u16),
        2 => (0u32..16).prop_map(|b| 1u16 << b),
        2 => Just(0x00FFu16),
        3 => any::<u16>(),
    ]
}

/// any downlink MAC command with arbitrary (also reserved / out-of-range) field values
pub fn cmd_strategy(reg: Reg) -> impl Strategy<Value = Cmd> {
    prop_oneof![
        6 => (prop_oneof![0u8..=7, Just(15u8), 0u8..=15], prop_oneof![0u8..=7, Just(15u8), 0u8..=15], mask_strategy(), 0u8..=7, 0u8..=15).prop_map(|(dr, txp, mask, cntl, nbtrans)| Cmd::LinkAdrReq { dr, txp, mask, cntl, nbtrans }),
        1 => (any::<u8>(), mask_strategy(), any::<u8>()).prop_map(|(dr_txp, mask, redundancy)| Cmd::LinkAdrReqRaw { dr_txp, mask, redundancy }),
        1 => any::<u8>().prop_map(Cmd::DutyCycleReq),
        3 => (any::<u8>(), freq_strategy(reg)).prop_map(|(dl_settings, freq)| Cmd::RxParamSetupReq { dl_settings, freq }),
        2 => Just(Cmd::DevStatusReq),
        3 => (prop_oneof![0u8..16, any::<u8>()], freq_strategy(reg), prop_oneof![Just(0x50u8), Just(0x30u8), any::<u8>()]).prop_map(|(idx, freq, dr_range)| Cmd::NewChannelReq { idx, freq, dr_range }),
        2 => any::<u8>().prop_map(Cmd::RxTimingSetupReq),
        1 => any::<u8>().prop_map(Cmd::TxParamSetupReq),
        2 => (prop_oneof![0u8..16, any::<u8>()], freq_strategy(reg)).prop_map(|(idx, freq)| Cmd::DlChannelReq { idx, freq }),
        1 => (any::<u8>(), any::<u8>()).prop_map(|(margin, gw)| Cmd::LinkCheckAns { margin, gw }),
        1 => (any::<u32>(), any::<u8>()).prop_map(|(secs, frac)| Cmd::DeviceTimeAns { secs, frac }),
        1 => proptest::collection::vec(any::<u8>(), 1..4).prop_map(Cmd::Raw),
    ]
}

pub fn cflist_strategy(reg: Reg) -> impl Strategy<Value = Option<RefCfList>> {
    prop_oneof![
        3 => Just(None),
        4 => proptest::collection::vec(freq_strategy(reg), 5).prop_map(|f| Some(RefCfList::Type0([f[0] / 100, f[1] / 100, f[2] / 100, f[3] / 100, f[4] / 100]))),
        3 => prop_oneof![Just([0xFFu8; 9]), Just([0u8; 9]), Just([0, 0, 0, 0, 0, 0, 0, 0, 0xFF]), Just([0xFF, 0, 0, 0, 0, 0, 0, 0, 0x01]), any::<[u8; 9]>(),
            // one sub-band (any of the eight banks) with its 500 kHz channel, or a sparse mask: one or two banks with arbitrary bits
            (0usize..8).prop_map(|b| { let mut m = [0u8; 9]; m[b] = 0xFF; m[8] = 1 << b; m }),
            (0usize..8, 0usize..8, any::<u8>(), any::<u8>(), any::<u8>()).prop_map(|(b1, b2, v1, v2, v8)| { let mut m = [0u8; 9]; m[b1] |= v1; m[b2] |= v2; m[8] = v8; m })].prop_map(|m| Some(RefCfList::Type1(m))),
        1 => any::<[u8; 16]>().prop_map(|r| Some(RefCfList::Raw(r))),
    ]
}

pub fn join_accept_strategy(reg: Reg, valid_only: bool) -> impl Strategy<Value = Recipe> {
    let wrong = if valid_only { Just(false).boxed() } else { prop_oneof![9 => Just(false), 2 => Just(true)].boxed() };
    let flip = if valid_only { Just(None).boxed() } else { proptest::option::weighted(0.15, any::<u16>()).boxed() };
    (any::<u8>(), any::<u8>(), cflist_strategy(reg), wrong, flip, any::<u32>(), any::<u32>(), any::<u32>())
        .prop_map(|(dl_settings, rx_delay, cflist, wrong_key, flip_bit, dev_addr, net_id, join_nonce)| Recipe::JoinAccept { dl_settings, rx_delay, cflist, wrong_key, stale_nonce: false, flip_bit, dev_addr, net_id, join_nonce })
}

/// every kind of frame a device can hear
pub fn recipe_strategy(reg: Reg) -> impl Strategy<Value = Recipe> {
    let cmds = || proptest::collection::vec(cmd_strategy(reg), 0..4);
    prop_oneof![
        8 => (prop_oneof![6 => Just(1i64), 2 => 2i64..5, 1 => Just(16384i64), 1 => Just(16385i64), 1 => -3i64..=0, 1 => Just(65536i64)], any::<bool>(), proptest::option::of(prop_oneof![1u8..=223, Just(0u8)]), 0u8..40, cmds(), prop_oneof![6 => Just(vec![]), 2 => proptest::collection::vec(cmd_strategy(reg), 1..5), 1 => proptest::collection::vec(cmd_strategy(reg), 5..24)], any::<bool>(), any::<bool>())
            .prop_map(|(delta, confirmed, port, payload_len, fopts, frm_cmds, ack, fpending)| Recipe::Auth { delta, confirmed, port, payload_len, fopts, frm_cmds, ack, fpending }),
        2 => any::<u16>().prop_map(Recipe::Replay),
        2 => (any::<u16>(), any::<bool>()).prop_map(|(bit, with_cmds)| Recipe::BitFlip { bit, with_cmds }),
        1 => any::<bool>().prop_map(|plus| Recipe::WrongEpoch { plus }),
        1 => any::<bool>().prop_map(|same_addr| Recipe::Foreign { same_addr }),
        1 => (any::<bool>(), 0u8..6).prop_map(|(authentic, excess)| Recipe::Oversize { authentic, excess }),
        1 => join_accept_strategy(reg, false),
        2 => crate::gen::random_bytes_strategy().prop_map(Recipe::Random),
    ]
}

/// arbitrary bytes heard on the air: the special lengths are drawn deliberately (an empty reception, a
/// lone octet, the shortest parseable frames, lengths around the frame limits), the rest uniformly
pub fn random_bytes_strategy() -> impl Strategy<Value = Vec<u8>> {
    prop_oneof![
        2 => Just(vec![]),
        2 => proptest::collection::vec(any::<u8>(), 1..=12),
        5 => proptest::collection::vec(any::<u8>(), 0..64),
        1 => proptest::collection::vec(any::<u8>(), 64..=255),
    ]
}

pub fn plan_strategy(reg: Reg, class_c: bool) -> impl Strategy<Value = RxPlan> {
    let slot = move |none_w: u32| prop_oneof![none_w => Just(vec![]), 3 => proptest::collection::vec(recipe_strategy(reg), 1..=2)].boxed();
    let gap = move || if class_c { slot(6) } else { Just(vec![]).boxed() };
    (gap(), slot(3), gap(), slot(4)).prop_map(|(gap1, rx1, gap2, rx2)| RxPlan { gap1, rx1, gap2, rx2, fault_at: None })
}

pub fn join_plan_strategy(reg: Reg) -> impl Strategy<Value = RxPlan> {
    prop_oneof![
        4 => join_accept_strategy(reg, false).prop_map(RxPlan::rx1),
        3 => join_accept_strategy(reg, false).prop_map(RxPlan::rx2),
        1 => Just(RxPlan::default()),
        2 => (recipe_strategy(reg), join_accept_strategy(reg, false)).prop_map(|(a, b)| RxPlan { rx1: vec![a], rx2: vec![b], ..Default::default() }),
    ]
}

pub fn uplink_dr_strategy(reg: Reg) -> impl Strategy<Value = u8> {
    let v: Vec<u8> = (0..16u8).filter(|d| reg.is_uplink_dr(*d)).collect();
    (0..v.len()).prop_map(move |i| v[i])
}

pub fn step_strategy(reg: Reg, class_c: bool, allow_join: bool) -> impl Strategy<Value = Step> {
    let mut v: Vec<(u32, BoxedStrategy<Step>)> = vec![
        (10, (prop_oneof![8 => 1u8..=223, 1 => Just(0u8), 1 => 224u8..=255], prop_oneof![8 => 0u8..50, 1 => 50u8..=242, 1 => Just(242u8)], any::<bool>(), plan_strategy(reg, class_c)).prop_map(|(port, len, confirmed, rx)| Step::Send { port, len, confirmed, rx }).boxed()),
        (1, uplink_dr_strategy(reg).prop_map(Step::SetDr).boxed()),
        (1, any::<bool>().prop_map(Step::SetAdr).boxed()),
        (1, prop_oneof![3 => Just(false), 1 => Just(true)].prop_map(Step::SetDrain).boxed()),
        (1, prop_oneof![3 => 1u16..8, 1 => 90u16..140].prop_map(Step::Silence).boxed()),
        (1, any::<bool>().prop_map(|serde| Step::HandBack { serde }).boxed()),
    ];
    if class_c {
        v.push((1, any::<bool>().prop_map(Step::SetClassC).boxed()));
        v.push((2, proptest::collection::vec(recipe_strategy(reg), 0..3).prop_map(Step::RxcListen).boxed()));
    }
    if allow_join {
        v.push((1, join_plan_strategy(reg).prop_map(Step::Join).boxed()));
        // runs of unanswered join attempts: the join-channel walk of fixed plans has state that only
        // long runs reach (sub-band rotation, exhausted retries)
        v.push((1, prop_oneof![4 => 1u16..6, 1 => 40u16..90].prop_map(Step::JoinSilence).boxed()));
        v.push((1, Just(Step::JoinAbp).boxed()));
        v.push((1, (0u8..5).prop_map(Step::SetCreds).boxed()));
        v.push((1, (any::<bool>(), prop_oneof![Just(0u32), 1u32..40, 0xFFFEu32..0x10002, Just(0xFFFF_FFFEu32)], proptest::option::of(prop_oneof![0u32..40, 0xFFF0u32..0x10010])).prop_map(|(alt, fcnt_up, fcnt_down)| Step::SetSession { alt, fcnt_up, fcnt_down }).boxed()));
    }
    proptest::strategy::Union::new_weighted(v)
}

/// Dynamic plans: a join whose type-0 CFList defines five channels, a LinkADRReq that narrows the mask to
/// a subset of them, a re-join whose CFList leaves some of the five entries at 0 (removing those channels
/// while the mask survives), then traffic. `k` enumerates (enabled subset 1..=31) x (kept entries 0..=31).
pub fn rejoin_cflist_history(region: RegionId, front: FrontKind, seed: u64, k: usize) -> History {
    rejoin_cflist_history_with(region, front, seed, k, false)
}

/// `marks`: the first session also changes the RX1 downlink frequency of one CFList channel and the
/// data-rate range of another (DlChannelReq / NewChannelReq) before the re-join.
pub fn rejoin_cflist_history_with(region: RegionId, front: FrontKind, seed: u64, k: usize, marks: bool) -> History {
    use crate::drive::net::{Cmd, Recipe};
    use verif_core::oracle::refcodec::RefCfList;
    let reg = Reg::from_name(region.name()).unwrap();
    let (lo, hi) = reg.band();
    let nd = reg.default_channels().len();
    let step = ((hi - lo) / 8 / 100).max(1);
    let fr: Vec<u32> = (1..=5u32).map(|i| lo / 100 + i * step).collect();
    let (subset, kept) = (1 + (k % 31) as u16, (k / 31 % 32) as u8);
    let cf = |keep: u8| RefCfList::Type0(std::array::from_fn(|i| if keep & (1 << i) != 0 { fr[i] } else { 0 }));
    let ja = |keep: u8, nonce: u32| Recipe::JoinAccept { dl_settings: 0, rx_delay: 1, cflist: Some(cf(keep)), wrong_key: false, stale_nonce: false, flip_bit: None, dev_addr: 0x0102_0300 + nonce, net_id: 0x13, join_nonce: 10 + nonce };
    let mask: u16 = (0..5).filter(|i| subset & (1 << i) != 0).fold(0u16, |m, i| m | (1 << (nd + i)));
    let steps = vec![
        Step::Join(RxPlan::rx1(ja(0x1F, 1))),
        Step::Send { port: 1, len: 1, confirmed: false, rx: RxPlan::rx1(Recipe::auth_cmds(1, if marks {
            // the downlink also leaves marks on two of the CFList channels: another RX1 downlink
            // frequency, another data-rate range
            vec![
                Cmd::LinkAdrReq { dr: 15, txp: 15, mask, cntl: 0, nbtrans: 1 },
                Cmd::DlChannelReq { idx: (nd + k % 5) as u8, freq: fr[(k + 1) % 5] * 100 },
                Cmd::NewChannelReq { idx: (nd + (k + 2) % 5) as u8, freq: fr[(k + 2) % 5] * 100, dr_range: 0x30 },
            ]
        } else {
            vec![Cmd::LinkAdrReq { dr: 15, txp: 15, mask, cntl: 0, nbtrans: 1 }]
        })) },
        Step::Send { port: 1, len: 1, confirmed: false, rx: RxPlan::default() },
        Step::Join(RxPlan::rx1(ja(kept, 2))),
        Step::Silence(3),
        Step::Send { port: 2, len: 2, confirmed: true, rx: RxPlan::rx1(Recipe::auth_empty(1)) },
    ];
    History { cfg: DevCfg { region, join_bias: None, front, board: (14, 0) }, activation: Activation::Otaa, board: Board::default(), rng_script: vec![], rng_seed: seed ^ k as u64, steps }
}

/// Scripted random numbers: a few arbitrary values, values at the type limits, or an entropy source that
/// dwells on one value for a long while (a rejection-sampling loop then needs that many draws, well inside
/// the per-call budget) before the fair continuation takes over.
pub fn rng_script_strategy() -> impl Strategy<Value = Vec<u32>> {
    let v = || prop_oneof![3 => any::<u32>(), 1 => Just(0u32), 1 => Just(u32::MAX), 1 => Just(0x7FFF_FFFFu32), 1 => Just(0x8000_0000u32), 1 => 0u32..80];
    prop_oneof![
        6 => proptest::collection::vec(v(), 0..6),
        1 => (proptest::collection::vec(v(), 0..4), v(), 200usize..1500).prop_map(|(mut pre, x, n)| { pre.extend(std::iter::repeat(x).take(n)); pre }),
    ]
}

/// SNR the radio reports for received frames: usually plausible, sometimes anything an i8 can hold
pub fn snr_strategy() -> impl Strategy<Value = i8> {
    prop_oneof![4 => -20i8..=12, 1 => Just(31i8), 1 => Just(32i8), 1 => Just(-32i8), 1 => Just(-33i8), 1 => Just(127i8), 1 => Just(-128i8), 2 => any::<i8>()]
}

pub fn cfg_strategy() -> impl Strategy<Value = DevCfg> {
    (0usize..9, 0usize..3, proptest::option::weighted(0.4, (1u8..=8, prop_oneof![4 => Just(1usize), 4 => 2usize..5, 1 => Just(0usize), 1 => Just(255usize)])), 0usize..BOARDS.len()).prop_map(|(ri, fk, bias, b)| {
        let region = REGIONS[ri];
        // one configuration in eight has a radio buffer smaller than a full frame (64 or 255 bytes)
        let small = (ri + fk + b) % 8 == 3;
        let front = if small { [FrontKind::NbBuf64, FrontKind::AsyncBuf255, FrontKind::AsyncBuf64, FrontKind::NbBuf255][(ri + b) % 4] } else { [FrontKind::Nb, FrontKind::Async, FrontKind::AsyncClassC][fk] };
        // ... and one in eight the crate's default downlink queue of depth 1 instead of the harness's 4
        let q1 = (ri + fk + b) % 8 == 5;
        // (FrontKind::AsyncSeeded is not drawn here: the crate's own PRNG has no draw budget, so a selection that
        // never terminates would hang the check instead of being reported; C20 uses it for restored devices)
        let front = if q1 { [FrontKind::NbQ1, FrontKind::AsyncQ1][(ri + b) % 2] } else { front };
        DevCfg { region, join_bias: if region.fixed() { bias } else { None }, front, board: if small || q1 { (14, 0) } else { BOARDS[b] } }
    })
}

/// calls the nb application makes in mid-transaction (`Board::nb_meddle`): none in half of the histories,
/// otherwise a sparse or a dense pattern
pub fn meddle_pattern(seed: u64) -> u32 {
    match (seed >> 16) % 4 {
        0 | 1 => 0,
        2 => ((seed >> 24) & (seed >> 40)) as u32,
        _ => (seed >> 24) as u32,
    }
}

/// general random histories: OTAA (join first) or ABP, any region / front-end
pub fn history_strategy(max_steps: usize) -> impl Strategy<Value = History> {
    (cfg_strategy(), any::<bool>(), any::<u64>(), rng_script_strategy(), (any::<bool>(), snr_strategy())).prop_flat_map(move |(cfg, otaa, seed, script, (nb_async, snr))| {
        let reg = Reg::from_name(cfg.region.name()).unwrap();
        let class_c = matches!(cfg.front, FrontKind::AsyncClassC | FrontKind::AsyncQ1 | FrontKind::AsyncSeeded);
        let first = if otaa { join_accept_strategy(reg, true).prop_map(|r| vec![Step::Join(RxPlan::rx1(r))]).boxed() } else { Just(vec![]).boxed() };
        (first, proptest::collection::vec(step_strategy(reg, class_c, true), 1..=max_steps)).prop_map(move |(mut pre, steps)| {
            pre.extend(steps);
            History { cfg: cfg.clone(), activation: if otaa { Activation::Otaa } else { Activation::Abp { fcnt_up: 0, fcnt_down: None } }, board: Board { nb_async_tx: nb_async, snr, nb_duration_ms: [100, 100, 100, 999, 1000, 1500][(seed % 6) as usize], tx_ms: if cfg.front == FrontKind::Nb { [0u32, 0, 7, 0x7FFF_FD00, 0xFFFF_FB00, 0xFFFF_FFFF][((seed >> 8) % 6) as usize] } else { [0u32, 0, 40, 2800][((seed >> 8) % 4) as usize] }, nb_meddle: meddle_pattern(seed), ..Default::default() }, rng_script: script.clone(), rng_seed: seed, steps: pre }
        })
    })
}
