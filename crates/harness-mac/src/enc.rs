//! Bridges between the reference descriptions (verif_core::oracle::refcodec) and the crate under
//! test, plus shared generators for frame descriptions.

use lorawan::creator::{DataFrame, JoinAccept, JoinRequest, Payload};
use lorawan::default_crypto::{DefaultCrypto, DefaultNetworkCrypto};
use lorawan::keys::AES128;
use lorawan::parser::{CfList, DataFrameType, DevAddr, DevEui, DevNonce, Error, Frequency, JoinEui, JoinNonce, NetId};
use lorawan::types::{ChannelMask, DLSettings};
use serde_json::{json, Value};
use std::num::NonZeroU8;
use verif_core::oracle::refcodec::*;
use verif_core::proptest::prelude::*;
use verif_core::*;

/// A user-supplied implementation of the crate's `Crypto` / `NetworkCrypto` traits that honours exactly
/// the documented contract — one 16-byte block per call (think of a hardware AES engine with a single
/// 128-bit data register) — built on the harness's own AES-128 / CMAC. A call with any other length is a
/// breach of that contract by the caller and panics (reported like any other panic).
pub struct StrictCrypto(verif_core::oracle::aes::Aes128);

impl StrictCrypto {
    pub fn new(key: &[u8; 16]) -> Self {
        StrictCrypto(verif_core::oracle::aes::Aes128::new(key))
    }
}

impl lorawan::keys::Crypto for StrictCrypto {
    fn encrypt_block(&self, block: &mut [u8]) {
        assert!(block.len() == 16, "Crypto::encrypt_block called with {} bytes; the trait documents exactly 16", block.len());
        let b: [u8; 16] = block.try_into().unwrap();
        block.copy_from_slice(&self.0.encrypt(&b));
    }
    fn calculate_mic(&self, b0: &[u8], data: &[u8]) -> [u8; 4] {
        let mut m = b0.to_vec();
        m.extend_from_slice(data);
        let t = verif_core::oracle::aes::cmac(&self.0, &m);
        [t[0], t[1], t[2], t[3]]
    }
}

impl lorawan::keys::NetworkCrypto for StrictCrypto {
    fn decrypt_block(&self, block: &mut [u8]) {
        assert!(block.len() == 16, "NetworkCrypto::decrypt_block called with {} bytes; the trait documents exactly 16", block.len());
        let b: [u8; 16] = block.try_into().unwrap();
        block.copy_from_slice(&self.0.decrypt(&b));
    }
}

/// Builds `d` with the user-supplied crypto implementation.
pub fn repo_build_data_strict(d: &DataDesc, nwk: &[u8; 16], app: Option<&[u8; 16]>, buflen: usize) -> Result<Vec<u8>, Error> {
    let payload: Payload<'_> = match &d.payload {
        RefPayload::None => Payload::None,
        RefPayload::Data { port, data } => Payload::Data { f_port: NonZeroU8::new(*port).expect("generator never makes Data on port 0"), data },
        RefPayload::Mac(c) => Payload::MacCommands(c),
    };
    let frame = DataFrame { frame_type: ftype_to_repo(d.ftype), dev_addr: DevAddr::from_value(d.dev_addr), adr: d.adr, adr_ack_req: d.adr_ack_req, ack: d.ack, f_pending: d.f_pending, fcnt: d.fcnt, f_opts: &d.fopts, payload };
    let mut buf = vec![0xA5u8; buflen];
    let n = StrictCrypto::new(nwk);
    let a = app.map(StrictCrypto::new);
    frame.build_into(&mut buf, &n, a.as_ref()).map(|b| b.to_vec())
}

pub fn repo_build_join_request_strict(d: &JoinReqDesc, key: &[u8; 16]) -> Result<Vec<u8>, Error> {
    let jr = JoinRequest { join_eui: JoinEui::from_value(d.join_eui), dev_eui: DevEui::from_value(d.dev_eui), dev_nonce: DevNonce::from_value(d.dev_nonce) };
    let mut buf = vec![0xA5u8; 64];
    jr.build_into(&mut buf, &StrictCrypto::new(key)).map(|b| b.to_vec())
}

pub fn repo_build_join_accept_strict(d: &JoinAcceptDesc, key: &[u8; 16]) -> Result<Vec<u8>, Error> {
    let ja = JoinAccept { join_nonce: JoinNonce::from_value(d.join_nonce), net_id: NetId::from_value(d.net_id), dev_addr: DevAddr::from_value(d.dev_addr), dl_settings: DLSettings::new(d.dl_settings), rx_delay: d.rx_delay, c_f_list: repo_cflist(&d.cflist).expect("typed CFList") };
    let mut buf = vec![0xA5u8; 64];
    ja.build_into(&mut buf, &StrictCrypto::new(key)).map(|b| b.to_vec())
}

pub fn ftype_to_repo(f: FType) -> DataFrameType {
    match f {
        FType::UnconfUp => DataFrameType::UnconfirmedUp,
        FType::UnconfDown => DataFrameType::UnconfirmedDown,
        FType::ConfUp => DataFrameType::ConfirmedUp,
        FType::ConfDown => DataFrameType::ConfirmedDown,
    }
}

pub fn ftype_from_repo(f: DataFrameType) -> FType {
    match f {
        DataFrameType::UnconfirmedUp => FType::UnconfUp,
        DataFrameType::UnconfirmedDown => FType::UnconfDown,
        DataFrameType::ConfirmedUp => FType::ConfUp,
        DataFrameType::ConfirmedDown => FType::ConfDown,
    }
}

/// Builds `d` with the crate's DataFrame builder into a buffer of `buflen` bytes (pre-filled with
/// 0xA5). Returns the built bytes and whether the returned slice is the front of the buffer.
pub fn repo_build_data(d: &DataDesc, nwk: &[u8; 16], app: Option<&[u8; 16]>, buflen: usize, network_crypto: bool) -> Result<(Vec<u8>, bool), Error> {
    let (payload, _keep): (Payload<'_>, ()) = match &d.payload {
        RefPayload::None => (Payload::None, ()),
        RefPayload::Data { port, data } => (Payload::Data { f_port: NonZeroU8::new(*port).expect("generator never makes Data on port 0"), data }, ()),
        RefPayload::Mac(c) => (Payload::MacCommands(c), ()),
    };
    // a description that leaves the header flags (and more) at their documented defaults is written the way
    // applications write it: with struct update syntax from `DataFrame::default()`
    let plain_flags = !d.adr && !d.adr_ack_req && !d.ack && !d.f_pending;
    let frame = if plain_flags && d.fopts.is_empty() && d.fcnt == 0 && d.dev_addr == 0 && d.ftype == FType::UnconfUp {
        DataFrame { payload, ..Default::default() }
    } else if plain_flags && d.fopts.is_empty() {
        DataFrame { frame_type: ftype_to_repo(d.ftype), dev_addr: DevAddr::from_value(d.dev_addr), fcnt: d.fcnt, payload, ..Default::default() }
    } else if plain_flags {
        DataFrame { frame_type: ftype_to_repo(d.ftype), dev_addr: DevAddr::from_value(d.dev_addr), fcnt: d.fcnt, f_opts: &d.fopts, payload, ..Default::default() }
    } else {
        DataFrame {
            frame_type: ftype_to_repo(d.ftype),
            dev_addr: DevAddr::from_value(d.dev_addr),
            adr: d.adr,
            adr_ack_req: d.adr_ack_req,
            ack: d.ack,
            f_pending: d.f_pending,
            fcnt: d.fcnt,
            f_opts: &d.fopts,
            payload,
        }
    };
    let mut buf = vec![0xA5u8; buflen];
    let bufptr = buf.as_ptr();
    if network_crypto {
        let n = DefaultNetworkCrypto::new(&AES128(*nwk));
        let a = app.map(|k| DefaultNetworkCrypto::new(&AES128(*k)));
        let out = frame.build_into(&mut buf, &n, a.as_ref())?;
        let front = out.as_ptr() == bufptr;
        Ok((out.to_vec(), front))
    } else {
        let n = DefaultCrypto::new(&AES128(*nwk));
        let a = app.map(|k| DefaultCrypto::new(&AES128(*k)));
        let out = frame.build_into(&mut buf, &n, a.as_ref())?;
        let front = out.as_ptr() == bufptr;
        Ok((out.to_vec(), front))
    }
}

pub fn repo_build_join_request(d: &JoinReqDesc, key: &[u8; 16], buflen: usize, network_crypto: bool) -> Result<Vec<u8>, Error> {
    let jr = JoinRequest { join_eui: JoinEui::from_value(d.join_eui), dev_eui: DevEui::from_value(d.dev_eui), dev_nonce: DevNonce::from_value(d.dev_nonce) };
    let mut buf = vec![0xA5u8; buflen];
    if network_crypto {
        jr.build_into(&mut buf, &DefaultNetworkCrypto::new(&AES128(*key))).map(|b| b.to_vec())
    } else {
        jr.build_into(&mut buf, &DefaultCrypto::new(&AES128(*key))).map(|b| b.to_vec())
    }
}

/// None when the description is not expressible with the typed builder (Raw CFList).
pub fn repo_cflist(c: &Option<RefCfList>) -> Option<Option<CfList>> {
    Some(match c {
        None => None,
        Some(RefCfList::Type0(f)) => {
            let mut fr = [Frequency::default(); 5];
            for (o, v) in fr.iter_mut().zip(f.iter()) {
                let le = v.to_le_bytes();
                *o = Frequency::from_wire_bytes([le[0], le[1], le[2]]);
            }
            Some(CfList::DynamicChannel(fr))
        }
        Some(RefCfList::Type1(m)) => Some(CfList::FixedChannel(ChannelMask::<9>::from(*m))),
        Some(RefCfList::Raw(_)) => return None,
    })
}

pub fn repo_build_join_accept(d: &JoinAcceptDesc, key: &[u8; 16], buflen: usize) -> Result<Vec<u8>, Error> {
    let ja = JoinAccept {
        join_nonce: JoinNonce::from_value(d.join_nonce),
        net_id: NetId::from_value(d.net_id),
        dev_addr: DevAddr::from_value(d.dev_addr),
        dl_settings: DLSettings::new(d.dl_settings),
        rx_delay: d.rx_delay,
        c_f_list: repo_cflist(&d.cflist).expect("typed CFList"),
    };
    let mut buf = vec![0xA5u8; buflen];
    ja.build_into(&mut buf, &DefaultNetworkCrypto::new(&AES128(*key))).map(|b| b.to_vec())
}

// ---------------------------------------------------------------- JSON forms

pub fn desc_json(d: &DataDesc) -> Value {
    let payload = match &d.payload {
        RefPayload::None => json!(null),
        RefPayload::Data { port, data } => json!({"data": hex(data), "port": port}),
        RefPayload::Mac(c) => json!({"mac": hex(c)}),
    };
    json!({"ftype": d.ftype.name(), "dev_addr": d.dev_addr, "adr": d.adr, "adr_ack_req": d.adr_ack_req, "ack": d.ack,
           "f_pending": d.f_pending, "fcnt": d.fcnt, "fopts": hex(&d.fopts), "payload": payload})
}

pub fn desc_from_json(v: &Value) -> DataDesc {
    let payload = if v["payload"].is_null() {
        RefPayload::None
    } else if let Some(m) = v["payload"]["mac"].as_str() {
        RefPayload::Mac(unhex(m))
    } else {
        RefPayload::Data { port: v["payload"]["port"].as_u64().unwrap_or(1) as u8, data: unhex(v["payload"]["data"].as_str().unwrap_or("")) }
    };
    DataDesc {
        ftype: FType::from_name(v["ftype"].as_str().unwrap_or("")).unwrap_or(FType::UnconfUp),
        dev_addr: v["dev_addr"].as_u64().unwrap_or(0) as u32,
        adr: v["adr"].as_bool().unwrap_or(false),
        adr_ack_req: v["adr_ack_req"].as_bool().unwrap_or(false),
        ack: v["ack"].as_bool().unwrap_or(false),
        f_pending: v["f_pending"].as_bool().unwrap_or(false),
        fcnt: v["fcnt"].as_u64().unwrap_or(0) as u32,
        fopts: unhex(v["fopts"].as_str().unwrap_or("")),
        payload,
    }
}

pub fn key_from_json(v: &Value) -> Option<[u8; 16]> {
    v.as_str().and_then(|s| unhex(s).try_into().ok())
}

pub fn ja_json(d: &JoinAcceptDesc) -> Value {
    let c = match &d.cflist {
        None => json!(null),
        Some(RefCfList::Type0(f)) => json!({"type0": f}),
        Some(RefCfList::Type1(m)) => json!({"type1": hex(m)}),
        Some(RefCfList::Raw(r)) => json!({"raw": hex(r)}),
    };
    json!({"join_nonce": d.join_nonce, "net_id": d.net_id, "dev_addr": d.dev_addr, "dl_settings": d.dl_settings, "rx_delay": d.rx_delay, "cflist": c})
}

pub fn ja_from_json(v: &Value) -> JoinAcceptDesc {
    let c = &v["cflist"];
    let cflist = if c.is_null() {
        None
    } else if let Some(a) = c["type0"].as_array() {
        let mut f = [0u32; 5];
        for (o, x) in f.iter_mut().zip(a.iter()) {
            *o = x.as_u64().unwrap_or(0) as u32;
        }
        Some(RefCfList::Type0(f))
    } else if let Some(m) = c["type1"].as_str() {
        Some(RefCfList::Type1(unhex(m).try_into().unwrap_or([0; 9])))
    } else {
        Some(RefCfList::Raw(unhex(c["raw"].as_str().unwrap_or("")).try_into().unwrap_or([0; 16])))
    };
    JoinAcceptDesc {
        join_nonce: v["join_nonce"].as_u64().unwrap_or(0) as u32,
        net_id: v["net_id"].as_u64().unwrap_or(0) as u32,
        dev_addr: v["dev_addr"].as_u64().unwrap_or(0) as u32,
        dl_settings: v["dl_settings"].as_u64().unwrap_or(0) as u8,
        rx_delay: v["rx_delay"].as_u64().unwrap_or(0) as u8,
        cflist,
    }
}

// ---------------------------------------------------------------- generators

pub const FCNT_BOUNDARIES: [u32; 12] =
    [0, 1, 0xFFFE, 0xFFFF, 0x10000, 0x10001, 0x7FFF_FFFF, 0x8000_0000, 0x8000_0001, 0xFFFF_0000, 0xFFFF_FFFE, 0xFFFF_FFFF];

pub fn fcnt_strategy() -> impl Strategy<Value = u32> {
    prop_oneof![
        3 => (0usize..FCNT_BOUNDARIES.len()).prop_map(|i| FCNT_BOUNDARIES[i]),
        2 => 0u32..0x10000,
        3 => any::<u32>(),
    ]
}

pub fn ftype_strategy() -> impl Strategy<Value = FType> {
    (0usize..4).prop_map(|i| FType::ALL[i])
}

pub fn key_strategy() -> impl Strategy<Value = [u8; 16]> {
    any::<[u8; 16]>()
}

pub fn bytes_strategy(max: usize) -> impl Strategy<Value = Vec<u8>> {
    proptest::collection::vec(any::<u8>(), 0..=max)
}

/// Data-frame descriptions, legal and illegal ones (FOpts up to 17 bytes, FOpts with port 0).
pub fn desc_strategy(max_fopts: usize, max_payload: usize) -> impl Strategy<Value = DataDesc> {
    let payload = prop_oneof![
        1 => Just(RefPayload::None),
        4 => (1u8..=255, bytes_strategy(max_payload)).prop_map(|(port, data)| RefPayload::Data { port, data }),
        2 => bytes_strategy(max_payload).prop_map(RefPayload::Mac),
    ];
    (ftype_strategy(), any::<u32>(), any::<[bool; 4]>(), fcnt_strategy(), prop_oneof![3 => Just(vec![]), 5 => bytes_strategy(max_fopts)], payload).prop_map(
        |(ftype, dev_addr, fl, fcnt, fopts, payload)| DataDesc { ftype, dev_addr, adr: fl[0], adr_ack_req: fl[1], ack: fl[2], f_pending: fl[3], fcnt, fopts, payload },
    )
}

pub fn cflist_strategy() -> impl Strategy<Value = Option<RefCfList>> {
    prop_oneof![
        2 => Just(None),
        3 => any::<[u32; 5]>().prop_map(|f| Some(RefCfList::Type0(f.map(|x| x & 0xFF_FFFF)))),
        3 => any::<[u8; 9]>().prop_map(|m| Some(RefCfList::Type1(m))),
    ]
}

pub fn ja_strategy() -> impl Strategy<Value = JoinAcceptDesc> {
    (0u32..0x100_0000, 0u32..0x100_0000, any::<u32>(), any::<u8>(), any::<u8>(), cflist_strategy()).prop_map(|(join_nonce, net_id, dev_addr, dl_settings, rx_delay, cflist)| JoinAcceptDesc {
        join_nonce,
        net_id,
        dev_addr,
        dl_settings,
        rx_delay,
        cflist,
    })
}
