//! Hand-written visitors that call EVERY public accessor of every parsed MAC / certification /
//! multicast-setup command and return the values read (used by C03 for totality and by C19 for
//! round trips). Adding a command to a set without extending the visitor fails to compile
//! (exhaustive matches, no wildcard arms).

use lorawan::certification::{DownlinkDUTCommand, UplinkDUTCommand};
use lorawan::default_crypto::DefaultCrypto;
use lorawan::keys::AES128;
use lorawan::maccommands::{DownlinkMacCommand, SerializableMacCommand, UplinkMacCommand};
use lorawan::multicast::{DownlinkRemoteSetup, UplinkRemoteSetup};

pub type Fields = Vec<(&'static str, i64)>;

fn b(x: bool) -> i64 {
    x as i64
}

pub fn visit_down_mac(c: &DownlinkMacCommand<'_>) -> (&'static str, Fields) {
    use DownlinkMacCommand::*;
    match c {
        LinkCheckAns(p) => ("LinkCheckAns", vec![("margin", p.margin() as i64), ("gateway_count", p.gateway_count() as i64)]),
        LinkADRReq(p) => {
            let cm = p.channel_mask();
            let r = p.redundancy();
            let mut f = vec![
                ("data_rate", p.data_rate() as u8 as i64),
                ("tx_power", p.tx_power() as u8 as i64),
                ("mask0", cm.get_index(0) as i64),
                ("mask1", cm.get_index(1) as i64),
                ("ch_mask_cntl", r.channel_mask_control() as i64),
                ("nb_trans", r.number_of_transmissions() as i64),
                ("redundancy_raw", r.raw_value() as i64),
            ];
            let st: [bool; 16] = cm.statuses();
            for (i, s) in st.iter().enumerate() {
                if cm.is_enabled(i).unwrap_or(false) != *s {
                    f.push(("statuses_disagree", i as i64));
                }
            }
            ("LinkADRReq", f)
        }
        DutyCycleReq(p) => {
            let m = p.max_duty_cycle();
            ("DutyCycleReq", vec![("max_duty_cycle_raw", p.max_duty_cycle_raw() as i64), ("max_duty_cycle_1e9", (m as f64 * 1e9) as i64)])
        }
        RXParamSetupReq(p) => {
            let d = p.dl_settings();
            ("RXParamSetupReq", vec![("rx1_dr_offset", d.rx1_dr_offset() as i64), ("rx2_data_rate", d.rx2_data_rate() as u8 as i64), ("dl_raw", d.raw_value() as i64), ("frequency", p.frequency().value() as i64)])
        }
        DevStatusReq(_) => ("DevStatusReq", vec![]),
        NewChannelReq(p) => {
            let mut f = vec![("channel_index", p.channel_index() as i64), ("frequency", p.frequency().value() as i64)];
            match p.data_rate_range() {
                Ok(r) => {
                    f.push(("dr_min", r.min_data_rate() as i64));
                    f.push(("dr_max", r.max_data_rate() as i64));
                    f.push(("dr_raw", r.raw_value() as i64));
                }
                Err(_) => f.push(("dr_range_err", 1)),
            }
            ("NewChannelReq", f)
        }
        RXTimingSetupReq(p) => ("RXTimingSetupReq", vec![("delay", p.delay() as i64)]),
        TXParamSetupReq(p) => ("TXParamSetupReq", vec![("downlink_dwell_time", b(p.downlink_dwell_time())), ("uplink_dwell_time", b(p.uplink_dwell_time())), ("max_eirp", p.max_eirp() as i64)]),
        DlChannelReq(p) => ("DlChannelReq", vec![("channel_index", p.channel_index() as i64), ("frequency", p.frequency().value() as i64)]),
        DeviceTimeAns(p) => ("DeviceTimeAns", vec![("seconds", p.seconds() as i64), ("nano_seconds", p.nano_seconds() as i64)]),
    }
}

pub fn visit_up_mac(c: &UplinkMacCommand<'_>) -> (&'static str, Fields) {
    use UplinkMacCommand::*;
    match c {
        LinkCheckReq(_) => ("LinkCheckReq", vec![]),
        LinkADRAns(p) => ("LinkADRAns", vec![("channel_mask_ack", b(p.channel_mask_ack())), ("data_rate_ack", b(p.data_rate_ack())), ("power_ack", b(p.powert_ack())), ("ack", b(p.ack()))]),
        DutyCycleAns(_) => ("DutyCycleAns", vec![]),
        RXParamSetupAns(p) => ("RXParamSetupAns", vec![("channel_ack", b(p.channel_ack())), ("rx2_data_rate_ack", b(p.rx2_data_rate_ack())), ("rx1_dr_offset_ack", b(p.rx1_dr_offset_ack())), ("ack", b(p.ack()))]),
        DevStatusAns(p) => ("DevStatusAns", vec![("battery", p.battery() as i64), ("margin", p.margin() as i64)]),
        NewChannelAns(p) => ("NewChannelAns", vec![("channel_freq_ack", b(p.channel_freq_ack())), ("data_rate_range_ack", b(p.data_rate_range_ack())), ("ack", b(p.ack()))]),
        RXTimingSetupAns(_) => ("RXTimingSetupAns", vec![]),
        TXParamSetupAns(_) => ("TXParamSetupAns", vec![]),
        DlChannelAns(p) => ("DlChannelAns", vec![("channel_freq_ack", b(p.channel_freq_ack())), ("uplink_freq_ack", b(p.uplink_freq_ack())), ("ack", b(p.ack()))]),
        DeviceTimeReq(_) => ("DeviceTimeReq", vec![]),
    }
}

pub fn visit_down_dut(c: &DownlinkDUTCommand<'_>) -> (&'static str, Fields) {
    use DownlinkDUTCommand::*;
    match c {
        DutResetReq(_) => ("DutResetReq", vec![]),
        DutJoinReq(_) => ("DutJoinReq", vec![]),
        AdrBitChangeReq(p) => ("AdrBitChangeReq", vec![("adr_enable", p.adr_enable().map(|x| x as i64).unwrap_or(-1))]),
        TxPeriodicityChangeReq(p) => ("TxPeriodicityChangeReq", vec![("periodicity", p.periodicity().map(|x| x.map(|v| v as i64).unwrap_or(0)).unwrap_or(-1))]),
        TxFramesCtrlReq(p) => ("TxFramesCtrlReq", vec![("frame_type_override", p.frame_type_override().map(|x| x.map(|v| 1 + v as i64).unwrap_or(0)).unwrap_or(-1)), ("len", p.len() as i64)]),
        EchoIncPayloadReq(p) => ("EchoIncPayloadReq", vec![("payload_len", p.payload().len() as i64), ("len", p.len() as i64)]),
        RxAppCntReq(_) => ("RxAppCntReq", vec![]),
        LinkCheckReq(_) => ("LinkCheckReq", vec![]),
        DutVersionsReq(_) => ("DutVersionsReq", vec![]),
    }
}

pub fn visit_up_dut(c: &UplinkDUTCommand<'_>) -> (&'static str, Fields) {
    use UplinkDUTCommand::*;
    match c {
        EchoIncPayloadAns(p) => ("EchoIncPayloadAns", vec![("payload_len", p.payload().len() as i64), ("len", p.len() as i64)]),
        RxAppCntAns(p) => ("RxAppCntAns", vec![("len", p.len() as i64)]),
        DutVersionsAns(p) => ("DutVersionsAns", vec![("len", p.len() as i64)]),
    }
}

pub fn visit_down_mc(c: &DownlinkRemoteSetup<'_>) -> (&'static str, Fields) {
    use DownlinkRemoteSetup::*;
    match c {
        PackageVersionReq(_) => ("PackageVersionReq", vec![]),
        McGroupStatusReq(p) => ("McGroupStatusReq", vec![("req_group_mask", p.req_group_mask() as i64)]),
        McGroupSetupReq(p) => {
            let crypto = DefaultCrypto::new(&AES128([0x5a; 16]));
            let k = p.mc_key_decrypted(&crypto);
            let (a, n) = p.derive_session_keys(&crypto);
            let (gid, s) = p.derive_session(&crypto);
            let f = vec![
                ("mc_group_id_header", p.mc_group_id_header() as i64),
                ("mc_addr", p.mc_addr().value() as i64),
                ("min_mc_fcount", p.min_mc_fcount() as i64),
                ("max_mc_fcount", p.max_mc_fcount() as i64),
                ("key0", k.inner().0[0] as i64),
                ("appskey0", a.inner().0[0] as i64),
                ("netskey0", n.inner().0[0] as i64),
                ("session_gid", gid as i64),
                ("session_addr", s.multicast_addr().value() as i64),
                ("session_max", s.max_fcnt_down() as i64),
                ("session_net0", s.mc_net_s_key().inner().0[0] as i64),
                ("session_app0", s.mc_app_s_key().inner().0[0] as i64),
            ];
            ("McGroupSetupReq", f)
        }
        McGroupDeleteReq(p) => ("McGroupDeleteReq", vec![("mc_group_id_header", p.mc_group_id_header() as i64)]),
        McClassCSessionReq(p) => ("McClassCSessionReq", vec![("len", p.len() as i64)]),
        McClassBSessionReq(p) => ("McClassBSessionReq", vec![("len", p.len() as i64)]),
    }
}

pub fn visit_up_mc(c: &UplinkRemoteSetup<'_>) -> (&'static str, Fields) {
    use UplinkRemoteSetup::*;
    match c {
        PackageVersionAns(p) => ("PackageVersionAns", vec![("package_identifier", p.package_identifier() as i64), ("package_version", p.package_version() as i64)]),
        McGroupStatusAns(p) => {
            let mut f = vec![("ans_group_mask", p.ans_group_mask() as i64), ("nb_total_groups", p.nb_total_groups() as i64), ("len", p.len() as i64)];
            let mut n = 0;
            for it in p.item_iterator() {
                f.push(("item_group_id", it.mc_group_id() as i64));
                f.push(("item_addr", it.mc_addr().value() as i64));
                n += 1;
                if n > 64 {
                    f.push(("item_iterator_runaway", 1));
                    break;
                }
            }
            f.push(("items", n));
            ("McGroupStatusAns", f)
        }
        McGroupSetupAns(p) => ("McGroupSetupAns", vec![("mc_group_id_header", p.mc_group_id_header() as i64)]),
        McGroupDeleteAns(p) => ("McGroupDeleteAns", vec![("mc_group_id_header", p.mc_group_id_header() as i64), ("mc_group_undefined", b(p.mc_group_undefined()))]),
        McClassCSessionAns(p) => ("McClassCSessionAns", vec![("len", p.len() as i64)]),
        McClassBSessionAns(p) => ("McClassBSessionAns", vec![("len", p.len() as i64)]),
    }
}

/// (cid, payload bytes, payload_len, len) of any command through the common trait + inherent fns
pub fn framing<T: SerializableMacCommand>(c: &T) -> (u8, Vec<u8>, usize) {
    (c.cid(), c.payload_bytes().to_vec(), c.payload_len())
}
