//! harness-mac as a library, so that the fuzz targets reuse the same oracles.
pub mod drive;
pub mod enc;
pub mod gen;
pub mod props;
pub mod visit;
