use harness_mac::props;
use verif_core::*;

fn main() {
    install_panic_hook();
    let args = parse_args();
    if let Err(e) = oracle::self_test() {
        eprintln!("oracle self-test failed: {e}");
        std::process::exit(2);
    }
    let code = dispatch(&args, props::table());
    std::process::exit(code);
}
