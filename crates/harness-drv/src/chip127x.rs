//! Datasheet-level model of an SX1276/77/78/79 / SX1272/73 in LoRa mode for C14
//! (register addresses hard-coded from the datasheets).

use crate::chip126x::Viol;
use std::collections::BTreeSet;

#[derive(Clone, Debug, PartialEq, Eq)]
pub struct TxRec127 {
    pub frf: u32,
    pub payload: Vec<u8>,
    pub sync: u8,
    pub lora: bool,
}

pub struct Chip127x {
    pub is_1276: bool,
    pub regs: [u8; 128],
    pub fifo: [u8; 256],
    pub programmed: BTreeSet<&'static str>,
    pub tx_log: Vec<TxRec127>,
    pub rx_starts: u32,
    pub viols: Vec<Viol>,
}

pub const F_RX_TIMEOUT: u8 = 0x80;
pub const F_RX_DONE: u8 = 0x40;
pub const F_CRC_ERR: u8 = 0x20;
pub const F_VALID_HEADER: u8 = 0x10;
pub const F_TX_DONE: u8 = 0x08;
pub const F_CAD_DONE: u8 = 0x04;
pub const F_CAD_DET: u8 = 0x01;

impl Chip127x {
    pub fn new(is_1276: bool) -> Self {
        let mut c = Chip127x { is_1276, regs: [0; 128], fifo: [0; 256], programmed: BTreeSet::new(), tx_log: vec![], rx_starts: 0, viols: vec![] };
        c.por();
        c
    }
    /// power-on / NRESET: FSK/OOK mode, standby, register reset values (datasheet register tables)
    pub fn por(&mut self) {
        self.regs = [0; 128];
        let defaults: &[(u8, u8)] = if self.is_1276 {
            &[(0x01, 0x09), (0x06, 0x6C), (0x07, 0x80), (0x09, 0x4F), (0x0A, 0x09), (0x0B, 0x2B), (0x0C, 0x20), (0x0E, 0x80), (0x1D, 0x72), (0x1E, 0x70), (0x1F, 0x64), (0x21, 0x08), (0x22, 0x01), (0x23, 0xFF), (0x31, 0xC3), (0x33, 0x27), (0x37, 0x0A), (0x39, 0x12), (0x3B, 0x1D), (0x42, 0x12), (0x4B, 0x09), (0x4D, 0x84)]
        } else {
            &[(0x01, 0x01), (0x06, 0xE4), (0x07, 0xC0), (0x09, 0x0F), (0x0A, 0x19), (0x0B, 0x2B), (0x0C, 0x20), (0x0E, 0x80), (0x1D, 0x08), (0x1E, 0x70), (0x1F, 0x64), (0x21, 0x08), (0x22, 0x01), (0x23, 0xFF), (0x31, 0xC3), (0x33, 0x27), (0x37, 0x0A), (0x39, 0x12), (0x3B, 0x1D), (0x42, 0x22), (0x58, 0x09), (0x5A, 0x84)]
        };
        for (a, v) in defaults {
            self.regs[*a as usize] = *v;
        }
        self.programmed.clear();
    }
    pub fn mode(&self) -> u8 {
        self.regs[1] & 0x07
    }
    pub fn lora(&self) -> bool {
        self.regs[1] & 0x80 != 0
    }
    pub fn asleep(&self) -> bool {
        self.mode() == 0
    }
    pub fn standby(&self) -> bool {
        self.mode() == 1
    }
    pub fn receiving(&self) -> bool {
        matches!(self.mode(), 5 | 6)
    }
    pub fn dio(&self) -> bool {
        self.regs[0x12] != 0
    }
    fn set_mode(&mut self, m: u8) {
        self.regs[1] = (self.regs[1] & !0x07) | m;
    }
    fn raise(&mut self, f: u8) {
        self.regs[0x12] |= f & !self.regs[0x11];
    }
    fn frf(&self) -> u32 {
        ((self.regs[6] as u32) << 16) | ((self.regs[7] as u32) << 8) | self.regs[8] as u32
    }

    fn check_configured(&mut self, what: &'static str, api_op: &str, reduced: bool, tx: bool) {
        let mut need: Vec<&'static str> = if reduced { vec!["lora-mode", "frequency", "modulation"] } else { vec!["lora-mode", "sync-word", "buffer-base", "modulation", "packet-params", "irq-params", "frequency"] };
        if tx && !reduced {
            need.push("payload");
        }
        let lora = self.lora();
        let missing: Vec<&str> = need.iter().copied().filter(|n| if *n == "lora-mode" { !lora } else { !self.programmed.contains(n) }).collect();
        if !missing.is_empty() {
            self.viols.push(Viol { rule: "I3", fp: format!("i3/sx127x/missing:{}", missing.join("+")), detail: format!("{what} during {api_op} although {} not programmed since the last reset", missing.join(", ")) });
        }
    }

    fn write(&mut self, addr: u8, v: u8, api_op: &str) {
        match addr {
            0x00 => {
                if self.asleep() {
                    self.viols.push(Viol { rule: "I2", fp: format!("i2-sleep/{api_op}/fifo-write"), detail: format!("FIFO written during {api_op} while the chip is in sleep mode (the FIFO is not accessible in sleep)") });
                    return;
                }
                let p = self.regs[0x0D];
                self.fifo[p as usize] = v;
                self.regs[0x0D] = p.wrapping_add(1);
                self.programmed.insert("payload");
            }
            0x01 => {
                let cur_sleep = self.asleep();
                let mut nv = v;
                // LongRangeMode can only be modified in sleep mode. Silicon accepts the bit when
                // the same write requests sleep (this is how every known driver selects LoRa right
                // after reset, e.g. RadioHead verifies the read-back), so: current mode is sleep or
                // the written mode is sleep.
                if !(cur_sleep || v & 0x07 == 0) {
                    nv = (self.regs[1] & 0x80) | (v & 0x7F);
                }
                let newmode = nv & 0x07;
                self.regs[1] = nv;
                match newmode {
                    0 => {
                        // the FIFO content is lost in sleep mode
                        self.programmed.remove("payload");
                    }
                    3 => {
                        self.check_configured("TX", api_op, false, true);
                        let base = self.regs[0x0E];
                        let len = self.regs[0x22];
                        let payload = (0..len).map(|i| self.fifo[base.wrapping_add(i) as usize]).collect();
                        self.tx_log.push(TxRec127 { frf: self.frf(), payload, sync: self.regs[0x39], lora: self.lora() });
                    }
                    5 | 6 => {
                        self.check_configured(if newmode == 5 { "RXCONTINUOUS" } else { "RXSINGLE" }, api_op, api_op == "listen", false);
                        self.rx_starts += 1;
                    }
                    7 => self.check_configured("CAD", api_op, true, false),
                    _ => {}
                }
            }
            0x12 => self.regs[0x12] &= !v,
            0x10 | 0x13 | 0x14..=0x1C | 0x25 | 0x28..=0x2A | 0x2C | 0x42 => {}
            _ => {
                self.regs[addr as usize] = v;
                match addr {
                    0x06..=0x08 => {
                        self.programmed.insert("frequency");
                    }
                    0x39 => {
                        self.programmed.insert("sync-word");
                    }
                    0x0E | 0x0F => {
                        self.programmed.insert("buffer-base");
                    }
                    0x1D | 0x1E => {
                        self.programmed.insert("modulation");
                    }
                    0x20 | 0x21 => {
                        self.programmed.insert("packet-params");
                    }
                    0x11 | 0x40 => {
                        self.programmed.insert("irq-params");
                    }
                    0x22 => {
                        // payload length written together with the FIFO content (zero-length
                        // payloads write no FIFO byte at all)
                        self.programmed.insert("payload");
                    }
                    _ => {}
                }
            }
        }
    }
    fn read(&mut self, addr: u8, api_op: &str) -> u8 {
        if addr == 0 {
            if self.asleep() {
                self.viols.push(Viol { rule: "I2", fp: format!("i2-sleep/{api_op}/fifo-read"), detail: format!("FIFO read during {api_op} while the chip is in sleep mode") });
                return 0;
            }
            let p = self.regs[0x0D];
            self.regs[0x0D] = p.wrapping_add(1);
            self.fifo[p as usize]
        } else {
            self.regs[addr as usize & 0x7F]
        }
    }

    pub fn transaction(&mut self, mosi: &[u8], api_op: &str) -> Vec<u8> {
        let mut miso = vec![0u8; mosi.len()];
        if mosi.is_empty() {
            return miso;
        }
        let a = mosi[0];
        let wnr = a & 0x80 != 0;
        let base = a & 0x7F;
        for i in 1..mosi.len() {
            let addr = if base == 0 { 0 } else { base.wrapping_add((i - 1) as u8) & 0x7F };
            if wnr {
                self.write(addr, mosi[i], api_op);
            } else {
                miso[i] = self.read(addr, api_op);
            }
        }
        miso
    }

    pub fn nreset(&mut self) {
        self.por();
    }

    pub fn event(&mut self, ev: &str, rx_payload: &[u8]) -> bool {
        match (self.mode(), ev) {
            (3, "done") => {
                self.raise(F_TX_DONE);
                self.set_mode(1);
            }
            (5 | 6, "done" | "crc-error" | "timeout+done") => {
                let base = self.regs[0x0F];
                for (i, b) in rx_payload.iter().enumerate() {
                    self.fifo[base.wrapping_add(i as u8) as usize] = *b;
                }
                self.regs[0x13] = rx_payload.len() as u8;
                self.regs[0x10] = base;
                self.regs[0x19] = 20;
                self.regs[0x1A] = 100;
                let mut f = F_RX_DONE | F_VALID_HEADER;
                if ev == "crc-error" {
                    f |= F_CRC_ERR;
                }
                if ev == "timeout+done" && self.mode() == 6 {
                    f |= F_RX_TIMEOUT;
                }
                self.raise(f);
                if self.mode() == 6 {
                    self.set_mode(1);
                }
            }
            (6, "timeout") => {
                self.raise(F_RX_TIMEOUT);
                self.set_mode(1);
            }
            // the SX127x has no preamble-detected interrupt in LoRa mode: ValidHeader is its only
            // informational flag
            (5 | 6, "preamble" | "header-valid") => self.raise(F_VALID_HEADER),
            (6, "preamble+timeout" | "header-valid+timeout") => {
                self.raise(F_VALID_HEADER | F_RX_TIMEOUT);
                self.set_mode(1);
            }
            (7, "done") => {
                self.raise(F_CAD_DONE);
                self.set_mode(1);
            }
            (7, "done-detected") => {
                self.raise(F_CAD_DONE | F_CAD_DET);
                self.set_mode(1);
            }
            _ => return false,
        }
        true
    }
}
