//! Register-file SPI double for the SX127x differential comparison (C13).
//!
//! Both drivers' byte streams are *executed* on this model (addresses hard-coded from the
//! SX1276/77/78/79 and SX1272/73 datasheets, not taken from the driver's enums), starting from the
//! same register contents. What is compared afterwards are chip-visible outcomes: the final
//! register file, the FIFO memory / FIFO write stream, the sequence of operating modes and the
//! interrupt-flag clears.

use crate::doubles::{prior_byte, SpiErr};
use embedded_hal::spi::Operation;
use std::cell::RefCell;
use std::rc::Rc;

pub const REG_FIFO: u8 = 0x00;
pub const REG_OP_MODE: u8 = 0x01;
pub const REG_FIFO_ADDR_PTR: u8 = 0x0D;
pub const REG_IRQ_FLAGS: u8 = 0x12;

pub struct RegState {
    pub regs: [u8; 128],
    pub fifo: [u8; 256],
    /// (FIFO address, byte) for every byte pushed through the FIFO port
    pub fifo_writes: Vec<(u8, u8)>,
    /// effective RegOpMode value after every write to it
    pub opmodes: Vec<u8>,
    /// values written to RegIrqFlags (write-1-to-clear)
    pub irq_clears: Vec<u8>,
    /// every register write in wire order (address, value)
    pub writes: Vec<(u8, u8)>,
    /// every register read (address)
    pub reads: Vec<u8>,
    /// framing problems (a transaction the chip would not understand)
    pub protocol_errors: Vec<String>,
    pub transactions: u32,
}

impl RegState {
    pub fn new() -> Self {
        RegState {
            regs: [0; 128],
            fifo: [0; 256],
            fifo_writes: vec![],
            opmodes: vec![],
            irq_clears: vec![],
            writes: vec![],
            reads: vec![],
            protocol_errors: vec![],
            transactions: 0,
        }
    }
    pub fn seed(&mut self, seed: u64) {
        *self = RegState::new();
        for a in 0..128u64 {
            self.regs[a as usize] = prior_byte(seed, a);
        }
        for a in 0..256u64 {
            self.fifo[a as usize] = prior_byte(seed, 0x100 + a);
        }
    }
    /// NRESET / power-on: every register back to its datasheet reset value (SX1276/77/78/79 rev. 7
    /// table 41, SX1272/73 rev. 4 table 84; LoRa page for 0x0D-0x3F, which is the page both
    /// drivers use once LongRangeMode is set), FSK/OOK mode, standby. The traffic logs are kept.
    pub fn chip_reset(&mut self, is_1276: bool) {
        self.regs = [0; 128];
        self.fifo = [0; 256];
        let defaults: &[(u8, u8)] = if is_1276 {
            &[(0x01, 0x09), (0x06, 0x6C), (0x07, 0x80), (0x08, 0x00), (0x09, 0x4F), (0x0A, 0x09), (0x0B, 0x2B), (0x0C, 0x20), (0x0E, 0x80), (0x1D, 0x72), (0x1E, 0x70), (0x1F, 0x64), (0x21, 0x08), (0x22, 0x01), (0x23, 0xFF), (0x31, 0xC3), (0x33, 0x27), (0x36, 0x03), (0x37, 0x0A), (0x39, 0x12), (0x3A, 0x20), (0x3B, 0x1D), (0x42, 0x12), (0x4B, 0x09), (0x4D, 0x84)]
        } else {
            &[(0x01, 0x01), (0x06, 0xE4), (0x07, 0xC0), (0x08, 0x00), (0x09, 0x0F), (0x0A, 0x19), (0x0B, 0x2B), (0x0C, 0x20), (0x0E, 0x80), (0x1D, 0x08), (0x1E, 0x70), (0x1F, 0x64), (0x21, 0x08), (0x22, 0x01), (0x23, 0xFF), (0x31, 0xC3), (0x33, 0x27), (0x37, 0x0A), (0x39, 0x12), (0x3B, 0x1D), (0x42, 0x22), (0x58, 0x09), (0x5A, 0x84)]
        };
        for (a, v) in defaults {
            self.regs[*a as usize] = *v;
        }
    }
    /// Forget the traffic logs (between the steps of a history); chip contents stay.
    pub fn clear_logs(&mut self) {
        self.fifo_writes.clear();
        self.opmodes.clear();
        self.irq_clears.clear();
        self.writes.clear();
        self.reads.clear();
        self.protocol_errors.clear();
        self.transactions = 0;
    }
    fn write_reg(&mut self, addr: u8, v: u8) {
        let addr = addr & 0x7F;
        self.writes.push((addr, v));
        match addr {
            REG_FIFO => {
                let p = self.regs[REG_FIFO_ADDR_PTR as usize];
                self.fifo[p as usize] = v;
                self.fifo_writes.push((p, v));
                self.regs[REG_FIFO_ADDR_PTR as usize] = p.wrapping_add(1);
            }
            REG_IRQ_FLAGS => {
                self.irq_clears.push(v);
                self.regs[REG_IRQ_FLAGS as usize] &= !v;
            }
            REG_OP_MODE => {
                // LongRangeMode (bit 7) can only be modified in Sleep mode (datasheet, RegOpMode);
                // conservative reading: the device is asleep and the write keeps it asleep.
                let cur = self.regs[REG_OP_MODE as usize];
                let mut nv = v;
                if !(cur & 0x07 == 0 && v & 0x07 == 0) {
                    nv = (cur & 0x80) | (v & 0x7F);
                }
                self.regs[REG_OP_MODE as usize] = nv;
                self.opmodes.push(nv);
            }
            // read-only status registers
            0x10 | 0x13 | 0x14..=0x1C | 0x25 | 0x28..=0x2A | 0x2C | 0x42 => {}
            _ => self.regs[addr as usize] = v,
        }
    }
    fn read_reg(&mut self, addr: u8) -> u8 {
        let addr = addr & 0x7F;
        self.reads.push(addr);
        if addr == REG_FIFO {
            let p = self.regs[REG_FIFO_ADDR_PTR as usize];
            self.regs[REG_FIFO_ADDR_PTR as usize] = p.wrapping_add(1);
            self.fifo[p as usize]
        } else {
            self.regs[addr as usize]
        }
    }
    fn run(&mut self, operations: &mut [Operation<'_, u8>]) {
        self.transactions += 1;
        // first byte on MOSI is the address (bit 7 = write)
        let mut first: Option<u8> = None;
        let mut offset: u16 = 0; // data byte index
        let mut wrote_after_read = false;
        let mut seen_read = false;
        for op in operations.iter_mut() {
            match op {
                Operation::Write(b) => {
                    for x in b.iter() {
                        match first {
                            None => first = Some(*x),
                            Some(a) => {
                                if seen_read {
                                    wrote_after_read = true;
                                }
                                if a & 0x80 != 0 {
                                    let addr = if a & 0x7F == REG_FIFO { 0 } else { (a & 0x7F).wrapping_add(offset as u8) };
                                    self.write_reg(addr, *x);
                                } else if *x != 0 {
                                    self.protocol_errors.push(format!("non-zero byte {x:#04x} clocked out during a read of {a:#04x}"));
                                }
                                offset += 1;
                            }
                        }
                    }
                }
                Operation::Read(b) => {
                    seen_read = true;
                    for x in b.iter_mut() {
                        match first {
                            None => {
                                self.protocol_errors.push("read with no address byte".into());
                                *x = 0;
                            }
                            Some(a) => {
                                if a & 0x80 != 0 {
                                    // a write access clocking zeros: the chip stores 0x00
                                    let addr = if a & 0x7F == REG_FIFO { 0 } else { (a & 0x7F).wrapping_add(offset as u8) };
                                    self.write_reg(addr, 0);
                                    *x = 0;
                                } else {
                                    let addr = if a & 0x7F == REG_FIFO { 0 } else { (a & 0x7F).wrapping_add(offset as u8) };
                                    *x = self.read_reg(addr);
                                }
                                offset += 1;
                            }
                        }
                    }
                }
                Operation::Transfer(_, _) | Operation::TransferInPlace(_) => {
                    self.protocol_errors.push("full-duplex transfer not expected".into());
                }
                Operation::DelayNs(_) => {}
            }
        }
        if first.is_none() {
            self.protocol_errors.push("transaction with no address byte".into());
        }
        if wrote_after_read {
            self.protocol_errors.push("write after read inside one transaction".into());
        }
    }
}

#[derive(Clone)]
pub struct Reg127(pub Rc<RefCell<RegState>>);

impl Reg127 {
    pub fn new() -> Self {
        Reg127(Rc::new(RefCell::new(RegState::new())))
    }
    pub fn seed(&self, seed: u64) {
        self.0.borrow_mut().seed(seed);
    }
    pub fn set(&self, addr: u8, v: u8) {
        self.0.borrow_mut().regs[addr as usize & 0x7F] = v;
    }
    pub fn get(&self, addr: u8) -> u8 {
        self.0.borrow().regs[addr as usize & 0x7F]
    }
    pub fn chip_reset(&self, is_1276: bool) {
        self.0.borrow_mut().chip_reset(is_1276);
    }
    pub fn clear_logs(&self) {
        self.0.borrow_mut().clear_logs();
    }
}

impl embedded_hal::spi::ErrorType for Reg127 {
    type Error = SpiErr;
}
impl embedded_hal::spi::SpiDevice for Reg127 {
    fn transaction(&mut self, operations: &mut [Operation<'_, u8>]) -> Result<(), SpiErr> {
        self.0.borrow_mut().run(operations);
        Ok(())
    }
}
impl embedded_hal_async::spi::SpiDevice<u8> for Reg127 {
    async fn transaction(&mut self, operations: &mut [Operation<'_, u8>]) -> Result<(), SpiErr> {
        self.0.borrow_mut().run(operations);
        Ok(())
    }
}
