use verif_core::*;

mod chip126x;
mod chip127x;
mod doubles;
mod props;
mod reg127;
mod wire126;
mod world;

fn main() {
    install_panic_hook();
    let args = parse_args();
    if let Err(e) = oracle::self_test() {
        eprintln!("oracle self-test failed: {e}");
        std::process::exit(2);
    }
    let code = dispatch(&args, props::table());
    std::process::exit(code);
}
