//! C13, SX126x half: lora-phy's Sx126x driver versus Semtech's SWL2001 sx126x driver, compared as
//! exact MOSI byte streams per transaction (see wire126.rs).

use crate::doubles::{block_on, prior_byte, NullDelay, ResetIv};
use crate::wire126::Wire126;
use core::ffi::c_void;
use lora_phy::mod_params::{Bandwidth, CodingRate, DutyCycleParams, ModulationParams, PacketParams, RadioError, RadioMode, SpreadingFactor};
use lora_phy::mod_traits::RadioKind;
use lora_phy::sx126x::{Config, Stm32wl, Sx1261, Sx1262, Sx126x, Sx126xVariant, TcxoCtrlVoltage};
use lora_phy::RxMode;
use serde_json::{json, Value};
use smtc_modem_cores::sx126x as smtc;
use verif_core::*;

// Reference-driver entry points the Rust binding does not wrap (same C library, same HAL).
extern "C" {
    fn sx126x_set_rx_duty_cycle_with_timings_in_rtc_step(context: *const c_void, rx: u32, sleep: u32) -> u32;
    fn sx126x_stop_rtc(context: *const c_void) -> u32;
    fn sx126x_set_reg_mode(context: *const c_void, mode: u32) -> u32;
    fn sx126x_set_dio3_as_tcxo_ctrl(context: *const c_void, voltage: u32, timeout: u32) -> u32;
    fn sx126x_cal(context: *const c_void, param: u8) -> u32;
    fn sx126x_clear_device_errors(context: *const c_void) -> u32;
}

#[derive(Clone, Copy, Debug, PartialEq, Eq)]
pub enum Chip126 {
    Sx1261,
    Sx1262,
    Stm32wlHp,
    Stm32wlLp,
}
pub const CHIPS126: [Chip126; 4] = [Chip126::Sx1261, Chip126::Sx1262, Chip126::Stm32wlHp, Chip126::Stm32wlLp];

impl Chip126 {
    pub fn name(self) -> &'static str {
        match self {
            Chip126::Sx1261 => "sx1261",
            Chip126::Sx1262 => "sx1262",
            Chip126::Stm32wlHp => "stm32wl-hp",
            Chip126::Stm32wlLp => "stm32wl-lp",
        }
    }
    pub fn from_name(s: &str) -> Option<Self> {
        CHIPS126.iter().copied().find(|c| c.name() == s)
    }
    /// high-power PA (SX1262 die) selected
    pub fn hp(self) -> bool {
        matches!(self, Chip126::Sx1262 | Chip126::Stm32wlHp)
    }
    /// DIO2 drives the RF switch on the discrete parts; the STM32WL has no DIO2 pin
    pub fn dio2_rf_switch(self) -> bool {
        matches!(self, Chip126::Sx1261 | Chip126::Sx1262)
    }
}

pub const SFS: [SpreadingFactor; 8] = [
    SpreadingFactor::_5,
    SpreadingFactor::_6,
    SpreadingFactor::_7,
    SpreadingFactor::_8,
    SpreadingFactor::_9,
    SpreadingFactor::_10,
    SpreadingFactor::_11,
    SpreadingFactor::_12,
];
pub const BWS: [Bandwidth; 10] = [
    Bandwidth::_7KHz,
    Bandwidth::_10KHz,
    Bandwidth::_15KHz,
    Bandwidth::_20KHz,
    Bandwidth::_31KHz,
    Bandwidth::_41KHz,
    Bandwidth::_62KHz,
    Bandwidth::_125KHz,
    Bandwidth::_250KHz,
    Bandwidth::_500KHz,
];
pub const CRS: [CodingRate; 4] = [CodingRate::_4_5, CodingRate::_4_6, CodingRate::_4_7, CodingRate::_4_8];

pub fn sf_of(f: u64) -> Option<SpreadingFactor> {
    SFS.iter().copied().find(|s| s.factor() as u64 == f)
}
pub fn bw_of(hz: u64) -> Option<Bandwidth> {
    BWS.iter().copied().find(|b| b.hz() as u64 == hz)
}
pub fn cr_of(d: u64) -> Option<CodingRate> {
    CRS.iter().copied().find(|c| c.denom() as u64 == d)
}

// names -> reference enum values (by the *meaning* of the name in SWL2001's headers)
fn ref_sf(sf: SpreadingFactor) -> smtc::sx126x_lora_sf_e {
    use smtc::sx126x_lora_sf_e::*;
    match sf.factor() {
        5 => SX126X_LORA_SF5,
        6 => SX126X_LORA_SF6,
        7 => SX126X_LORA_SF7,
        8 => SX126X_LORA_SF8,
        9 => SX126X_LORA_SF9,
        10 => SX126X_LORA_SF10,
        11 => SX126X_LORA_SF11,
        _ => SX126X_LORA_SF12,
    }
}
fn ref_bw(bw: Bandwidth) -> smtc::sx126x_lora_bw_e {
    use smtc::sx126x_lora_bw_e::*;
    match bw.hz() {
        7_810 => SX126X_LORA_BW_007,
        10_420 => SX126X_LORA_BW_010,
        15_630 => SX126X_LORA_BW_015,
        20_830 => SX126X_LORA_BW_020,
        31_250 => SX126X_LORA_BW_031,
        41_670 => SX126X_LORA_BW_041,
        62_500 => SX126X_LORA_BW_062,
        125_000 => SX126X_LORA_BW_125,
        250_000 => SX126X_LORA_BW_250,
        _ => SX126X_LORA_BW_500,
    }
}
fn ref_cr(cr: CodingRate) -> smtc::sx126x_lora_cr_e {
    use smtc::sx126x_lora_cr_e::*;
    match cr.denom() {
        5 => SX126X_LORA_CR_4_5,
        6 => SX126X_LORA_CR_4_6,
        7 => SX126X_LORA_CR_4_7,
        _ => SX126X_LORA_CR_4_8,
    }
}

#[derive(Clone, Debug, PartialEq)]
pub enum RxKind {
    Single(u16),
    Continuous,
    Duty { rx: u32, sleep: u32 },
}

#[derive(Clone, Debug, PartialEq)]
pub enum Op126 {
    Sleep { warm: bool },
    Standby,
    Wake,
    Freq { hz: u32 },
    Mod { sf: u8, bw_hz: u32, cr: u8, ldro: u8, hz: u32 },
    Pkt { preamble: u16, implicit: bool, len: u8, crc: bool, iq: bool },
    Sync { legacy: u8 },
    BufBase { tx: u8, rx: u8 },
    WriteBuf { len: u16 },
    Pa { dbm: i32, tx_prep: bool, freq: Option<u32> },
    Irq { mode: String },
    ClrIrq,
    Rx { kind: RxKind },
    Tx,
    Cad { sf: u8 },
    CalImg { hz: u32 },
    RxDoneSingle { symbols: u16 },
    Init { legacy_sync: u8, dcdc: bool, tcxo: Option<u8>, retention_count: u8 },
    /// history step (c13_hist.rs): NRESET pulse through `RadioKind::reset`; no SPI traffic on
    /// either side, the chip's registers go back to their reset contents
    Reset,
}

impl Op126 {
    pub fn kind(&self) -> &'static str {
        match self {
            Op126::Sleep { .. } => "sleep",
            Op126::Standby => "standby",
            Op126::Wake => "wake",
            Op126::Freq { .. } => "freq",
            Op126::Mod { .. } => "mod",
            Op126::Pkt { .. } => "pkt",
            Op126::Sync { .. } => "sync",
            Op126::BufBase { .. } => "bufbase",
            Op126::WriteBuf { .. } => "writebuf",
            Op126::Pa { .. } => "pa",
            Op126::Irq { .. } => "irq",
            Op126::ClrIrq => "clrirq",
            Op126::Rx { .. } => "rx",
            Op126::Tx => "tx",
            Op126::Cad { .. } => "cad",
            Op126::CalImg { .. } => "calimg",
            Op126::RxDoneSingle { .. } => "rxdone-15.3",
            Op126::Init { .. } => "init",
            Op126::Reset => "reset",
        }
    }
    pub fn to_json(&self) -> Value {
        match self {
            Op126::Sleep { warm } => json!({"op":"sleep","warm":warm}),
            Op126::Standby => json!({"op":"standby"}),
            Op126::Wake => json!({"op":"wake"}),
            Op126::Freq { hz } => json!({"op":"freq","hz":hz}),
            Op126::Mod { sf, bw_hz, cr, ldro, hz } => json!({"op":"mod","sf":sf,"bw_hz":bw_hz,"cr_denom":cr,"ldro":ldro,"hz":hz}),
            Op126::Pkt { preamble, implicit, len, crc, iq } => json!({"op":"pkt","preamble":preamble,"implicit":implicit,"len":len,"crc":crc,"iq":iq}),
            Op126::Sync { legacy } => json!({"op":"sync","legacy":legacy}),
            Op126::BufBase { tx, rx } => json!({"op":"bufbase","tx":tx,"rx":rx}),
            Op126::WriteBuf { len } => json!({"op":"writebuf","len":len}),
            Op126::Pa { dbm, tx_prep, freq } => json!({"op":"pa","dbm":dbm,"tx_prep":tx_prep,"freq":freq}),
            Op126::Irq { mode } => json!({"op":"irq","mode":mode}),
            Op126::ClrIrq => json!({"op":"clrirq"}),
            Op126::Rx { kind } => match kind {
                RxKind::Single(n) => json!({"op":"rx","mode":"single","symbols":n}),
                RxKind::Continuous => json!({"op":"rx","mode":"continuous"}),
                RxKind::Duty { rx, sleep } => json!({"op":"rx","mode":"duty","rx_time":rx,"sleep_time":sleep}),
            },
            Op126::Tx => json!({"op":"tx"}),
            Op126::Cad { sf } => json!({"op":"cad","sf":sf}),
            Op126::CalImg { hz } => json!({"op":"calimg","hz":hz}),
            Op126::RxDoneSingle { symbols } => json!({"op":"rxdone-15.3","symbols":symbols}),
            Op126::Init { legacy_sync, dcdc, tcxo, retention_count } => json!({"op":"init","legacy_sync":legacy_sync,"dcdc":dcdc,"tcxo":tcxo,"retention_count":retention_count}),
            Op126::Reset => json!({"op":"reset"}),
        }
    }
    pub fn from_json(v: &Value) -> Option<Op126> {
        let u = |k: &str| v[k].as_u64();
        let b = |k: &str| v[k].as_bool();
        Some(match v["op"].as_str()? {
            "sleep" => Op126::Sleep { warm: b("warm")? },
            "standby" => Op126::Standby,
            "wake" => Op126::Wake,
            "freq" => Op126::Freq { hz: u("hz")? as u32 },
            "mod" => Op126::Mod { sf: u("sf")? as u8, bw_hz: u("bw_hz")? as u32, cr: u("cr_denom")? as u8, ldro: u("ldro")? as u8, hz: u("hz")? as u32 },
            "pkt" => Op126::Pkt { preamble: u("preamble")? as u16, implicit: b("implicit")?, len: u("len")? as u8, crc: b("crc")?, iq: b("iq")? },
            "sync" => Op126::Sync { legacy: u("legacy")? as u8 },
            "bufbase" => Op126::BufBase { tx: u("tx")? as u8, rx: u("rx")? as u8 },
            "writebuf" => Op126::WriteBuf { len: u("len")? as u16 },
            "pa" => Op126::Pa { dbm: v["dbm"].as_i64()? as i32, tx_prep: b("tx_prep")?, freq: u("freq").map(|x| x as u32) },
            "irq" => Op126::Irq { mode: v["mode"].as_str()?.to_string() },
            "clrirq" => Op126::ClrIrq,
            "rx" => Op126::Rx {
                kind: match v["mode"].as_str()? {
                    "single" => RxKind::Single(u("symbols")? as u16),
                    "continuous" => RxKind::Continuous,
                    _ => RxKind::Duty { rx: u("rx_time")? as u32, sleep: u("sleep_time")? as u32 },
                },
            },
            "tx" => Op126::Tx,
            "cad" => Op126::Cad { sf: u("sf")? as u8 },
            "calimg" => Op126::CalImg { hz: u("hz")? as u32 },
            "rxdone-15.3" => Op126::RxDoneSingle { symbols: u("symbols")? as u16 },
            "init" => Op126::Init { legacy_sync: u("legacy_sync")? as u8, dcdc: b("dcdc")?, tcxo: u("tcxo").map(|x| x as u8), retention_count: u("retention_count")? as u8 },
            "reset" => Op126::Reset,
            _ => return None,
        })
    }
}

pub const IRQ_MODES: [&str; 10] = ["none", "sleep", "standby", "fs", "transmit", "receive-single", "receive-continuous", "receive-duty", "listen", "cad"];

pub fn radio_mode_of(name: &str) -> Option<RadioMode> {
    Some(match name {
        "none" => return None,
        "sleep" => RadioMode::Sleep,
        "standby" => RadioMode::Standby,
        "fs" => RadioMode::FrequencySynthesis,
        "transmit" => RadioMode::Transmit,
        "receive-single" => RadioMode::Receive(RxMode::Single(8)),
        "receive-continuous" => RadioMode::Receive(RxMode::Continuous),
        "receive-duty" => RadioMode::Receive(RxMode::DutyCycle(DutyCycleParams { rx_time: 100, sleep_time: 100 })),
        "listen" => RadioMode::Listen,
        _ => RadioMode::ChannelActivityDetection,
    })
}

#[derive(Clone, Debug)]
pub struct Case126 {
    pub chip: Chip126,
    pub rx_boost: bool,
    pub seed: u64,
    pub op: Op126,
}

impl Case126 {
    pub fn to_json(&self) -> Value {
        json!({"family":"sx126x","chip":self.chip.name(),"rx_boost":self.rx_boost,"prior_seed":self.seed,"op":self.op.to_json()})
    }
    pub fn from_json(v: &Value) -> Option<Case126> {
        Some(Case126 {
            chip: Chip126::from_name(v["chip"].as_str()?)?,
            rx_boost: v["rx_boost"].as_bool()?,
            seed: v["prior_seed"].as_u64()?,
            op: Op126::from_json(&v["op"])?,
        })
    }
}

fn tcxo_voltage(code: u8) -> TcxoCtrlVoltage {
    match code & 7 {
        0 => TcxoCtrlVoltage::Ctrl1V6,
        1 => TcxoCtrlVoltage::Ctrl1V7,
        2 => TcxoCtrlVoltage::Ctrl1V8,
        3 => TcxoCtrlVoltage::Ctrl2V2,
        4 => TcxoCtrlVoltage::Ctrl2V4,
        5 => TcxoCtrlVoltage::Ctrl2V7,
        6 => TcxoCtrlVoltage::Ctrl3V0,
        _ => TcxoCtrlVoltage::Ctrl3V3,
    }
}

pub fn legacy_to_word(legacy: u8) -> u16 {
    // the 16-bit register image of a legacy single-byte LoRa sync word 0xYZ is 0xY4Z4
    // (what the reference's read-modify-write produces from the reset value 0x1424)
    (((legacy & 0xF0) as u16 | 0x04) << 8) | (((legacy & 0x0F) as u16) << 4 | 0x04)
}

fn payload(seed: u64, len: usize) -> Vec<u8> {
    (0..len as u64).map(|i| prior_byte(seed, 0x5000 + i)).collect()
}

/// the rule of C15 (symbol time 2^SF/BW >= 16.38 ms), used only to tell a derived LDRO setting from a forced one
pub fn rule_ldro(sf: u8, bw_hz: u32) -> bool {
    // 2^sf / bw >= 0.01638 s  <=>  2^sf * 100_000 >= 1638 * bw
    (1u64 << sf) * 100_000 >= 1638 * bw_hz as u64
}

/// lora-phy side of one operation
fn lp_exec<C: Sx126xVariant>(r: &mut Sx126x<Wire126, ResetIv, C>, wire: &Wire126, seed: u64, op: &Op126) -> Result<(), RadioError> {
    match op {
        Op126::Sleep { warm } => block_on(r.set_sleep(*warm, &mut NullDelay)),
        Op126::Standby => block_on(r.set_standby()),
        Op126::Wake => block_on(r.ensure_ready(RadioMode::Sleep)),
        Op126::Freq { hz } => block_on(r.set_channel(*hz)),
        Op126::Mod { sf, bw_hz, cr, ldro, hz } => {
            let mp = ModulationParams {
                spreading_factor: sf_of(*sf as u64).unwrap(),
                bandwidth: bw_of(*bw_hz as u64).unwrap(),
                coding_rate: cr_of(*cr as u64).unwrap(),
                low_data_rate_optimize: *ldro,
                frequency_in_hz: *hz,
            };
            // creator route: the parameter object reaches the driver the way every user of the LoRa
            // layer obtains it (RadioKind::create_modulation_params) whenever the requested LDRO
            // setting is the one the creator derives itself; a forced setting only exists as a literal
            let mp = match r.create_modulation_params(mp.spreading_factor, mp.bandwidth, mp.coding_rate, mp.frequency_in_hz) {
                Ok(created) if rule_ldro(*sf, *bw_hz) == (*ldro != 0) && *ldro <= 1 => created,
                _ => mp,
            };
            block_on(r.set_modulation_params(&mp))
        }
        Op126::Pkt { preamble, implicit, len, crc, iq } => {
            let literal = PacketParams { preamble_length: *preamble, implicit_header: *implicit, payload_length: *len, crc_on: *crc, iq_inverted: *iq };
            // creator route (RadioKind::create_packet_params) under a spreading factor taken from the
            // case seed; SF5/SF6 with fewer than 12 preamble symbols is outside the legal domain (the
            // creator raises the preamble, the reference driver takes the number as given) and keeps
            // the literal
            let sf = 5 + (seed % 8) as u8;
            let pp = if sf <= 6 && *preamble < 12 {
                literal
            } else {
                let mp = ModulationParams {
                    spreading_factor: sf_of(sf as u64).unwrap(),
                    bandwidth: Bandwidth::_125KHz,
                    coding_rate: CodingRate::_4_5,
                    low_data_rate_optimize: 0,
                    frequency_in_hz: 868_100_000,
                };
                r.create_packet_params(*preamble, *implicit, *len, *crc, *iq, &mp).unwrap_or(literal)
            };
            block_on(r.set_packet_params(&pp))
        }
        Op126::Sync { legacy } => block_on(r.set_lora_sync_word(legacy_to_word(*legacy))),
        Op126::BufBase { tx, rx } => block_on(r.set_tx_rx_buffer_base_address(*tx as usize, *rx as usize)),
        Op126::WriteBuf { len } => block_on(r.set_payload(&payload(seed, *len as usize))),
        Op126::Pa { dbm, tx_prep, freq } => {
            let mp = freq.map(|hz| ModulationParams {
                spreading_factor: SpreadingFactor::_7,
                bandwidth: Bandwidth::_125KHz,
                coding_rate: CodingRate::_4_5,
                low_data_rate_optimize: 0,
                frequency_in_hz: hz,
            });
            block_on(r.set_tx_power_and_ramp_time(*dbm, mp.as_ref(), *tx_prep))
        }
        Op126::Irq { mode } => block_on(r.set_irq_params(radio_mode_of(mode))),
        Op126::ClrIrq => block_on(r.clear_irq_status()),
        Op126::Rx { kind } => {
            let m = match kind {
                RxKind::Single(n) => RxMode::Single(*n),
                RxKind::Continuous => RxMode::Continuous,
                RxKind::Duty { rx, sleep } => RxMode::DutyCycle(DutyCycleParams { rx_time: *rx, sleep_time: *sleep }),
            };
            block_on(r.do_rx(m))
        }
        Op126::Tx => block_on(r.do_tx()),
        Op126::Cad { sf } => {
            let mp = ModulationParams {
                spreading_factor: sf_of(*sf as u64).unwrap(),
                bandwidth: Bandwidth::_125KHz,
                coding_rate: CodingRate::_4_5,
                low_data_rate_optimize: 0,
                frequency_in_hz: 868_100_000,
            };
            block_on(r.do_cad(&mp))
        }
        Op126::CalImg { hz } => block_on(r.calibrate_image(*hz)),
        Op126::RxDoneSingle { symbols } => {
            wire.0.borrow_mut().irq = 0x0002; // RxDone
            block_on(r.process_irq_event(RadioMode::Receive(RxMode::Single(*symbols)), None, true)).map(|_| ())
        }
        Op126::Init { legacy_sync, .. } => block_on(r.init_lora(legacy_to_word(*legacy_sync))),
        Op126::Reset => block_on(r.reset(&mut NullDelay)),
    }
}

fn ctxp(c: &mut smtc::Context<Wire126>) -> *const c_void {
    c as *mut smtc::Context<Wire126> as *const c_void
}

/// Datasheet DS.SX1261-2 Table 13-21 "PA operating modes with optimal settings" (rows by target
/// power), STM32WL high-power variant per STM32CubeWL radio_driver.c (14 dBm row commands the
/// target directly). Between rows SetTxParams is lowered 1 dB per dB below the row's target.
/// Returns (paDutyCycle, hpMax, deviceSel, SetTxParams power).
pub fn pa_expect(chip: Chip126, dbm: i32) -> (u8, u8, u8, i8) {
    // (row target dBm, paDutyCycle, hpMax, SetTxParams power at the target)
    const LP: [(i32, u8, u8, i32); 3] = [(10, 0x01, 0x00, 13), (14, 0x04, 0x00, 14), (15, 0x06, 0x00, 14)];
    const HP: [(i32, u8, u8, i32); 4] = [(14, 0x02, 0x02, 22), (17, 0x02, 0x03, 22), (20, 0x03, 0x05, 22), (22, 0x04, 0x07, 22)];
    const HP_ST: [(i32, u8, u8, i32); 4] = [(14, 0x02, 0x02, 14), (17, 0x02, 0x03, 22), (20, 0x03, 0x05, 22), (22, 0x04, 0x07, 22)];
    let (rows, min, devsel): (&[(i32, u8, u8, i32)], i32, u8) = match chip {
        Chip126::Sx1261 | Chip126::Stm32wlLp => (&LP, -17, 1),
        Chip126::Sx1262 => (&HP, -9, 0),
        Chip126::Stm32wlHp => (&HP_ST, -9, 0),
    };
    let p = dbm.clamp(min, rows[rows.len() - 1].0);
    let row = rows.iter().find(|r| r.0 >= p).unwrap();
    (row.1, row.2, devsel, (row.3 - (row.0 - p)) as i8)
}

/// Datasheet Table 9-2 "Image calibration over the ISM bands"
pub fn calimg_expect(hz: u32) -> Option<(u8, u8)> {
    match hz {
        430_000_000..=440_000_000 => Some((0x6B, 0x6F)),
        470_000_000..=510_000_000 => Some((0x75, 0x81)),
        779_000_000..=787_000_000 => Some((0xC1, 0xC5)),
        863_000_000..=870_000_000 => Some((0xD7, 0xDB)),
        902_000_000..=928_000_000 => Some((0xE1, 0xE9)),
        _ => None,
    }
}

pub enum Verdict {
    Compared,
    Refused,
}

fn find_tx<'a>(tx: &'a [Vec<u8>], opcode: u8) -> Option<&'a Vec<u8>> {
    tx.iter().find(|t| t.first() == Some(&opcode))
}

fn hexs(t: &[Vec<u8>]) -> String {
    t.iter().map(|x| hex(x)).collect::<Vec<_>>().join(" | ")
}

/// lora-phy driver instance of any chip variant (the RadioKind trait is not object safe)
pub enum Lp126 {
    S61(Sx126x<Wire126, ResetIv, Sx1261>),
    S62(Sx126x<Wire126, ResetIv, Sx1262>),
    Wl(Sx126x<Wire126, ResetIv, Stm32wl>),
}

/// One lora-phy driver instance and one reference-driver context, each on its own recording
/// double. `check126` uses it for exactly one operation on freshly primed chip contents; the
/// history stage (c13_hist.rs) runs several operations on the same instances.
pub struct Sess126 {
    pub wa: Wire126,
    pub wb: Wire126,
    lp: Lp126,
    c: smtc::Context<Wire126>,
    /// NRESET pulses lora-phy's control-line double has seen
    pub resets: std::rc::Rc<core::cell::Cell<u32>>,
}

/// Chip-side effect of NRESET / cold-start sleep on the recording double: every register the
/// drivers wrote is forgotten (unwritten cells hold the seeded prior content, identical on both
/// sides); the LoRa sync word registers and the retention list hold their documented reset
/// values (0x14 0x24; empty list) because the drivers read them back.
pub fn chip_reset126(w: &Wire126) {
    let mut s = w.0.borrow_mut();
    s.regs.clear();
    s.regs.insert(0x0740, 0x14);
    s.regs.insert(0x0741, 0x24);
    for a in 0x029Fu16..=0x02A7 {
        s.regs.insert(a, 0);
    }
}

impl Sess126 {
    pub fn new(chip: Chip126, rx_boost: bool, tcxo: Option<TcxoCtrlVoltage>, dcdc: bool) -> Self {
        let wa = Wire126::new();
        let wb = Wire126::new();
        let target = wa.clone();
        let iv = ResetIv::new(move || chip_reset126(&target));
        let resets = iv.resets.clone();
        let lp = match chip {
            Chip126::Sx1261 => Lp126::S61(Sx126x::new(wa.clone(), iv, Config { chip: Sx1261, tcxo_ctrl: tcxo, use_dcdc: dcdc, rx_boost })),
            Chip126::Sx1262 => Lp126::S62(Sx126x::new(wa.clone(), iv, Config { chip: Sx1262, tcxo_ctrl: tcxo, use_dcdc: dcdc, rx_boost })),
            Chip126::Stm32wlHp => Lp126::Wl(Sx126x::new(wa.clone(), iv, Config { chip: Stm32wl { use_high_power_pa: true }, tcxo_ctrl: tcxo, use_dcdc: dcdc, rx_boost })),
            Chip126::Stm32wlLp => Lp126::Wl(Sx126x::new(wa.clone(), iv, Config { chip: Stm32wl { use_high_power_pa: false }, tcxo_ctrl: tcxo, use_dcdc: dcdc, rx_boost })),
        };
        let c = smtc::Context::new(wb.clone());
        Sess126 { wa, wb, lp, c, resets }
    }

    /// Runs one operation on both drivers and compares the transactions.
    pub fn step(&mut self, case: &Case126, cj: &Value) -> Result<Verdict, Failure> {
        let r = self.step_inner(case, cj);
        // chip-side events that are inputs, not driver behaviour
        for w in [&self.wa, &self.wb] {
            w.0.borrow_mut().irq = 0; // the interrupt of this operation has been served
            w.take_tx();
        }
        if let Op126::Sleep { warm: false } = &case.op {
            // cold start: the configuration is lost (datasheet 13.1.1 SetSleep, sleepConfig[2] = 0)
            chip_reset126(&self.wa);
            chip_reset126(&self.wb);
        }
        r
    }

    fn step_inner(&mut self, case: &Case126, cj: &Value) -> Result<Verdict, Failure> {
        let fail = |rule: &str, fp: String, detail: String| Failure::new(rule, cj.clone(), detail).with_fp(fp);
        let kind = case.op.kind();
        let seed = case.seed;
        let (wa, wb) = (self.wa.clone(), self.wb.clone());
        let resets_before = self.resets.get();

        // ---- lora-phy
        let lpm = &mut self.lp;
        let wa2 = wa.clone();
        let lp_res = catch(move || match lpm {
            Lp126::S61(r) => lp_exec(r, &wa2, seed, &case.op),
            Lp126::S62(r) => lp_exec(r, &wa2, seed, &case.op),
            Lp126::Wl(r) => lp_exec(r, &wa2, seed, &case.op),
        });
        let lp_res = match lp_res {
            Ok(r) => r,
            Err(p) => return Err(Failure::panic(cj.clone(), &p)),
        };
        let lp_tx = wa.take_tx();

    // ---- documented refusals: no traffic at all
    if let Err(e) = &lp_res {
        let documented = match &case.op {
            // SX1261: paDutyCycle above 0x04 (the +15 dBm row) is not allowed below 400 MHz
            Op126::Pa { dbm, freq: Some(f), .. } => !case.chip.hp() && *dbm >= 15 && *f < 400_000_000,
            // a full retention list (4 foreign entries) cannot take another register
            Op126::Init { retention_count, .. } => *retention_count >= 3,
            _ => false,
        };
        if !documented {
            return Err(fail("unexpected-refusal", format!("sx126x/{kind}/refused"), format!("lora-phy returned {e:?} for a legal parameter value; traffic: {}", hexs(&lp_tx))));
        }
        if !matches!(case.op, Op126::Init { .. }) {
            if !lp_tx.is_empty() {
                return Err(fail("refusal-with-traffic", format!("sx126x/{kind}/refused-with-traffic"), format!("refused with {e:?} after sending {}", hexs(&lp_tx))));
            }
            return Ok(Verdict::Refused);
        }
        // Init with a full retention list: the traffic up to the refusal is still compared
    }

    // ---- reference
    let c = &mut self.c;
    let mut independent: Vec<String> = vec![]; // violations of datasheet-grounded side conditions
    match &case.op {
        Op126::Sleep { warm } => {
            c.set_sleep(if *warm { smtc::SleepCfg::WarmStart } else { smtc::SleepCfg::ColdStart });
        }
        Op126::Standby => {
            c.set_standby(smtc::sx126x_standby_cfgs_e::SX126X_STANDBY_CFG_RC);
        }
        Op126::Wake => {
            c.get_status();
        }
        Op126::Freq { hz } => {
            c.set_rf_freq(*hz);
        }
        Op126::Mod { sf, bw_hz, cr, ldro, .. } => {
            c.set_lora_mod_params(&smtc::sx126x_mod_params_lora_t {
                sf: ref_sf(sf_of(*sf as u64).unwrap()),
                bw: ref_bw(bw_of(*bw_hz as u64).unwrap()),
                cr: ref_cr(cr_of(*cr as u64).unwrap()),
                ldro: *ldro,
            });
        }
        Op126::Pkt { preamble, implicit, len, crc, iq } => {
            c.set_lora_pkt_params(&smtc::sx126x_pkt_params_lora_t {
                preamble_len_in_symb: *preamble,
                header_type: if *implicit { smtc::sx126x_lora_pkt_len_modes_e::SX126X_LORA_PKT_IMPLICIT } else { smtc::sx126x_lora_pkt_len_modes_e::SX126X_LORA_PKT_EXPLICIT },
                pld_len_in_bytes: *len,
                crc_is_on: *crc,
                invert_iq_is_on: *iq,
            });
        }
        Op126::Sync { legacy } => {
            c.set_lora_sync_word(*legacy);
        }
        Op126::BufBase { tx, rx } => {
            c.set_buffer_base_address(*tx, *rx);
        }
        Op126::WriteBuf { len } => {
            c.write_buffer(0, &payload(seed, *len as usize));
        }
        Op126::Pa { dbm, tx_prep, .. } => {
            let (duty, hp_max, devsel, txp) = pa_expect(case.chip, *dbm);
            if case.chip.hp() {
                // datasheet 15.2: TX clamp workaround, reference cfg_tx_clamp
                c.cfg_tx_clamp();
            }
            c.set_pa_cfg(&smtc::sx126x_pa_cfg_params_t { pa_duty_cycle: duty, hp_max, device_sel: devsel, pa_lut: 0x01 });
            c.set_tx_params(txp, if *tx_prep { smtc::sx126x_ramp_time_e::SX126X_RAMP_40_US } else { smtc::sx126x_ramp_time_e::SX126X_RAMP_200_US });
        }
        Op126::Irq { mode } => {
            // The reference takes the masks as inputs; they are taken from lora-phy's command and
            // constrained independently: the completion interrupts of the armed operation must be
            // enabled and routed to DIO1 (the only line the driver waits on), DIO2/DIO3 unused.
            let Some(t) = find_tx(&lp_tx, 0x08) else {
                return Err(fail("bytes-equal", format!("sx126x/{kind}/no-cfgdioirq"), format!("no SetDioIrqParams command in {}", hexs(&lp_tx))));
            };
            let g = |i: usize| ((*t.get(i).unwrap_or(&0) as u16) << 8) | *t.get(i + 1).unwrap_or(&0) as u16;
            let (irq, d1, d2, d3) = (g(1), g(3), g(5), g(7));
            let need: u16 = match mode.as_str() {
                "transmit" => 0x0001,                                                   // TxDone
                "receive-single" | "receive-continuous" | "receive-duty" => 0x0002 | 0x0200, // RxDone, Timeout
                "cad" => 0x0080 | 0x0100,                                               // CadDone, CadDetected
                _ => 0,
            };
            if irq & need != need || d1 & need != need {
                independent.push(format!("mode {mode}: irq mask {irq:#06x} / DIO1 mask {d1:#06x} lack required bits {need:#06x}"));
            }
            if d1 & !irq != 0 {
                independent.push(format!("DIO1 mask {d1:#06x} routes interrupts that are not enabled in {irq:#06x}"));
            }
            if d2 != 0 || d3 != 0 {
                independent.push(format!("DIO2/DIO3 masks {d2:#06x}/{d3:#06x} must be 0 (DIO2 = RF switch, DIO3 = TCXO)"));
            }
            c.set_dio_irq_params(irq, d1, d2, d3);
        }
        Op126::ClrIrq => {
            c.clear_irq_status(0xFFFF);
        }
        Op126::Rx { kind } => {
            c.stop_timer_on_preamble(true);
            match kind {
                // the reference API takes u8: above 255 the chip maximum (248 symbols) is expected
                RxKind::Single(n) => c.set_lora_symb_nb_timeout((*n).min(255) as u8),
                _ => c.set_lora_symb_nb_timeout(0),
            };
            c.cfg_rx_boosted(case.rx_boost);
            match kind {
                RxKind::Single(_) => {
                    c.set_rx_with_timeout_in_rtc_step(0);
                }
                RxKind::Continuous => {
                    c.set_rx_with_timeout_in_rtc_step(0xFFFFFF);
                }
                RxKind::Duty { rx, sleep } => unsafe {
                    sx126x_set_rx_duty_cycle_with_timings_in_rtc_step(ctxp(c), *rx, *sleep);
                },
            }
        }
        Op126::Tx => {
            c.set_tx(0);
        }
        Op126::Cad { sf } => {
            c.cfg_rx_boosted(case.rx_boost);
            let Some(t) = find_tx(&lp_tx, 0x88) else {
                return Err(fail("bytes-equal", format!("sx126x/{kind}/no-setcadparams"), format!("no SetCadParams command in {}", hexs(&lp_tx))));
            };
            let b = |i: usize| *t.get(i).unwrap_or(&0xEE);
            // Semtech's CAD guidance cited by the driver: detPeak = SF + 13, detMin = 10; CAD_ONLY
            // with no timeout (LoRa::cad() expects the chip back in standby)
            if b(1) > 4 {
                independent.push(format!("cadSymbolNum code {} is not one of 0..=4", b(1)));
            }
            if b(2) != sf + 13 || b(3) != 10 {
                independent.push(format!("cadDetPeak/cadDetMin = {}/{} but SF{sf} needs {}/10", b(2), b(3), sf + 13));
            }
            if b(4) != 0 || b(5) != 0 || b(6) != 0 || b(7) != 0 {
                independent.push(format!("cad exit mode/timeout = {:02x} {:02x}{:02x}{:02x}, expected CAD_ONLY with no timeout", b(4), b(5), b(6), b(7)));
            }
            let symb = match b(1) {
                0 => smtc::sx126x_cad_symbs_e::SX126X_CAD_01_SYMB,
                1 => smtc::sx126x_cad_symbs_e::SX126X_CAD_02_SYMB,
                2 => smtc::sx126x_cad_symbs_e::SX126X_CAD_04_SYMB,
                3 => smtc::sx126x_cad_symbs_e::SX126X_CAD_08_SYMB,
                _ => smtc::sx126x_cad_symbs_e::SX126X_CAD_16_SYMB,
            };
            c.set_cad_params(&smtc::sx126x_cad_params_t {
                cad_symb_nb: symb,
                cad_detect_peak: sf + 13,
                cad_detect_min: 10,
                cad_exit_mode: smtc::sx126x_cad_exit_modes_e::SX126X_CAD_ONLY,
                cad_timeout: 0,
            });
            c.set_cad();
        }
        Op126::CalImg { hz } => {
            let (f1, f2) = calimg_expect(*hz).expect("generator only produces tabulated bands");
            c.cal_img(f1, f2);
        }
        Op126::RxDoneSingle { .. } => {
            wb.0.borrow_mut().irq = 0x0002;
            c.get_irq_status();
            c.clear_irq_status(0xFFFF);
            // datasheet 15.3 (implicit header mode timeout behaviour): reference sx126x_stop_rtc
            unsafe {
                sx126x_stop_rtc(ctxp(c));
            }
        }
        Op126::Init { legacy_sync, dcdc, tcxo, .. } => {
            unsafe {
                if *dcdc {
                    sx126x_set_reg_mode(ctxp(c), 1);
                }
            }
            if case.chip.dio2_rf_switch() {
                c.set_dio2_as_rf_sw_ctrl(true);
            }
            if let Some(v) = tcxo {
                unsafe {
                    sx126x_clear_device_errors(ctxp(c));
                    // 10 ms start-up time in 15.625 us steps
                    sx126x_set_dio3_as_tcxo_ctrl(ctxp(c), (*v & 7) as u32, 10 << 6);
                    sx126x_cal(ctxp(c), 0x7F);
                }
            }
            c.set_pkt_type(smtc::sx126x_pkt_types_e::SX126X_PKT_TYPE_LORA);
            c.set_lora_sync_word(*legacy_sync);
            c.set_buffer_base_address(0, 0);
            // datasheet 9.6 / 15.1: RxGain and TxModulation survive warm sleep only when retained
            c.add_registers_to_retention_list(&[0x08AC]);
            c.add_registers_to_retention_list(&[0x0889]);
        }
        Op126::Reset => {
            if self.resets.get() == resets_before {
                return Err(fail("reset-line", format!("sx126x/{kind}/no-nreset-pulse"), "RadioKind::reset did not pulse NRESET through InterfaceVariant::reset".into()));
            }
            // NRESET on the reference's chip: the binding's hal reset is a no-op and the
            // reference driver keeps no state of its own
            chip_reset126(&wb);
        }
    }
    let ref_tx = wb.take_tx();

    // ---- compare
    let writes_only = matches!(case.op, Op126::Sync { .. } | Op126::Init { .. });
    let (a, b): (Vec<Vec<u8>>, Vec<Vec<u8>>) = if writes_only {
        (lp_tx.iter().filter(|t| t.first() != Some(&0x1D)).cloned().collect(), ref_tx.iter().filter(|t| t.first() != Some(&0x1D)).cloned().collect())
    } else {
        (lp_tx.clone(), ref_tx.clone())
    };
    if a != b {
        let n = a.len().min(b.len());
        let mut fp = format!("sx126x/{kind}/count");
        for i in 0..n {
            if a[i] != b[i] {
                let opc = b[i].first().copied().unwrap_or(0);
                let m = a[i].len().min(b[i].len());
                let byte = (0..m).find(|&j| a[i][j] != b[i][j]).map(|j| format!("b{j}")).unwrap_or_else(|| "len".into());
                fp = format!("sx126x/{kind}/op{opc:02x}.{byte}");
                break;
            }
        }
        return Err(fail("bytes-equal", fp, format!("lora-phy: {}  ||  reference: {}", hexs(&a), hexs(&b))));
    }
    if let Some(m) = independent.first() {
        return Err(fail("datasheet-side-condition", format!("sx126x/{kind}/side-condition"), m.clone()));
    }
    // both drivers must also have left the same register/buffer contents behind
    if wa.0.borrow().regs != wb.0.borrow().regs && !writes_only {
        return Err(fail("bytes-equal", format!("sx126x/{kind}/final-registers"), "identical traffic but different register contents (harness inconsistency)".into()));
    }
    Ok(Verdict::Compared)
    }
}

/// Runs one case on fresh driver instances with primed chip contents and compares.
pub fn check126(case: &Case126) -> Result<Verdict, Failure> {
    let cj = case.to_json();
    let (tcxo, dcdc) = match &case.op {
        Op126::Init { tcxo, dcdc, .. } => (tcxo.map(tcxo_voltage), *dcdc),
        _ => (None, false),
    };
    let mut s = Sess126::new(case.chip, case.rx_boost, tcxo, dcdc);
    // ---- identical prior chip contents on both sides
    for w in [&s.wa, &s.wb] {
        w.reset(case.seed);
        match &case.op {
            // reference does a read-modify-write on the sync word registers, lora-phy writes the
            // full value: compared with the registers at their reset value 0x14 0x24
            Op126::Sync { .. } | Op126::Init { .. } => {
                w.set_reg(0x0740, 0x14);
                w.set_reg(0x0741, 0x24);
            }
            _ => {}
        }
        if let Op126::Init { retention_count, .. } = &case.op {
            // the retention list counter only ever holds 0..=4
            w.set_reg(0x029F, *retention_count);
        }
    }
    s.step(case, &cj)
}
