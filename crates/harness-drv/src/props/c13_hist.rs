//! C13, history stage: the compared operation is issued on driver instances that have already
//! been used.
//!
//! The property quantifies over every call, also one made after earlier activity on the same
//! driver instance. The grids in c13.rs run each operation on a fresh driver, so they cannot see
//! driver-side state (a shadow of a register, an "already programmed" flag) that makes a later call
//! issue other transactions than Semtech's driver does. Here ONE lora-phy driver and ONE reference
//! context (each on its own double) execute a whole history: operations of the same kind with the
//! same / other parameters, other operations, sleep (warm / cold) + wake, chip resets. Every step
//! is compared exactly like a single operation is in c13_126x.rs / c13_127x.rs:
//!
//! * SX126x: wire-canonical transactions of the step. NRESET (through `RadioKind::reset` and the
//!   `InterfaceVariant` double) and a cold-start sleep put the double's registers back to their
//!   reset contents on both sides.
//! * SX127x: chip-visible outcome of the step (register file, FIFO writes, operating-mode
//!   sequence, allow-list). Both register files hold identical contents before every step: after a
//!   judged step the reference's chip is made to hold what lora-phy's chip holds (only
//!   allow-listed cells can differ at that point), which is the statement's "given the same
//!   register state". NRESET puts every register back to its datasheet reset value, so a write
//!   that a driver skips because it believes the value is already there stays visible in the
//!   final register file. The reference gets the re-initialisation it needs after a reset: a
//!   fresh sx127x_t, LoRa packet type, standby.
//!
//! A reset or a cold-start sleep never stands alone in a generated history: it is followed by the
//! cold-start sequence lora-phy's own `LoRa` layer always issues at that point (wake-up, standby,
//! `init_lora`, default TX power, idle interrupt set-up), so a driver that re-validates a shadow
//! there rather than in `reset()` is not accused.
//!
//! Generators: (a) every grid entry after every word of length 1..2 (thorough: 3) over {same
//! operation same parameters, same operation other parameters, chip reset, cold sleep + wake, warm
//! sleep + wake}; (b) every ordered pair of grid entries, directly / with a reset / with a
//! cold-start sleep in between; (c) random longer histories (proptest, shrinking).
//!
//! The first differing step is the failure; the saved case is the history up to that step.

use super::c13::{tolerated127, Env, Unit};
use super::c13_126x::*;
use super::c13_127x::*;
use proptest::prelude::*;
use serde_json::{json, Value};
use verif_core::*;

// ================================================================ SX126x

#[derive(Clone, Debug)]
pub struct Hist126 {
    pub chip: Chip126,
    pub rx_boost: bool,
    pub dcdc: bool,
    pub seed: u64,
    pub steps: Vec<Op126>,
}

impl Hist126 {
    pub fn to_json_upto(&self, n: usize) -> Value {
        json!({"family":"sx126x-history","chip":self.chip.name(),"rx_boost":self.rx_boost,"dcdc":self.dcdc,"prior_seed":self.seed,
               "steps": self.steps.iter().take(n).map(|o| o.to_json()).collect::<Vec<_>>()})
    }
    pub fn to_json(&self) -> Value {
        self.to_json_upto(self.steps.len())
    }
    pub fn from_json(v: &Value) -> Option<Hist126> {
        Some(Hist126 {
            chip: Chip126::from_name(v["chip"].as_str()?)?,
            rx_boost: v["rx_boost"].as_bool()?,
            dcdc: v["dcdc"].as_bool()?,
            seed: v["prior_seed"].as_u64()?,
            steps: v["steps"].as_array()?.iter().map(Op126::from_json).collect::<Option<Vec<_>>>()?,
        })
    }
}

fn hist_failure(mut f: Failure, case: Value, step: usize, kind: &str) -> Failure {
    f.case = case;
    f.fingerprint = format!("hist/{}", f.fingerprint);
    f.detail = format!("step {} ({kind}) of a history on one driver instance: {}", step + 1, f.detail);
    f
}

/// Runs the history; Ok(number of compared steps).
pub fn check_hist126(h: &Hist126) -> Result<u32, Failure> {
    let mut s = Sess126::new(h.chip, h.rx_boost, None, h.dcdc);
    for w in [&s.wa, &s.wb] {
        w.reset(h.seed);
        chip_reset126(w);
    }
    let mut n = 0;
    for (i, op) in h.steps.iter().enumerate() {
        let case = Case126 { chip: h.chip, rx_boost: h.rx_boost, seed: h.seed.wrapping_add(i as u64), op: op.clone() };
        // the saved case (the history up to this step) is only built for a failure
        match s.step(&case, &Value::Null) {
            Ok(_) => n += 1,
            Err(f) => return Err(hist_failure(f, h.to_json_upto(i + 1), i, op.kind())),
        }
    }
    Ok(n)
}

fn bwhz(i: usize) -> u32 {
    BWS[i % BWS.len()].hz()
}

/// The thinned parameter grid: every operation kind with a handful of parameter tuples. Entries
/// of one kind are adjacent, "other parameters" of an entry is the next entry of the same kind.
pub fn pool126(chip: Chip126, dcdc: bool, thorough: bool) -> Vec<Op126> {
    let mut v: Vec<Op126> = vec![];
    v.push(Op126::Sleep { warm: true });
    v.push(Op126::Sleep { warm: false });
    v.push(Op126::Standby);
    v.push(Op126::Wake);
    let mut freqs: Vec<u32> = vec![868_100_000, 867_900_000, 433_175_000, 903_900_000, 923_300_000, 490_000_000, 169_400_000, 915_000_000];
    if thorough {
        freqs.extend([863_000_000u32, 869_525_000, 902_300_000, 927_500_000, 434_790_000, 137_000_000, 1_020_000_000, 779_500_000]);
    }
    for hz in &freqs {
        v.push(Op126::Freq { hz: *hz });
    }
    let sfs: Vec<u8> = if thorough { (5..=12).collect() } else { vec![5, 7, 9, 12] };
    let bws: Vec<usize> = if thorough { (0..10).collect() } else { vec![0, 6, 7, 9] };
    let mut k = 0usize;
    for sf in &sfs {
        for b in &bws {
            k += 1;
            v.push(Op126::Mod { sf: *sf, bw_hz: bwhz(*b), cr: 5 + (k % 4) as u8, ldro: (k / 4 % 2) as u8, hz: if k % 3 == 0 { 915_000_000 } else { 868_100_000 } });
        }
    }
    for (preamble, implicit, len, crc, iq) in [(8u16, false, 23u8, true, false), (8, false, 23, true, true), (8, true, 255, false, true), (0, false, 0, false, false), (65535, true, 1, true, false), (12, false, 200, false, true), (6, true, 17, true, true), (256, false, 64, true, false)] {
        v.push(Op126::Pkt { preamble, implicit, len, crc, iq });
    }
    for legacy in [0x34u8, 0x12, 0x00, 0xFF, 0xA5] {
        v.push(Op126::Sync { legacy });
    }
    for (tx, rx) in [(0u8, 0u8), (0, 128), (255, 1), (17, 34)] {
        v.push(Op126::BufBase { tx, rx });
    }
    for len in [0u16, 1, 13, 255] {
        v.push(Op126::WriteBuf { len });
    }
    let mut k = 0;
    for dbm in [-17i32, -9, 0, 10, 14, 15, 17, 20, 22] {
        for freq in [None, Some(868_100_000u32)] {
            k += 1;
            v.push(Op126::Pa { dbm, tx_prep: k % 2 == 0, freq });
        }
    }
    for mode in IRQ_MODES {
        v.push(Op126::Irq { mode: mode.to_string() });
    }
    v.push(Op126::ClrIrq);
    for kind in [RxKind::Single(0), RxKind::Single(8), RxKind::Single(300), RxKind::Continuous, RxKind::Duty { rx: 100, sleep: 200 }, RxKind::Duty { rx: 0xFFFFFF, sleep: 1 }] {
        v.push(Op126::Rx { kind });
    }
    v.push(Op126::Tx);
    for sf in [5u8, 7, 12] {
        v.push(Op126::Cad { sf });
    }
    for hz in [433_000_000u32, 490_000_000, 780_000_000, 868_100_000, 915_000_000] {
        v.push(Op126::CalImg { hz });
    }
    for symbols in [8u16, 0] {
        v.push(Op126::RxDoneSingle { symbols });
    }
    for legacy_sync in [0x34u8, 0x12] {
        v.push(Op126::Init { legacy_sync, dcdc, tcxo: None, retention_count: 0 });
    }
    // no bare Reset: a reset only occurs with the cold-start sequence behind it (reset_seq126)
    let _ = chip;
    v
}

/// "the same operation with other parameters": the next pool entry of the same kind (cyclic)
fn other_in_pool<T>(pool: &[T], i: usize, same_kind: impl Fn(&T, &T) -> bool) -> usize {
    let n = pool.len();
    if i + 1 < n && same_kind(&pool[i + 1], &pool[i]) {
        return i + 1;
    }
    // first entry of the run this entry belongs to
    let mut j = i;
    while j > 0 && same_kind(&pool[j - 1], &pool[i]) {
        j -= 1;
    }
    j
}

/// The prefix alphabet of the exhaustive stage.
#[derive(Clone, Copy, Debug, PartialEq)]
pub enum Pre {
    Same,
    Other,
    Reset,
    ColdSleepWake,
    WarmSleepWake,
}
pub const ALPHABET: [Pre; 5] = [Pre::Same, Pre::Other, Pre::Reset, Pre::ColdSleepWake, Pre::WarmSleepWake];

/// every word over the alphabet of length 1..=max_len
pub fn prefixes(max_len: usize) -> Vec<Vec<Pre>> {
    let mut out: Vec<Vec<Pre>> = vec![];
    let mut layer: Vec<Vec<Pre>> = vec![vec![]];
    for _ in 0..max_len {
        let mut next = vec![];
        for w in &layer {
            for a in ALPHABET {
                let mut x = w.clone();
                x.push(a);
                next.push(x);
            }
        }
        out.extend(next.iter().cloned());
        layer = next;
    }
    out
}

/// What follows a loss of the chip's configuration wherever lora-phy's own `LoRa` layer drives a
/// RadioKind (`LoRa::init` after `reset`, `prepare_modem` after a cold-start sleep): wake-up,
/// standby, `init_lora`, default TX power, idle interrupt set-up. Histories always continue with
/// this sequence, so a driver that re-validates its shadows there (and not in `reset` itself) is
/// not accused.
fn cold_start_seq126(v: &mut Vec<Op126>, dcdc: bool, public: bool) {
    v.push(Op126::Wake);
    v.push(Op126::Standby);
    v.push(Op126::Init { legacy_sync: if public { 0x34 } else { 0x12 }, dcdc, tcxo: None, retention_count: 0 });
    v.push(Op126::Pa { dbm: 0, tx_prep: false, freq: None });
    v.push(Op126::Irq { mode: "standby".into() });
}
fn reset_seq126(v: &mut Vec<Op126>, dcdc: bool, public: bool) {
    v.push(Op126::Reset);
    cold_start_seq126(v, dcdc, public);
}
fn sleep_wake_seq126(v: &mut Vec<Op126>, warm: bool, dcdc: bool, public: bool) {
    v.push(Op126::Sleep { warm });
    if warm {
        v.push(Op126::Wake);
        v.push(Op126::Standby);
    } else {
        cold_start_seq126(v, dcdc, public);
    }
}

fn expand126(pre: &[Pre], op: &Op126, other: &Op126, dcdc: bool, public: bool) -> Vec<Op126> {
    let mut v = vec![];
    for p in pre {
        match p {
            Pre::Same => v.push(op.clone()),
            Pre::Other => v.push(other.clone()),
            Pre::Reset => reset_seq126(&mut v, dcdc, public),
            Pre::ColdSleepWake => sleep_wake_seq126(&mut v, false, dcdc, public),
            Pre::WarmSleepWake => sleep_wake_seq126(&mut v, true, dcdc, public),
        }
    }
    v.push(op.clone());
    v
}

/// classes of a history for the evidence: does an operation repeat, exactly, after the chip lost
/// its configuration in between?
fn classes126(h: &Hist126) -> (bool, bool, bool) {
    let loses = |o: &Op126| matches!(o, Op126::Reset | Op126::Sleep { warm: false });
    let has_reset = h.steps.iter().any(|o| matches!(o, Op126::Reset));
    let has_sleep = h.steps.iter().any(|o| matches!(o, Op126::Sleep { .. }));
    let mut rep = false;
    for i in 0..h.steps.len() {
        for j in i + 1..h.steps.len() {
            if h.steps[i] == h.steps[j] && !loses(&h.steps[i]) && h.steps[i + 1..j].iter().any(loses) {
                rep = true;
            }
        }
    }
    (has_reset, has_sleep, rep)
}

fn eval_hist126(st: &mut Stats, h: &Hist126, class: &str) -> Result<(), Failure> {
    st.eval();
    st.class(class);
    let j = h.to_json();
    st.nt_hash(hash_value(&j));
    let (r, s, rep) = classes126(h);
    if r {
        st.class("hist/with-chip-reset");
    }
    if s {
        st.class("hist/with-sleep-wake");
    }
    if rep {
        st.class("hist/same-op-same-params-again-after-reset-or-cold-sleep");
    }
    if h.steps.len() >= 6 {
        st.class("hist/6-or-more-steps");
    }
    match check_hist126(h) {
        Ok(n) => {
            st.class_n("hist/steps-compared", n as u64);
            if st.want_sample() && st.evaluations % 4099 == 7 {
                st.sample(j);
            }
            Ok(())
        }
        Err(f) => Err(f),
    }
}

/// element of a random history before decoding: (selector, a, b)
type RawStep = (u8, u32, u32);

/// a reset / cold-start sleep never stands alone in a generated history
fn push126(steps: &mut Vec<Op126>, o: Op126, dcdc: bool, public: bool) {
    match o {
        Op126::Reset => reset_seq126(steps, dcdc, public),
        Op126::Sleep { warm: false } => sleep_wake_seq126(steps, false, dcdc, public),
        o => steps.push(o),
    }
}

fn decode126(chip: Chip126, rx_boost: bool, dcdc: bool, seed: u64, raw: &[RawStep], pool: &[Op126]) -> Hist126 {
    let mut steps: Vec<Op126> = vec![];
    let same_kind = |a: &Op126, b: &Op126| a.kind() == b.kind();
    for (sel, a, b) in raw {
        let fresh = pool[*a as usize % pool.len()].clone();
        let n = steps.len();
        match sel % 16 {
            0 | 1 if n > 0 => {
                let o = steps[*a as usize % n].clone();
                push126(&mut steps, o, dcdc, *b & 1 == 0)
            }
            2 if n > 0 => {
                // same kind as an earlier step, other parameters
                let e = &steps[*a as usize % n];
                let o = match pool.iter().position(|p| p == e) {
                    Some(i) => pool[other_in_pool(pool, i, same_kind)].clone(),
                    None => fresh,
                };
                push126(&mut steps, o, dcdc, *b & 1 == 0)
            }
            3 => reset_seq126(&mut steps, dcdc, *b & 1 == 0),
            4 | 5 => sleep_wake_seq126(&mut steps, sel % 16 == 5, dcdc, *b & 1 == 0),
            14 => steps.push(Op126::Freq { hz: 137_000_000 + (((*a as u64) << 32 | *b as u64) % 883_000_001) as u32 }),
            15 => steps.push(Op126::Mod { sf: 5 + (*a % 8) as u8, bw_hz: bwhz(*b as usize), cr: 5 + (*a >> 8) as u8 % 4, ldro: (*a >> 16) as u8 & 1, hz: 868_100_000 }),
            _ => push126(&mut steps, fresh, dcdc, *b & 1 == 0),
        }
    }
    Hist126 { chip, rx_boost, dcdc, seed, steps }
}

// ================================================================ SX127x

#[derive(Clone, Debug)]
pub struct Hist127 {
    pub chip: Chip127,
    pub tx_boost: bool,
    pub rx_boost: bool,
    pub seed: u64,
    pub steps: Vec<Sc127>,
}

impl Hist127 {
    pub fn to_json_upto(&self, n: usize) -> Value {
        json!({"family":"sx127x-history","chip":self.chip.name(),"tx_boost":self.tx_boost,"rx_boost":self.rx_boost,"prior_seed":self.seed,
               "steps": self.steps.iter().take(n).map(|o| o.to_json()).collect::<Vec<_>>()})
    }
    pub fn to_json(&self) -> Value {
        self.to_json_upto(self.steps.len())
    }
    pub fn from_json(v: &Value) -> Option<Hist127> {
        Some(Hist127 {
            chip: Chip127::from_name(v["chip"].as_str()?)?,
            tx_boost: v["tx_boost"].as_bool()?,
            rx_boost: v["rx_boost"].as_bool()?,
            seed: v["prior_seed"].as_u64()?,
            steps: v["steps"].as_array()?.iter().map(Sc127::from_json).collect::<Option<Vec<_>>>()?,
        })
    }
}

/// Runs the history; Ok((compared steps, steps tolerated under a documented deviation / finding)).
pub fn check_hist127(h: &Hist127, kf: &KnownFindings) -> Result<(u32, Vec<&'static str>), Failure> {
    let mut s = Sess127::new(h.chip, h.tx_boost, h.rx_boost);
    // random prior contents (normalised as for single operations), chip in LoRa standby
    s.prime(&Case127 { chip: h.chip, tx_boost: h.tx_boost, rx_boost: h.rx_boost, seed: h.seed, sc: Sc127::Freq { hz: 0 } });
    let mut n = 0;
    let mut tolerated: Vec<&'static str> = vec![];
    for (i, sc) in h.steps.iter().enumerate() {
        let case = Case127 { chip: h.chip, tx_boost: h.tx_boost, rx_boost: h.rx_boost, seed: h.seed.wrapping_add(i as u64), sc: sc.clone() };
        match s.step(&case, &Value::Null) {
            Ok(_) => n += 1,
            Err(f) => match tolerated127(kf, &case, &f) {
                Some(id) => tolerated.push(id),
                None => return Err(hist_failure(f, h.to_json_upto(i + 1), i, sc.kind())),
            },
        }
        s.reconcile();
    }
    Ok((n, tolerated))
}

pub fn pool127(chip: Chip127, thorough: bool) -> Vec<Sc127> {
    let mut v: Vec<Sc127> = vec![Sc127::Standby, Sc127::Sleep];
    let mut freqs: Vec<u32> = vec![868_100_000, 867_900_000, 433_175_000, 903_900_000, 923_300_000, 490_000_000, 169_400_000, 915_000_000, 434_000_000];
    if thorough {
        freqs.extend([863_000_000u32, 869_525_000, 902_300_000, 927_500_000, 434_790_000, 137_000_000, 1_020_000_000, 779_500_000]);
    }
    for hz in freqs.iter().filter(|f| chip.in_band(**f)) {
        v.push(Sc127::Freq { hz: *hz });
    }
    let sfs: Vec<u8> = if thorough { (6..=12).collect() } else { vec![6, 7, 9, 12] };
    let bws: Vec<u32> = (if thorough { (0..10).collect::<Vec<usize>>() } else { vec![0, 6, 7, 8, 9] }).into_iter().map(bwhz).filter(|b| chip.supports_bw(*b)).collect();
    let mut k = 0usize;
    for sf in &sfs {
        for bw in &bws {
            for armed in [false, true] {
                k += 1;
                let hz = match (chip, k % 3) {
                    (Chip127::Sx1276, 0) => 433_175_000,
                    (_, 1) => 915_000_000,
                    _ => 868_100_000,
                };
                v.push(Sc127::Mod { mp: Mp { sf: *sf, bw_hz: *bw, cr: 5 + (k % 4) as u8, ldro: (k / 4 % 2) as u8, hz }, armed });
            }
        }
    }
    let pps = [
        Pp { preamble: 8, implicit: false, len: 23, crc: true, iq: false },
        Pp { preamble: 8, implicit: false, len: 23, crc: true, iq: true },
        Pp { preamble: 8, implicit: true, len: 255, crc: false, iq: true },
        Pp { preamble: 0, implicit: false, len: 0, crc: false, iq: false },
        Pp { preamble: 65535, implicit: true, len: 1, crc: true, iq: false },
        Pp { preamble: 12, implicit: false, len: 200, crc: false, iq: true },
    ];
    for pp in &pps {
        v.push(Sc127::Pkt { pp: pp.clone() });
    }
    for legacy in [0x34u8, 0x12, 0x00, 0xFF, 0xA5] {
        v.push(Sc127::Sync { legacy });
    }
    v.push(Sc127::SyncRefuse { word: 0x1234 });
    for (tx, rx) in [(0u8, 0u8), (0, 128), (255, 1), (17, 34)] {
        v.push(Sc127::BufBase { tx, rx });
    }
    for pp in &pps {
        v.push(Sc127::Payload { pp: pp.clone() });
    }
    let mut k = 0;
    for dbm in [-4i32, 0, 2, 10, 14, 17, 18, 20] {
        k += 1;
        v.push(Sc127::TxPower { dbm, tx_prep: k % 2 == 0 });
        if thorough {
            v.push(Sc127::TxPower { dbm, tx_prep: k % 2 != 0 });
        }
    }
    for mode in ["none", "sleep", "standby", "fs", "listen"] {
        v.push(Sc127::IrqIdle { mode: mode.into() });
    }
    // start flows: bandwidths on both sides of the errata thresholds, both IQ settings, both headers
    let flow_mps: Vec<Mp> = [(7u8, 125_000u32, 868_100_000u32), (12, 125_000, 868_500_000), (9, 500_000, 915_000_000), (6, 250_000, 923_200_000), (10, 62_500, 433_175_000), (8, 31_250, 868_300_000), (11, 500_000, 490_000_000)]
        .into_iter()
        .filter(|(_, bw, hz)| chip.supports_bw(*bw) && chip.in_band(*hz))
        .enumerate()
        .map(|(i, (sf, bw_hz, hz))| Mp { sf, bw_hz, cr: 5 + (i % 4) as u8, ldro: (sf >= 11) as u8, hz })
        .collect();
    for (i, mp) in flow_mps.iter().enumerate() {
        let implicit = mp.sf == 6 || i % 3 == 2;
        let pp = Pp { preamble: [8u16, 6, 12, 300][i % 4], implicit, len: [17u8, 0, 255, 64][i % 4], crc: i % 2 == 0, iq: i % 2 == 1 };
        v.push(Sc127::TxFlow { mp: mp.clone(), pp, legacy: if i % 2 == 0 { 0x34 } else { 0x12 } });
    }
    for (i, mp) in flow_mps.iter().enumerate() {
        let implicit = mp.sf == 6 || i % 3 == 1;
        let pp = Pp { preamble: [8u16, 6, 12, 300][i % 4], implicit, len: [255u8, 17, 64, 1][i % 4], crc: i % 2 == 1, iq: i % 2 == 0 };
        let symbols = [Some(8u16), None, Some(0), Some(1023), Some(5000)][i % 5];
        v.push(Sc127::RxFlow { mp: mp.clone(), pp, legacy: if i % 2 == 0 { 0x34 } else { 0x12 }, symbols });
    }
    v.push(Sc127::CadFlow);
    for legacy in [0x34u8, 0x12] {
        v.push(Sc127::InitLora { legacy });
    }
    v.push(Sc127::SleepWake { warm: true });
    // no bare Reset / cold SleepWake: they only occur with the cold-start sequence behind them
    v
}

/// see cold_start_seq126: `init_lora`, default TX power, idle interrupt set-up
fn cold_start_seq127(v: &mut Vec<Sc127>, public: bool) {
    v.push(Sc127::InitLora { legacy: if public { 0x34 } else { 0x12 } });
    v.push(Sc127::TxPower { dbm: 0, tx_prep: false });
    v.push(Sc127::IrqIdle { mode: "standby".into() });
}
fn reset_seq127(v: &mut Vec<Sc127>, public: bool) {
    v.push(Sc127::Reset);
    cold_start_seq127(v, public);
}
fn sleep_wake_seq127(v: &mut Vec<Sc127>, warm: bool, public: bool) {
    v.push(Sc127::SleepWake { warm });
    if !warm {
        // `LoRa::sleep(false)` marks a cold start, the set-up is repeated after the wake-up
        cold_start_seq127(v, public);
    }
}

fn expand127(pre: &[Pre], sc: &Sc127, other: &Sc127, public: bool) -> Vec<Sc127> {
    let mut v = vec![];
    for p in pre {
        match p {
            Pre::Same => v.push(sc.clone()),
            Pre::Other => v.push(other.clone()),
            Pre::Reset => reset_seq127(&mut v, public),
            Pre::ColdSleepWake => sleep_wake_seq127(&mut v, false, public),
            Pre::WarmSleepWake => sleep_wake_seq127(&mut v, true, public),
        }
    }
    v.push(sc.clone());
    v
}

fn classes127(h: &Hist127) -> (bool, bool, bool) {
    let has_reset = h.steps.iter().any(|o| matches!(o, Sc127::Reset));
    let has_sleep = h.steps.iter().any(|o| matches!(o, Sc127::SleepWake { .. } | Sc127::Sleep));
    let mut rep = false;
    for i in 0..h.steps.len() {
        for j in i + 1..h.steps.len() {
            if h.steps[i] == h.steps[j] && h.steps[i] != Sc127::Reset && h.steps[i + 1..j].iter().any(|o| *o == Sc127::Reset) {
                rep = true;
            }
        }
    }
    (has_reset, has_sleep, rep)
}

fn eval_hist127(st: &mut Stats, env: &Env, h: &Hist127, class: &str) -> Result<(), Failure> {
    st.eval();
    st.class(class);
    let j = h.to_json();
    st.nt_hash(hash_value(&j));
    let (r, s, rep) = classes127(h);
    if r {
        st.class("hist/with-chip-reset");
    }
    if s {
        st.class("hist/with-sleep-wake");
    }
    if rep {
        st.class("hist/same-op-same-params-again-after-reset-or-cold-sleep");
    }
    if h.steps.len() >= 6 {
        st.class("hist/6-or-more-steps");
    }
    match check_hist127(h, &env.kf) {
        Ok((n, tolerated)) => {
            st.class_n("hist/steps-compared", n as u64);
            for id in tolerated {
                st.excluded(id);
            }
            if st.want_sample() && st.evaluations % 4099 == 7 {
                st.sample(j);
            }
            Ok(())
        }
        Err(f) => Err(f),
    }
}

fn push127(steps: &mut Vec<Sc127>, o: Sc127, public: bool) {
    match o {
        Sc127::Reset => reset_seq127(steps, public),
        Sc127::SleepWake { warm: false } => sleep_wake_seq127(steps, false, public),
        o => steps.push(o),
    }
}

fn decode127(chip: Chip127, tx_boost: bool, rx_boost: bool, seed: u64, raw: &[RawStep], pool: &[Sc127]) -> Hist127 {
    let mut steps: Vec<Sc127> = vec![];
    let same_kind = |a: &Sc127, b: &Sc127| a.kind() == b.kind();
    let bands: &[(u32, u32)] = match chip {
        Chip127::Sx1276 => &[(137_000_000, 175_000_000), (410_000_000, 525_000_000), (862_000_000, 1_020_000_000)],
        Chip127::Sx1272 => &[(860_000_000, 1_020_000_000)],
    };
    for (sel, a, b) in raw {
        let fresh = pool[*a as usize % pool.len()].clone();
        let n = steps.len();
        match sel % 16 {
            0 | 1 if n > 0 => {
                let o = steps[*a as usize % n].clone();
                push127(&mut steps, o, *b & 1 == 0)
            }
            2 if n > 0 => {
                let e = &steps[*a as usize % n];
                match pool.iter().position(|p| p == e) {
                    Some(i) => steps.push(pool[other_in_pool(pool, i, same_kind)].clone()),
                    None => steps.push(fresh),
                }
            }
            3 => reset_seq127(&mut steps, *b & 1 == 0),
            4 | 5 => sleep_wake_seq127(&mut steps, sel % 16 == 5, *b & 1 == 0),
            14 => {
                let (lo, hi) = bands[*a as usize % bands.len()];
                steps.push(Sc127::Freq { hz: lo + *b % (hi - lo + 1) });
            }
            15 => {
                let bws: Vec<u32> = BWS.iter().map(|x| x.hz()).filter(|x| chip.supports_bw(*x)).collect();
                let bw_hz = bws[*b as usize % bws.len()];
                // 250/500 kHz are not legal below 400 MHz (create_modulation_params refuses them)
                let hz = if chip == Chip127::Sx1276 && bw_hz < 250_000 && (*a >> 20) & 1 == 1 { 169_400_000 } else { 868_100_000 };
                steps.push(Sc127::Mod { mp: Mp { sf: 6 + (*a % 7) as u8, bw_hz, cr: 5 + (*a >> 8) as u8 % 4, ldro: (*a >> 16) as u8 & 1, hz }, armed: (*a >> 24) & 1 == 1 });
            }
            _ => steps.push(fresh),
        }
    }
    Hist127 { chip, tx_boost, rx_boost, seed, steps }
}

// ================================================================ work units

fn unit(name: String, f: impl Fn(&mut Stats, &Env) + Send + Sync + 'static) -> Unit {
    Unit { name, run: Box::new(f) }
}

pub fn hist_units() -> Vec<Unit> {
    let mut u: Vec<Unit> = vec![];
    // ---- exhaustive short prefixes: every pool entry x every word over the alphabet
    for chip in CHIPS126 {
        let n = chip.name();
        for rx_boost in [false, true] {
            u.push(unit(format!("{n}/hist-prefixes/{rx_boost}"), move |st, env| {
                let dcdc = rx_boost; // both regulator settings occur, Init entries follow the driver's configuration
                let pool = pool126(chip, dcdc, env.thorough);
                let words = prefixes(if env.thorough { 3 } else { 2 });
                let mut rng = SplitMix::new(env.seed ^ fnv64(n.as_bytes()) ^ 0x4157 ^ rx_boost as u64);
                for (i, op) in pool.iter().enumerate() {
                    let other = &pool[other_in_pool(&pool, i, |a, b| a.kind() == b.kind())];
                    for w in &words {
                        let seed = rng.next_u64();
                        let h = Hist126 { chip, rx_boost, dcdc, seed, steps: expand126(w, op, other, dcdc, seed & 1 == 0) };
                        if let Err(f) = eval_hist126(st, &h, "hist/sx126x/enumerated-prefix") {
                            st.fail(f);
                        }
                    }
                }
            }));
        }
        // every ordered pair of pool entries, directly after one another / with a chip reset /
        // with a cold-start sleep in between (state carried from one operation kind to another)
        for part in 0..4usize {
            u.push(unit(format!("{n}/hist-pairs/{part}"), move |st, env| {
                let dcdc = part % 2 == 1;
                let rx_boost = part / 2 == 1;
                let pool = pool126(chip, dcdc, env.thorough);
                let mut rng = SplitMix::new(env.seed ^ fnv64(n.as_bytes()) ^ 0x9A185 ^ part as u64);
                for (i, x) in pool.iter().enumerate() {
                    if !env.thorough && i % 4 != part {
                        continue; // quick: each (x, y) pair under one of the four configurations
                    }
                    for y in pool.iter() {
                        for mid in 0..3 {
                            let seed = rng.next_u64();
                            let mut steps = vec![x.clone()];
                            match mid {
                                1 => reset_seq126(&mut steps, dcdc, seed & 1 == 0),
                                2 => sleep_wake_seq126(&mut steps, false, dcdc, seed & 1 == 0),
                                _ => {}
                            }
                            steps.push(y.clone());
                            let h = Hist126 { chip, rx_boost, dcdc, seed, steps };
                            if let Err(f) = eval_hist126(st, &h, "hist/sx126x/enumerated-pair") {
                                st.fail(f);
                            }
                        }
                    }
                }
            }));
        }
    }
    for chip in CHIPS127 {
        let n = chip.name();
        for cfg in 0..4u64 {
            u.push(unit(format!("{n}/hist-prefixes/{cfg}"), move |st, env| {
                let (tx_boost, rx_boost) = (cfg & 1 == 1, cfg & 2 == 2);
                let pool = pool127(chip, env.thorough);
                let words = prefixes(if env.thorough { 3 } else { 2 });
                let mut rng = SplitMix::new(env.seed ^ fnv64(n.as_bytes()) ^ 0x4157 ^ cfg << 8);
                for (i, sc) in pool.iter().enumerate() {
                    let other = &pool[other_in_pool(&pool, i, |a, b| a.kind() == b.kind())];
                    for w in &words {
                        let seed = rng.next_u64();
                        let h = Hist127 { chip, tx_boost, rx_boost, seed, steps: expand127(w, sc, other, seed & 1 == 0) };
                        if let Err(f) = eval_hist127(st, env, &h, "hist/sx127x/enumerated-prefix") {
                            st.fail(f);
                        }
                    }
                }
            }));
            u.push(unit(format!("{n}/hist-pairs/{cfg}"), move |st, env| {
                let (tx_boost, rx_boost) = (cfg & 1 == 1, cfg & 2 == 2);
                let pool = pool127(chip, env.thorough);
                let mut rng = SplitMix::new(env.seed ^ fnv64(n.as_bytes()) ^ 0x9A185 ^ cfg << 8);
                for (i, x) in pool.iter().enumerate() {
                    if !env.thorough && i as u64 % 4 != cfg {
                        continue; // quick: each (x, y) pair under one of the four board configurations
                    }
                    for y in pool.iter() {
                        for mid in 0..3 {
                            let seed = rng.next_u64();
                            let mut steps = vec![x.clone()];
                            match mid {
                                1 => reset_seq127(&mut steps, seed & 1 == 0),
                                2 => sleep_wake_seq127(&mut steps, false, seed & 1 == 0),
                                _ => {}
                            }
                            steps.push(y.clone());
                            let h = Hist127 { chip, tx_boost, rx_boost, seed, steps };
                            if let Err(f) = eval_hist127(st, env, &h, "hist/sx127x/enumerated-pair") {
                                st.fail(f);
                            }
                        }
                    }
                }
            }));
        }
    }
    // ---- random longer histories (proptest, shrinking)
    let parts = 4u64;
    for chip in CHIPS126 {
        let n = chip.name();
        for part in 0..parts {
            u.push(unit(format!("{n}/hist-random/{part}"), move |st, env| {
                let cases: u32 = if env.thorough { 40_000 } else { 1_500 };
                let max_len = if env.thorough { 16 } else { 8 };
                let pools = [pool126(chip, false, env.thorough), pool126(chip, true, env.thorough)];
                let strat = (any::<bool>(), any::<bool>(), 0u64..1 << 16, prop::collection::vec((any::<u8>(), any::<u32>(), any::<u32>()), 2..=max_len));
                let seed = env.seed ^ fnv64(n.as_bytes()) ^ (0xA11CE + part);
                let f = run_proptest(strat, cases, seed, st, |(rx_boost, dcdc, pseed, raw), st| {
                    let h = decode126(chip, *rx_boost, *dcdc, *pseed, raw, &pools[*dcdc as usize]);
                    eval_hist126(st, &h, "hist/sx126x/random")
                });
                if let Some(f) = f {
                    st.fail(f);
                }
            }));
        }
    }
    for chip in CHIPS127 {
        let n = chip.name();
        for part in 0..parts * 2 {
            u.push(unit(format!("{n}/hist-random/{part}"), move |st, env| {
                let cases: u32 = if env.thorough { 40_000 } else { 1_500 };
                let max_len = if env.thorough { 16 } else { 8 };
                let pool = pool127(chip, env.thorough);
                let strat = (any::<bool>(), any::<bool>(), 0u64..1 << 16, prop::collection::vec((any::<u8>(), any::<u32>(), any::<u32>()), 2..=max_len));
                let seed = env.seed ^ fnv64(n.as_bytes()) ^ (0xB0B + part);
                let kf = env.kf.clone();
                let env2 = Env { thorough: env.thorough, seed: env.seed, kf };
                let f = run_proptest(strat, cases, seed, st, |(tx_boost, rx_boost, pseed, raw), st| {
                    let h = decode127(chip, *tx_boost, *rx_boost, *pseed, raw, &pool);
                    eval_hist127(st, &env2, &h, "hist/sx127x/random")
                });
                if let Some(f) = f {
                    st.fail(f);
                }
            }));
        }
    }
    u
}

pub fn replay(case: &Value, kf: &KnownFindings) -> Result<(), Failure> {
    match case["family"].as_str() {
        Some("sx126x-history") => {
            let h = Hist126::from_json(case).ok_or_else(|| Failure::new("bad-replay", case.clone(), "cannot parse sx126x history"))?;
            check_hist126(&h).map(|_| ())
        }
        _ => {
            let h = Hist127::from_json(case).ok_or_else(|| Failure::new("bad-replay", case.clone(), "cannot parse sx127x history"))?;
            check_hist127(&h, kf).map(|_| ())
        }
    }
}

/// two real histories for the evidence samples (evaluated again by the enumeration)
pub fn sample_histories() -> (Hist126, Hist127) {
    (
        Hist126 { chip: Chip126::Sx1262, rx_boost: false, dcdc: false, seed: 5, steps: expand126(&[Pre::Same, Pre::ColdSleepWake], &Op126::Freq { hz: 868_100_000 }, &Op126::Freq { hz: 867_900_000 }, false, true) },
        Hist127 { chip: Chip127::Sx1276, tx_boost: true, rx_boost: false, seed: 6, steps: expand127(&[Pre::Same, Pre::Reset], &Sc127::Freq { hz: 868_100_000 }, &Sc127::Freq { hz: 867_900_000 }, true) },
    )
}
