use verif_core::*;

pub mod c13;
pub mod c13_126x;
pub mod c13_127x;
pub mod c13_hist;
pub mod c14;
pub mod c14_adapter;

pub fn table() -> Vec<Prop> {
    vec![Prop { id: "C13", run: c13::run, replay: c13::replay }, Prop { id: "C14", run: c14::run, replay: c14::replay }]
}
