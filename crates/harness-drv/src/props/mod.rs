use verif_core::*;

pub fn table() -> Vec<Prop> {
    vec![]
}
