//! C13 — SX126x/SX127x drivers emit the same SPI bytes as Semtech's reference driver.
//!
//! Generators (exhaustive grids + dense numeric sweeps + randomised prior register contents) for
//! the two comparison engines in c13_126x.rs / c13_127x.rs.

use super::c13_126x::*;
use super::c13_127x::*;
use serde_json::{json, Value};
use verif_core::*;

pub struct Env {
    pub thorough: bool,
    pub seed: u64,
    pub kf: KnownFindings,
}

// ---------------------------------------------------------------- known findings (open entries
// in known_findings.d/C13.json); a failure is tolerated only when BOTH the input matches the
// finding's trigger and the fingerprint is the listed one.

pub const KF_FRF: &str = "C13-sx127x-frf-truncation";
pub const KF_E23: &str = "allow-list: sx1276 errata 2.3 below 62.5 kHz not applied (documented deviation)";

pub fn frf_nearest(hz: u32) -> u32 {
    ((((hz as u64) << 19) + 16_000_000) / 32_000_000) as u32
}
pub fn frf_floor(hz: u32) -> u32 {
    (((hz as u64) << 19) / 32_000_000) as u32
}

fn case_freq127(case: &Case127) -> Option<u32> {
    match &case.sc {
        Sc127::Freq { hz } => Some(*hz),
        Sc127::TxFlow { mp, .. } | Sc127::RxFlow { mp, .. } => Some(mp.hz),
        _ => None,
    }
}

/// Which active known finding (if any) explains this failure of this case.
pub fn tolerated127(env_kf: &KnownFindings, case: &Case127, f: &Failure) -> Option<&'static str> {
    if env_kf.is_active(KF_FRF) {
        if let Some(hz) = case_freq127(case) {
            // trigger: the exact PLL word has a fractional part above one half, so truncation and
            // rounding differ; shows as a one-LSB difference in RegFrfLsb (0x08) only
            if frf_floor(hz) != frf_nearest(hz) && f.fingerprint == "sx127x/frf-one-below-reference" {
                return Some(KF_FRF);
            }
        }
    }
    // Documented deviation (allow-list, not a finding): SX1276 errata 2.3 for bandwidths below
    // 62.5 kHz is an errata sequence that lora-phy documents as not applied (sx1276.rs); the
    // property compares "up to the documented errata sequences". Only the errata registers
    // 0x06-0x08, 0x2F, 0x30, 0x31[7] may differ, everything else of such a case is still judged.
    if let (Chip127::Sx1276, Sc127::RxFlow { mp, .. }) = (case.chip, &case.sc) {
        if mp.bw_hz < 62_500 && f.fingerprint.starts_with("sx1276/rx-flow/errata-2.3-narrow-bw") {
            return Some(KF_E23);
        }
    }
    None
}

// ---------------------------------------------------------------- pinned by the in-tree tests

fn pinned126(c: &Case126) -> bool {
    match &c.op {
        Op126::Sleep { .. } | Op126::Standby | Op126::Wake | Op126::Tx | Op126::ClrIrq => c.chip == Chip126::Sx1261,
        Op126::Freq { hz } => c.chip == Chip126::Sx1261 && [433_000_000, 868_100_000, 903_900_000].contains(hz),
        Op126::Mod { sf, bw_hz, cr, ldro, .. } => c.chip == Chip126::Sx1261 && [(7, 125_000, 5, 0), (12, 500_000, 5, 0), (11, 125_000, 5, 1)].contains(&(*sf, *bw_hz, *cr, *ldro)),
        Op126::Pkt { preamble, implicit, len, crc, .. } => c.chip == Chip126::Sx1261 && *preamble == 8 && !*implicit && *len == 32 && *crc,
        Op126::Sync { legacy } => *legacy == 0x34,
        Op126::BufBase { tx, rx } => *tx == 0 && *rx == 0,
        Op126::WriteBuf { len } => *len == 22,
        Op126::Pa { dbm, freq, .. } => {
            freq.is_none()
                && match c.chip {
                    Chip126::Sx1261 => [15, 14, 10, 0, -17, -30].contains(dbm),
                    Chip126::Sx1262 => [22, 30, 21, 20, 17, 14, -9].contains(dbm),
                    Chip126::Stm32wlHp => [22, 17, 14, -9].contains(dbm),
                    Chip126::Stm32wlLp => false,
                }
        }
        Op126::Irq { mode } => mode == "transmit",
        Op126::Rx { kind } => c.rx_boost && matches!(kind, RxKind::Continuous | RxKind::Single(8)),
        Op126::Cad { sf } => *sf == 7 && c.rx_boost,
        Op126::CalImg { hz } => [903_900_000, 868_100_000, 433_000_000].contains(hz),
        Op126::RxDoneSingle { .. } => false,
        Op126::Init { legacy_sync, dcdc, tcxo, retention_count } => *legacy_sync == 0x34 && !*dcdc && tcxo.is_none() && *retention_count == 0,
        Op126::Reset => false,
    }
}

fn pinned127(c: &Case127) -> bool {
    if c.chip != Chip127::Sx1276 || c.seed != 0 {
        return false; // the in-tree suite is SX1276-only and starts from reset values
    }
    match &c.sc {
        Sc127::Standby | Sc127::Sleep | Sc127::CadFlow => true,
        Sc127::Freq { hz } => [433_000_000, 868_100_000, 915_000_000].contains(hz),
        Sc127::Mod { mp, .. } => [(7, 125_000, 5), (12, 125_000, 8), (6, 250_000, 5)].contains(&(mp.sf, mp.bw_hz, mp.cr)),
        Sc127::Sync { legacy } => [0x34, 0x12].contains(legacy),
        Sc127::TxPower { dbm, .. } => [20, 14, 0].contains(dbm),
        _ => false,
    }
}

// ---------------------------------------------------------------- evaluation helpers

fn eval126(st: &mut Stats, case: Case126, class: &str) {
    st.eval();
    st.class(class);
    let nt = !pinned126(&case);
    if nt {
        st.nt_distinct();
    }
    match check126(&case) {
        Ok(super::c13_126x::Verdict::Compared) => {
            if nt && st.want_sample() && (st.evaluations % 9973 == 1 || st.evaluations < 3) {
                st.sample(case.to_json());
            }
        }
        Ok(super::c13_126x::Verdict::Refused) => st.class("refused-with-zero-traffic"),
        Err(f) => st.fail(f),
    }
}

fn eval127(st: &mut Stats, env: &Env, case: Case127, class: &str) {
    st.eval();
    st.class(class);
    let nt = !pinned127(&case);
    if nt {
        st.nt_distinct();
    }
    match check127(&case) {
        Ok(super::c13_127x::Verdict::Compared) => {
            if nt && st.want_sample() && (st.evaluations % 9973 == 1 || st.evaluations < 3) {
                st.sample(case.to_json());
            }
        }
        Ok(super::c13_127x::Verdict::Refused) => st.class("refused-with-zero-traffic"),
        Err(f) => match tolerated127(&env.kf, &case, &f) {
            Some(id) => st.excluded(id),
            None => st.fail(f),
        },
    }
}

/// LoRaWAN band channel grids (RP002): every 100 Hz step
pub const BANDS_100HZ: [(u32, u32); 3] = [(433_050_000, 434_790_000), (863_000_000, 870_000_000), (902_000_000, 928_000_000)];

fn freq_list(env: &Env, lo_limit: u32) -> Vec<u32> {
    let mut v: Vec<u32> = vec![];
    for (lo, hi) in BANDS_100HZ {
        let mut f = lo;
        while f <= hi {
            if f >= lo_limit {
                v.push(f);
            }
            f += 100;
        }
    }
    // stride over the whole tuning range
    let stride = if env.thorough { 29 } else { 499 };
    let mut f = 137_000_000u32.max(lo_limit);
    while f <= 1_020_000_000 {
        v.push(f);
        f += stride;
    }
    // 1 Hz steps around a few channels (all residues of the PLL conversion)
    let span: u32 = if env.thorough { 400_000 } else { 40_000 };
    for c in [433_175_000u32, 867_700_000, 868_100_000, 903_900_000, 923_300_000] {
        if c >= lo_limit {
            for d in 0..span {
                v.push(c - span / 2 + d);
            }
        }
    }
    v
}

const PREAMBLES: [u16; 8] = [0, 1, 6, 8, 12, 255, 256, 65535];

pub struct Unit {
    pub name: String,
    pub run: Box<dyn Fn(&mut Stats, &Env) + Send + Sync>,
}

fn unit(name: String, f: impl Fn(&mut Stats, &Env) + Send + Sync + 'static) -> Unit {
    Unit { name, run: Box::new(f) }
}

pub fn units() -> Vec<Unit> {
    let mut u: Vec<Unit> = vec![];
    // ------------------------------------------------------------ SX126x
    for chip in CHIPS126 {
        let n = chip.name();
        // frequency, split into chunks so that threads share the work
        for part in 0..8u32 {
            u.push(unit(format!("{n}/freq/{part}"), move |st, env| {
                for (i, hz) in freq_list(env, 0).into_iter().enumerate() {
                    if i as u32 % 8 == part {
                        eval126(st, Case126 { chip, rx_boost: false, seed: 0, op: Op126::Freq { hz } }, "sx126x/freq");
                    }
                }
            }));
        }
        u.push(unit(format!("{n}/discrete"), move |st, env| {
            let priors: u64 = if env.thorough { 24 } else { 5 };
            let mut rng = SplitMix::new(env.seed ^ fnv64(n.as_bytes()));
            for warm in [false, true] {
                eval126(st, Case126 { chip, rx_boost: false, seed: 0, op: Op126::Sleep { warm } }, "sx126x/sleep");
            }
            eval126(st, Case126 { chip, rx_boost: false, seed: 0, op: Op126::Standby }, "sx126x/standby");
            eval126(st, Case126 { chip, rx_boost: false, seed: 0, op: Op126::Wake }, "sx126x/wake");
            eval126(st, Case126 { chip, rx_boost: false, seed: 0, op: Op126::Tx }, "sx126x/tx");
            eval126(st, Case126 { chip, rx_boost: false, seed: 0, op: Op126::ClrIrq }, "sx126x/clrirq");
            // modulation parameters: every SF x BW x CR x LDRO, random prior TxModulation register
            for sf in 5..=12u8 {
                for bw in BWS {
                    for cr in 5..=8u8 {
                        for ldro in 0..=1u8 {
                            for _ in 0..priors {
                                eval126(st, Case126 { chip, rx_boost: rng.below(2) == 1, seed: rng.next_u64(), op: Op126::Mod { sf, bw_hz: bw.hz(), cr, ldro, hz: 868_100_000 } }, "sx126x/mod");
                            }
                        }
                    }
                }
            }
            // sync words: all 256 legacy bytes
            for legacy in 0..=255u8 {
                eval126(st, Case126 { chip, rx_boost: false, seed: rng.next_u64(), op: Op126::Sync { legacy } }, "sx126x/sync");
            }
            // buffer writes of every length
            for len in 0..=255u16 {
                eval126(st, Case126 { chip, rx_boost: false, seed: rng.next_u64(), op: Op126::WriteBuf { len } }, "sx126x/writebuf");
            }
            // PA configuration + TX parameters: every power, both ramp classes, both sides of 400 MHz
            for dbm in -20..=30i32 {
                for tx_prep in [false, true] {
                    for freq in [None, Some(169_000_000u32), Some(399_999_999), Some(400_000_000), Some(868_100_000)] {
                        for _ in 0..priors {
                            eval126(st, Case126 { chip, rx_boost: false, seed: rng.next_u64(), op: Op126::Pa { dbm, tx_prep, freq } }, "sx126x/pa");
                        }
                    }
                }
            }
            // IRQ masks for every radio mode
            for mode in IRQ_MODES {
                eval126(st, Case126 { chip, rx_boost: false, seed: 0, op: Op126::Irq { mode: mode.to_string() } }, "sx126x/irq");
            }
            for rx_boost in [false, true] {
                eval126(st, Case126 { chip, rx_boost, seed: 0, op: Op126::Rx { kind: RxKind::Continuous } }, "sx126x/rx-continuous");
                // duty cycle: 24-bit periods, boundary + random values
                let mut vals: Vec<u32> = vec![0, 1, 0xFF, 0x100, 0xFFFF, 0x10000, 0xFFFFFE, 0xFFFFFF];
                for _ in 0..24 {
                    vals.push(rng.below(1 << 24) as u32);
                }
                for rx in &vals {
                    for sleep in &vals {
                        eval126(st, Case126 { chip, rx_boost, seed: 0, op: Op126::Rx { kind: RxKind::Duty { rx: *rx, sleep: *sleep } } }, "sx126x/rx-duty");
                    }
                }
                for sf in 5..=12u8 {
                    eval126(st, Case126 { chip, rx_boost, seed: 0, op: Op126::Cad { sf } }, "sx126x/cad");
                }
            }
            // image calibration on the bands the datasheet tabulates
            for (lo, hi) in [(430u32, 440u32), (470, 510), (779, 787), (863, 870), (902, 928)] {
                let mut f = lo * 1_000_000;
                while f <= hi * 1_000_000 {
                    eval126(st, Case126 { chip, rx_boost: false, seed: 0, op: Op126::CalImg { hz: f } }, "sx126x/calimg");
                    f += 100_000;
                }
            }
            // datasheet 15.3 workaround after RxDone in single mode, random prior event register
            for _ in 0..(64 * priors) {
                eval126(st, Case126 { chip, rx_boost: false, seed: rng.next_u64(), op: Op126::RxDoneSingle { symbols: rng.below(300) as u16 } }, "sx126x/rxdone-15.3");
            }
            // init composite
            for legacy in [0x34u8, 0x12, 0x00, 0xFF, rng.below(256) as u8] {
                for dcdc in [false, true] {
                    for tcxo in [None::<u8>] {
                        for retention_count in 0..=4u8 {
                            eval126(st, Case126 { chip, rx_boost: false, seed: rng.next_u64(), op: Op126::Init { legacy_sync: legacy, dcdc, tcxo, retention_count } }, "sx126x/init");
                        }
                    }
                }
            }
        }));
        // packet parameters: header x CRC x IQ x preamble x every payload length
        for (pi, part) in [(false, false), (false, true), (true, false), (true, true)].into_iter().enumerate() {
            u.push(unit(format!("{n}/pkt/{pi}"), move |st, env| {
                let (implicit, crc) = part;
                let mut rng = SplitMix::new(env.seed ^ fnv64(n.as_bytes()) ^ pi as u64);
                let mut pre: Vec<u16> = PREAMBLES.to_vec();
                for _ in 0..(if env.thorough { 56 } else { 8 }) {
                    pre.push(rng.below(65536) as u16);
                }
                for iq in [false, true] {
                    for preamble in &pre {
                        for len in 0..=255u8 {
                            eval126(st, Case126 { chip, rx_boost: rng.below(2) == 1, seed: rng.next_u64(), op: Op126::Pkt { preamble: *preamble, implicit, len, crc, iq } }, "sx126x/pkt");
                        }
                    }
                }
            }));
        }
        // buffer base addresses: all 65536 pairs
        for part in 0..4u32 {
            u.push(unit(format!("{n}/bufbase/{part}"), move |st, _env| {
                for tx in 0..=255u32 {
                    if tx % 4 != part {
                        continue;
                    }
                    for rx in 0..=255u8 {
                        eval126(st, Case126 { chip, rx_boost: false, seed: 0, op: Op126::BufBase { tx: tx as u8, rx } }, "sx126x/bufbase");
                    }
                }
            }));
        }
        // symbol-count RX timeout: every u16 value, both gain settings
        for part in 0..8u32 {
            u.push(unit(format!("{n}/rx-single/{part}"), move |st, _env| {
                for rx_boost in [false, true] {
                    for nsym in 0..=65535u32 {
                        if nsym % 8 == part {
                            eval126(st, Case126 { chip, rx_boost, seed: 0, op: Op126::Rx { kind: RxKind::Single(nsym as u16) } }, "sx126x/rx-single");
                        }
                    }
                }
            }));
        }
    }
    // ------------------------------------------------------------ SX127x
    for chip in CHIPS127 {
        let n = chip.name();
        let lo_limit = if chip == Chip127::Sx1272 { 860_000_000 } else { 0 };
        for part in 0..8u32 {
            u.push(unit(format!("{n}/freq/{part}"), move |st, env| {
                for (i, hz) in freq_list(env, lo_limit).into_iter().enumerate() {
                    if i as u32 % 8 == part {
                        eval127(st, env, Case127 { chip, tx_boost: false, rx_boost: false, seed: i as u64, sc: Sc127::Freq { hz } }, "sx127x/freq");
                    }
                }
            }));
        }
        u.push(unit(format!("{n}/discrete"), move |st, env| {
            let priors: u64 = if env.thorough { 24 } else { 5 };
            let mut rng = SplitMix::new(env.seed ^ fnv64(n.as_bytes()));
            let sfs: Vec<u8> = (6..=12).collect();
            let bws: Vec<u32> = BWS.iter().map(|b| b.hz()).filter(|b| chip.supports_bw(*b)).collect();
            for seed in 0..priors * 4 {
                eval127(st, env, Case127 { chip, tx_boost: false, rx_boost: false, seed, sc: Sc127::Standby }, "sx127x/standby");
                eval127(st, env, Case127 { chip, tx_boost: false, rx_boost: false, seed, sc: Sc127::Sleep }, "sx127x/sleep");
                for rx_boost in [false, true] {
                    eval127(st, env, Case127 { chip, tx_boost: false, rx_boost, seed, sc: Sc127::CadFlow }, "sx127x/cad-flow");
                }
                for mode in ["none", "sleep", "standby", "fs", "listen"] {
                    eval127(st, env, Case127 { chip, tx_boost: false, rx_boost: false, seed, sc: Sc127::IrqIdle { mode: mode.into() } }, "sx127x/irq-idle");
                }
            }
            // modulation parameters: SF x BW x CR x LDRO x errata-2.1 arming x band, random priors
            let bands: Vec<u32> = match chip {
                Chip127::Sx1276 => vec![868_100_000, 915_000_000, 433_175_000, 490_000_000, 169_400_000],
                Chip127::Sx1272 => vec![868_100_000, 915_000_000],
            };
            for sf in &sfs {
                for bw in &bws {
                    for cr in 5..=8u8 {
                        for ldro in 0..=1u8 {
                            for hz in &bands {
                                if *hz < 400_000_000 && *bw >= 250_000 {
                                    continue; // not a legal combination (refused by create_modulation_params)
                                }
                                for armed in [false, true] {
                                    for _ in 0..priors {
                                        let mp = Mp { sf: *sf, bw_hz: *bw, cr, ldro, hz: *hz };
                                        eval127(st, env, Case127 { chip, tx_boost: rng.below(2) == 1, rx_boost: rng.below(2) == 1, seed: rng.next_u64(), sc: Sc127::Mod { mp, armed } }, "sx127x/mod");
                                    }
                                }
                            }
                        }
                    }
                }
            }
            // sync words: all 256 legacy bytes; every 16-bit word without a single-byte form is refused
            for legacy in 0..=255u8 {
                eval127(st, env, Case127 { chip, tx_boost: false, rx_boost: false, seed: rng.next_u64(), sc: Sc127::Sync { legacy } }, "sx127x/sync");
            }
            for word in 0..=65535u32 {
                let w = word as u16;
                if w & 0x0F0F != 0x0404 {
                    eval127(st, env, Case127 { chip, tx_boost: false, rx_boost: false, seed: 1, sc: Sc127::SyncRefuse { word: w } }, "sx127x/sync-refuse");
                }
            }
            // FIFO base addresses
            for tx in (0..=255u32).step_by(if env.thorough { 1 } else { 5 }) {
                for rx in 0..=255u8 {
                    eval127(st, env, Case127 { chip, tx_boost: false, rx_boost: false, seed: tx as u64, sc: Sc127::BufBase { tx: tx as u8, rx } }, "sx127x/bufbase");
                }
            }
            // PA configuration / TX power: every power, both outputs, both ramp classes
            for tx_boost in [false, true] {
                for dbm in -20..=30i32 {
                    for tx_prep in [false, true] {
                        for _ in 0..priors * 2 {
                            eval127(st, env, Case127 { chip, tx_boost, rx_boost: false, seed: rng.next_u64(), sc: Sc127::TxPower { dbm, tx_prep } }, "sx127x/txpower");
                        }
                    }
                }
            }
        }));
        // packet parameters + FIFO writes of every length
        for (pi, part) in [(false, false), (false, true), (true, false), (true, true)].into_iter().enumerate() {
            u.push(unit(format!("{n}/pkt/{pi}"), move |st, env| {
                let (implicit, crc) = part;
                let mut rng = SplitMix::new(env.seed ^ fnv64(n.as_bytes()) ^ (pi as u64) << 8);
                let mut pre: Vec<u16> = PREAMBLES.to_vec();
                for _ in 0..(if env.thorough { 24 } else { 4 }) {
                    pre.push(rng.below(65536) as u16);
                }
                for iq in [false, true] {
                    for preamble in &pre {
                        for len in 0..=255u8 {
                            let pp = Pp { preamble: *preamble, implicit, len, crc, iq };
                            eval127(st, env, Case127 { chip, tx_boost: rng.below(2) == 1, rx_boost: rng.below(2) == 1, seed: rng.next_u64(), sc: Sc127::Pkt { pp: pp.clone() } }, "sx127x/pkt");
                            if *preamble == 8 || env.thorough {
                                eval127(st, env, Case127 { chip, tx_boost: false, rx_boost: false, seed: rng.next_u64(), sc: Sc127::Payload { pp } }, "sx127x/payload");
                            }
                        }
                    }
                }
            }));
        }
        // TX and RX start flows
        for part in 0..4u32 {
            u.push(unit(format!("{n}/flows/{part}"), move |st, env| {
                let mut rng = SplitMix::new(env.seed ^ fnv64(n.as_bytes()) ^ 0xF10 ^ part as u64);
                let bws: Vec<u32> = BWS.iter().map(|b| b.hz()).filter(|b| chip.supports_bw(*b)).collect();
                let freqs: Vec<u32> = match chip {
                    Chip127::Sx1276 => vec![868_500_000, 923_200_000, 433_000_000, 505_000_000, 169_000_000],
                    Chip127::Sx1272 => vec![868_500_000, 923_200_000],
                };
                let mut k = 0u32;
                for sf in 6..=12u8 {
                    for bw in &bws {
                        for hz in &freqs {
                            if (*hz < 400_000_000 && *bw >= 250_000) || !chip.in_band(*hz) {
                                continue;
                            }
                            for iq in [false, true] {
                                for implicit in [false, true] {
                                    if sf == 6 && !implicit {
                                        continue; // SF6 requires implicit header (datasheet)
                                    }
                                    k += 1;
                                    if k % 4 != part {
                                        continue;
                                    }
                                    let crc = rng.bool();
                                    let cr = 5 + rng.below(4) as u8;
                                    let ldro = rng.below(2) as u8;
                                    let mp = Mp { sf, bw_hz: *bw, cr, ldro, hz: *hz };
                                    let lens: Vec<u8> = if env.thorough { vec![0, 1, 13, 64, 255, rng.below(256) as u8] } else { vec![0, 17, 255] };
                                    for len in lens {
                                        let pp = Pp { preamble: *rng.pick(&[6u16, 8, 12, 300]), implicit, len, crc, iq };
                                        let legacy = rng.below(256) as u8;
                                        eval127(st, env, Case127 { chip, tx_boost: rng.below(2) == 1, rx_boost: rng.below(2) == 1, seed: rng.next_u64(), sc: Sc127::TxFlow { mp: mp.clone(), pp: pp.clone(), legacy } }, "sx127x/tx-flow");
                                        for rx_boost in [false, true] {
                                            for symbols in [None, Some(0u16), Some(4), Some(5 + rng.below(1019) as u16)] {
                                                eval127(st, env, Case127 { chip, tx_boost: false, rx_boost, seed: rng.next_u64(), sc: Sc127::RxFlow { mp: mp.clone(), pp: pp.clone(), legacy, symbols } }, "sx127x/rx-flow");
                                            }
                                        }
                                    }
                                }
                            }
                        }
                    }
                }
            }));
        }
        // symbol-count RX timeout: every value 0..=1023 and the clamp above (through the RX flow)
        u.push(unit(format!("{n}/rx-timeout"), move |st, env| {
            let mut rng = SplitMix::new(env.seed ^ fnv64(n.as_bytes()) ^ 0x7133);
            let mp = Mp { sf: 9, bw_hz: 125_000, cr: 5, ldro: 0, hz: 868_300_000 };
            let pp = Pp { preamble: 8, implicit: false, len: 255, crc: true, iq: true };
            let mut vals: Vec<u16> = (0..=1023).collect();
            vals.extend([1024u16, 1025, 2047, 2048, 4096, 32768, 65535]);
            for _ in 0..64 {
                vals.push(1024 + rng.below(64512) as u16);
            }
            for nsym in vals {
                eval127(st, env, Case127 { chip, tx_boost: false, rx_boost: true, seed: rng.next_u64(), sc: Sc127::RxFlow { mp: mp.clone(), pp: pp.clone(), legacy: 0x34, symbols: Some(nsym) } }, "sx127x/rx-timeout");
            }
        }));
    }
    u
}

pub fn replay(case: &Value, kf: &KnownFindings) -> Result<(), Failure> {
    match case["family"].as_str() {
        Some("sx126x") => {
            let c = Case126::from_json(case).ok_or_else(|| Failure::new("bad-replay", case.clone(), "cannot parse sx126x case"))?;
            check126(&c).map(|_| ())
        }
        Some("sx127x") => {
            let c = Case127::from_json(case).ok_or_else(|| Failure::new("bad-replay", case.clone(), "cannot parse sx127x case"))?;
            match check127(&c) {
                Ok(_) => Ok(()),
                Err(f) => match tolerated127(kf, &c, &f) {
                    Some(_) => Ok(()),
                    None => Err(f),
                },
            }
        }
        Some("sx126x-history") | Some("sx127x-history") => super::c13_hist::replay(case, kf),
        _ => Err(Failure::new("bad-replay", case.clone(), "unknown family")),
    }
}

pub fn run(ctx: &mut Ctx) {
    ctx.level = "exploration".into();
    // the discrete grids are enumerated completely, the numeric domains (frequency, preamble,
    // prior register contents) are swept densely but not completely
    ctx.exhaustive = false;
    let env = Env { thorough: ctx.tier == Tier::Thorough, seed: ctx.seed, kf: ctx.kf.clone() };
    let mut us = units();
    // history stage: operations on driver instances that have already been used (c13_hist.rs)
    us.extend(super::c13_hist::hist_units());
    // development aid: VERIF_C13_UNITS=<substring> runs only the work units whose name contains it
    if let Ok(f) = std::env::var("VERIF_C13_UNITS") {
        us.retain(|u| u.name.contains(&f));
    }
    // samples: a few of the grid's cases, one per operation family (they are evaluated again by
    // the grid below; not counted twice)
    for c in [
        Case126 { chip: Chip126::Sx1262, rx_boost: false, seed: 7, op: Op126::Mod { sf: 11, bw_hz: 41_670, cr: 7, ldro: 1, hz: 868_100_000 } },
        Case126 { chip: Chip126::Stm32wlHp, rx_boost: false, seed: 9, op: Op126::Pa { dbm: 13, tx_prep: true, freq: Some(868_100_000) } },
        Case126 { chip: Chip126::Sx1261, rx_boost: true, seed: 0, op: Op126::Rx { kind: RxKind::Single(300) } },
    ] {
        if check126(&c).is_ok() {
            ctx.stats.sample(c.to_json());
        }
    }
    for c in [
        Case127 { chip: Chip127::Sx1276, tx_boost: true, rx_boost: false, seed: 11, sc: Sc127::TxPower { dbm: 19, tx_prep: true } },
        Case127 { chip: Chip127::Sx1272, tx_boost: false, rx_boost: true, seed: 5, sc: Sc127::RxFlow { mp: Mp { sf: 10, bw_hz: 250_000, cr: 6, ldro: 0, hz: 868_500_000 }, pp: Pp { preamble: 8, implicit: false, len: 17, crc: true, iq: true }, legacy: 0x34, symbols: Some(400) } },
        Case127 { chip: Chip127::Sx1276, tx_boost: false, rx_boost: false, seed: 2, sc: Sc127::Mod { mp: Mp { sf: 9, bw_hz: 500_000, cr: 5, ldro: 0, hz: 915_000_000 }, armed: true } },
    ] {
        if check127(&c).is_ok() {
            ctx.stats.sample(c.to_json());
        }
    }
    {
        let (h6, h7) = super::c13_hist::sample_histories();
        if super::c13_hist::check_hist126(&h6).is_ok() {
            ctx.stats.sample(h6.to_json());
        }
        if super::c13_hist::check_hist127(&h7, &ctx.kf).is_ok() {
            ctx.stats.sample(h7.to_json());
        }
    }
    ctx.parallel(|ti, n, st| {
        for (i, u) in us.iter().enumerate() {
            if i % n == ti {
                (u.run)(st, &env);
            }
        }
    });
    ctx.extra.insert("work_units".into(), json!(us.iter().map(|u| u.name.clone()).collect::<Vec<_>>().len()));
    ctx.rule = "One evaluation = one (chip variant, operation or start flow, parameter tuple, prior-register seed) executed on lora-phy and on SWL2001 (smtc-modem-cores) with identical chip-side state, then compared: sx126x by exact MOSI byte stream per SPI transaction (written bytes + 0x00 for every byte read; for sync word / init only the state-changing transactions, reference read primed with the reset value); sx127x by executing both streams on a register-file model and comparing final registers 0x01-0x7F, FIFO writes, operating-mode sequence, under the allow-list in `allow_list`. CREATOR ROUTE: the modulation- and packet-parameter objects handed to the driver are obtained through RadioKind::create_modulation_params / create_packet_params (the route every user of the LoRa layer takes; packet parameters under a spreading factor SF5..SF12 taken from the case seed, in flows under the flow's own) whenever the request is inside the legal domain of the creator (LDRO as the creator derives it; SX126x SF5/SF6 with at least 12 preamble symbols; SX127x requests the creator does not refuse); a forced LDRO setting and the refused / adjusted requests keep the literal object. Grids: SX1261/SX1262/STM32WL-HP/STM32WL-LP: every 100 Hz channel of 433.05-434.79/863-870/902-928 MHz + a stride over 137-1020 MHz + 1 Hz windows; all SF x BW x CR x LDRO; header x CRC x IQ x preambles {0,1,6,8,12,255,256,65535,random} x payload 0..255; 256 sync words; 65536 buffer base pairs; buffer writes 0..255 bytes; power -20..30 dBm x ramp class x frequency side of 400 MHz; IRQ masks for 10 radio modes; RX symbol timeout 0..65535 x gain; continuous / duty-cycle (24-bit periods) RX start; TX start; CAD SF5-12; image calibration bands; 15.3 RxDone workaround; init composite (DC-DC, DIO2, packet type, sync word, buffer base, retention list 0..4 entries). SX1276/SX1272: frequencies as above; SF6-12 x BW x CR x LDRO x errata-2.1 arming x band; packet params x payload writes 0..255; 256 sync words + every 16-bit word without single-byte form (refusal with zero traffic); FIFO bases; power -20..30 x RFO/PA_BOOST x ramp; idle IRQ masks; TX/RX/CAD start flows; RX symbol timeout 0..1023 and clamp above. Non-trivial (distinct by construction): parameter tuple / variant / prior state not pinned by the in-tree comparison tests. HISTORY STAGE (classes hist/*; one evaluation = one history executed on ONE lora-phy driver instance and ONE reference context, each on its own double, every step compared like a single operation: sx126x wire-canonical transactions of the step, sx127x chip-visible outcome of the step on register files that hold identical contents before every step; the first differing step is the failure and the saved case is the history up to it): steps are the operations above plus chip reset (NRESET through RadioKind::reset and an InterfaceVariant double that puts the double's registers back to their reset values - SX1276/SX1272 datasheet reset tables, FSK standby - while the reference gets a chip reset, a fresh driver context, LoRa packet type and standby), sleep warm/cold + wake-up + standby (SX126x cold start loses the register contents), init_lora; a reset or cold-start sleep is followed by the cold-start sequence lora-phy's LoRa layer always issues (wake, standby, init_lora, default TX power, idle IRQ set-up). Generated: (a) for every entry of a thinned grid (every operation kind x 1-40 parameter tuples, `pool126`/`pool127`), every prefix word of length 1..2 (quick) / 1..3 (thorough) over {same operation same parameters, same operation other parameters, chip reset, cold sleep+wake, warm sleep+wake}, all chip variants, both gain / PA / regulator configurations; (b) every ordered pair of grid entries directly after one another, with a chip reset and with a cold-start sleep in between; (c) random histories of 2..8 (quick) / 2..16 (thorough) raw steps (proptest, shrinking: repeat an earlier step exactly, repeat its kind with other parameters, reset, sleep+wake, grid entry, dense random frequency / modulation). Every history is non-trivial (no in-tree test compares a second call on a used driver), distinct histories counted by hash.".into();
    ctx.assumptions = vec![
        "allow-listed documented deviation: SX1276 errata 2.3 (AutomaticIFOn/RegIfFreq/RX frequency offset) is not applied by lora-phy for bandwidths below 62.5 kHz (documented in sx1276.rs); only those errata registers may differ in such cases, counted under excluded_known".into(),
        "MOSI idles at 0x00 (Semtech NOP) while the host reads: a trailing NOP write and a read byte are the same wire byte".into(),
        "the reference takes board data as inputs, which are therefore oracles from the datasheet: PA operating points (DS.SX1261-2 Table 13-21 rows, 1 dB per SetTxParams step below a row target, STM32WL high-power 14 dBm row per STM32CubeWL), image calibration bytes (Table 9-2), CAD parameters (detPeak = SF+13, detMin = 10, CAD_ONLY), ramp classes 40 us for TX preparation / 200 us (sx126x) and 250 us (sx127x) otherwise; IRQ masks are taken from the driver's command and constrained independently (completion IRQs of the armed operation enabled and routed to DIO1, DIO2/DIO3 masks 0)".into(),
        "LDRO is an input on both sides (C15 owns its computation); sync words are compared for the 256 legacy values 0xYZ <-> 0xY4Z4".into(),
        "sx126x symbol timeouts above 255 (reference API is u8) are expected to behave like 255 (the chip maximum of 248 symbols); sx127x symbol timeouts are expected clamped to the 10-bit field and its minimum 4; powers outside the output's range are expected clamped to the range".into(),
        "sx127x prior register contents are random except cells where one driver normalises a field to its reset value instead of preserving it: RegDioMapping1/2 = 0x00 (reference keeps a shadow copy), RegInvertIQ reserved bits = 0x13, AgcAutoOn = 0, RegPaRamp upper bits and RegPaDac reserved bits at reset value, RegMaxPayloadLength = 0xFF, RegVersion = silicon value, RegOpMode = LoRa sleep/standby; RegOpMode[6:3] (register-page selectors) are not compared".into(),
        "sx127x allow-list (each value checked): errata 2.1 / 2.3 registers written with the modulation parameters instead of at SetRx (RX-only registers), RegInvertIQ/2 written with the packet parameters, RegLna G1 (+boost), RegOcp 100/240 mA, RegDioMapping1 DIO3 = ValidHeader in RX and DIO0 = none when idle, IRQ flag clears (0xFF), chip-ignored fields (MaxPower with PA_BOOST, RX-path IQ bit in TX and vice versa, payload-length registers the active header mode does not use, symbol timeout in continuous RX)".into(),
        "not compared (no sound alignment): sx127x image calibration (lora-phy relies on the automatic calibration and issues no traffic), TCXO set-up (no shared API; not in the property's operation list), continuous-wave TX, reads of received data/status (get_rx_payload, packet status, RSSI)".into(),
        "history stage: before every step of an sx127x history the reference's chip is made to hold exactly what lora-phy's chip holds (the statement compares 'given the same register state'; after a judged step only allow-listed cells can differ); lora-phy's errata-2.1 flag (set by init_lora on silicon 0x12, never cleared) and the DIO3 = ValidHeader mapping that lora-phy's read-modify-write keeps after a reception set-up (the reference rewrites RegDioMapping1 from its shadow) are tracked as history context of the allow-list; a skipped register write is visible on sx127x only through a differing register file, i.e. after a chip reset, or through the FIFO / operating-mode sequences; on sx126x every skipped or added transaction is a difference".into(),
        "history stage, reference side: after a chip reset the reference context is re-created (sx127x_t zeroed as at power-up) and brought to LoRa standby with set_pkt_type + set_standby; sx127x_init is not used (it writes GFSK-page defaults that lora-phy has no counterpart for); sleep steps always pass through standby (the reference writes RegOpMode without the LoRa bit, which only a sleep-to-sleep write would latch)".into(),
        "frequency domain: the chips' tuning range 137-1020 MHz (SX1272: 860-1020 MHz); start flows only on the parts' specified bands".into(),
    ];
    ctx.extra.insert("sx126x_documented_deviations".into(), json!([
        "15.1 TxModulation / 15.4 IQPolarity read-modify-writes: performed by the reference inside set_lora_mod_params / set_lora_pkt_params, compared byte for byte with random prior register values",
        "15.2 TxClampCfg: reference cfg_tx_clamp, compared byte for byte",
        "15.3 RTC stop after RxDone in single mode: reference sx126x_stop_rtc, compared byte for byte",
        "retention list (RxGain, TxModulation): reference add_registers_to_retention_list, compared on written transactions"
    ]));
}
