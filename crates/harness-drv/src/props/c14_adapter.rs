//! C14 through the LoRaWAN radio adapter (`LorawanRadio`: tx, setup_rx, rx_single, rx_continuous,
//! low_power) - the call patterns the MAC produces, including cold sleep between windows and the
//! dropped `rx_continuous` of Class C. The driver's belief is private here, so the chip-side
//! monitors (I2, I3), the results and the chip mode after failed/timed-out operations are judged.

use super::c14::{panic_fp, Board, Env, Ev, BOARDS, CHANNELS};
use crate::chip126x::{Board126, Chip126x, Viol};
use crate::chip127x::Chip127x;
use crate::doubles::poll_once;
use crate::world::{Chip, Shared, WDelay, WIv, WSpi, World};
use core::task::Poll;
use lora_modulation::BaseBandModulationParams;
use lora_phy::lorawan_radio::LorawanRadio;
use lora_phy::mod_params::CodingRate;
use lora_phy::mod_traits::RadioKind;
use lora_phy::sx126x::{self, Sx1261, Sx1262, Sx126x, TcxoCtrlVoltage};
use lora_phy::sx127x::{self, Sx1272, Sx1276, Sx127x};
use lora_phy::LoRa;
use lorawan_device::async_device::radio::{PhyRxTx, RfConfig, RxConfig, RxMode as MacRxMode, RxStatus, TxConfig};
use serde_json::{json, Value};
use verif_core::*;

#[derive(Clone, Debug, PartialEq)]
pub enum AOp {
    Tx { ch: u8, len: u8, irq: Vec<Ev> },
    SetupRx { single_ms: Option<u32>, ch: u8 },
    RxSingle { irq: Vec<Ev> },
    RxContinuous { irq: Vec<Ev> },
    LowPower,
}

impl AOp {
    pub fn name(&self) -> &'static str {
        match self {
            AOp::Tx { .. } => "tx",
            AOp::SetupRx { .. } => "setup_rx",
            AOp::RxSingle { .. } => "rx_single",
            AOp::RxContinuous { .. } => "rx_continuous",
            AOp::LowPower => "low_power",
        }
    }
    fn irq(&self) -> &[Ev] {
        match self {
            AOp::Tx { irq, .. } | AOp::RxSingle { irq } | AOp::RxContinuous { irq } => irq,
            _ => &[],
        }
    }
    pub fn to_json(&self) -> Value {
        let irq = |v: &Vec<Ev>| v.iter().map(|e| e.name()).collect::<Vec<_>>();
        match self {
            AOp::Tx { ch, len, irq: i } => json!({"op":"tx","ch":ch,"len":len,"irq":irq(i)}),
            AOp::SetupRx { single_ms, ch } => json!({"op":"setup_rx","single_ms":single_ms,"ch":ch}),
            AOp::RxSingle { irq: i } => json!({"op":"rx_single","irq":irq(i)}),
            AOp::RxContinuous { irq: i } => json!({"op":"rx_continuous","irq":irq(i)}),
            AOp::LowPower => json!({"op":"low_power"}),
        }
    }
    pub fn from_json(v: &Value) -> Option<AOp> {
        let irq = || -> Option<Vec<Ev>> { v["irq"].as_array()?.iter().map(|e| Ev::from_name(e.as_str()?)).collect() };
        Some(match v["op"].as_str()? {
            "tx" => AOp::Tx { ch: v["ch"].as_u64()? as u8, len: v["len"].as_u64()? as u8, irq: irq()? },
            "setup_rx" => AOp::SetupRx { single_ms: v["single_ms"].as_u64().map(|x| x as u32), ch: v["ch"].as_u64()? as u8 },
            "rx_single" => AOp::RxSingle { irq: irq()? },
            "rx_continuous" => AOp::RxContinuous { irq: irq()? },
            "low_power" => AOp::LowPower,
            _ => return None,
        })
    }
}

#[derive(Clone, Debug)]
pub struct ACase {
    pub board: Board,
    pub ops: Vec<AOp>,
    pub fault_at: Option<u32>,
}

impl ACase {
    pub fn to_json(&self) -> Value {
        json!({"engine":"lorawan-adapter","board":self.board.name(),"ops":self.ops.iter().map(|o| o.to_json()).collect::<Vec<_>>(),"fault_at":self.fault_at})
    }
    pub fn from_json(v: &Value) -> Option<ACase> {
        Some(ACase { board: Board::from_name(v["board"].as_str()?)?, ops: v["ops"].as_array()?.iter().map(AOp::from_json).collect::<Option<Vec<_>>>()?, fault_at: v["fault_at"].as_u64().map(|x| x as u32) })
    }
}

#[derive(Clone, Copy, Debug, PartialEq, Eq)]
enum P {
    Unknown,
    Standby,
    Sleep,
    RxSingle,
    RxContinuous,
}

#[derive(Debug, PartialEq)]
enum R {
    Ok,
    Rx(Vec<u8>),
    RxTimeout,
    Err(String),
    Pending,
    Panic(String),
}

pub struct AOut {
    pub failure: Option<Failure>,
    pub interactions: u32,
    pub nontrivial: bool,
    pub classes: Vec<&'static str>,
}

fn payload_tx(i: usize, len: u8) -> Vec<u8> {
    (0..len).map(|j| 0x60u8.wrapping_add(j) ^ (i as u8).wrapping_mul(7)).collect()
}
fn payload_rx(i: usize) -> Vec<u8> {
    vec![0x60, 0x01, 0x02, 0x03, 0x04, i as u8, 0xFE]
}

fn rf(ch: u8) -> RfConfig {
    let (hz, sf, bw) = CHANNELS[ch as usize % 4];
    RfConfig { frequency: hz, bb: BaseBandModulationParams::new(sf, bw, CodingRate::_4_5), max_payload_len: 255 }
}

fn make_world(board: Board) -> Shared {
    match board {
        Board::Sx1261 | Board::Sx1262 => World::new(Chip::C126(Chip126x::new(Board126 { dcdc: false, tcxo: false }))),
        Board::Sx1262DcdcTcxo => World::new(Chip::C126(Chip126x::new(Board126 { dcdc: true, tcxo: true }))),
        Board::Sx1276 => World::new(Chip::C127(Chip127x::new(true))),
        Board::Sx1272 => World::new(Chip::C127(Chip127x::new(false))),
    }
}

pub fn run_acase(case: &ACase) -> AOut {
    let world = make_world(case.board);
    world.borrow_mut().fault_at = case.fault_at;
    let (s, i) = (WSpi(world.clone()), WIv(world.clone()));
    match case.board {
        Board::Sx1261 => interp(Sx126x::new(s, i, sx126x::Config { chip: Sx1261, tcxo_ctrl: None, use_dcdc: false, rx_boost: false }), world, case),
        Board::Sx1262 => interp(Sx126x::new(s, i, sx126x::Config { chip: Sx1262, tcxo_ctrl: None, use_dcdc: false, rx_boost: true }), world, case),
        Board::Sx1262DcdcTcxo => interp(Sx126x::new(s, i, sx126x::Config { chip: Sx1262, tcxo_ctrl: Some(TcxoCtrlVoltage::Ctrl1V7), use_dcdc: true, rx_boost: false }), world, case),
        Board::Sx1276 => interp(Sx127x::new(s, i, sx127x::Config { chip: Sx1276, tcxo_used: false, tx_boost: true, rx_boost: false }), world, case),
        Board::Sx1272 => interp(Sx127x::new(s, i, sx127x::Config { chip: Sx1272, tcxo_used: true, tx_boost: false, rx_boost: true }), world, case),
    }
}

fn interp<RK: RadioKind>(rk: RK, world: Shared, case: &ACase) -> AOut {
    let mut out = AOut { failure: None, interactions: 0, nontrivial: false, classes: vec![] };
    let cj = case.to_json();
    world.borrow_mut().cur_op = "new".into();
    let built = catch(move || poll_once(LoRa::new(rk, true, WDelay)));
    let lora = match built {
        Ok(Poll::Ready(Ok(l))) => l,
        Ok(Poll::Ready(Err(e))) => {
            if world.borrow().fault_hit.is_none() {
                out.failure = Some(Failure::new("clean-result", cj, format!("LoRa::new failed with {e:?}")).with_fp(format!("unexpected-error/new/{e:?}")));
            }
            return out;
        }
        Ok(Poll::Pending) => return out,
        Err(p) => {
            out.failure = Some(Failure::new("I4", cj, format!("LoRa::new panicked: {p}")).with_fp(format!("i4/{}", panic_fp(&p))));
            return out;
        }
    };
    let mut radio: LorawanRadio<RK, WDelay, 14> = lora.into();
    let mut proto = P::Standby;
    let mut have_rx_params = false;
    let mut exp_freq: Option<u32>;
    let mut loss = false;
    let world2 = world.clone();
    let fail = |step: usize, rule: &str, fp: String, detail: String| {
        let mut cj = case.to_json();
        cj["failing_step"] = json!(step);
        let w = world2.borrow();
        match &w.fault_info {
            // the fault-free tx after an injected fault is judged
            Some((during, kind, first)) if w.fault_at.is_none() => {
                cj["fault"] = json!({"during": during, "kind": kind, "spi_first_byte": first});
                Failure::new(rule, cj, format!("after the injected fault ({}): {detail}", w.fault_hit.clone().unwrap_or_default())).with_fp(fp.replacen("adapter/", "adapter/after-fault/", 1))
            }
            _ => Failure::new(rule, cj, detail).with_fp(fp),
        }
    };
    let mut ops: Vec<AOp> = case.ops.clone();
    let mut recovering = false;
    let mut idx = 0usize;
    while idx < ops.len() {
        let op = ops[idx].clone();
        let op = &op;
        idx += 1;
        let idx = idx - 1;
        let name = op.name();
        {
            let mut w = world.borrow_mut();
            w.cur_op = name.to_string();
            w.op_inter = 0;
            w.blocked = false;
            w.terminal_in_op = None;
            w.script = op.irq().iter().map(|e| e.name().to_string()).collect();
            w.rx_payload = payload_rx(idx);
        }
        let (tx_before, rx_before) = (world.borrow().chip.tx_count(), world.borrow().chip.rx_starts());
        let fault_before = world.borrow().fault_hit.is_some();
        let r = {
            let radio = &mut radio;
            catch(move || -> R {
                match op {
                    AOp::Tx { ch, len, .. } => match poll_once(radio.tx(TxConfig { pw: 14, rf: rf(*ch) }, &payload_tx(idx, *len))) {
                        Poll::Pending => R::Pending,
                        Poll::Ready(Ok(_)) => R::Ok,
                        Poll::Ready(Err(e)) => R::Err(format!("{e:?}")),
                    },
                    AOp::SetupRx { single_ms, ch } => {
                        let mode = match single_ms {
                            Some(ms) => MacRxMode::Single { ms: *ms },
                            None => MacRxMode::Continuous,
                        };
                        match poll_once(radio.setup_rx(RxConfig { rf: rf(*ch), mode })) {
                            Poll::Pending => R::Pending,
                            Poll::Ready(Ok(())) => R::Ok,
                            Poll::Ready(Err(e)) => R::Err(format!("{e:?}")),
                        }
                    }
                    AOp::RxSingle { .. } => {
                        let mut buf = [0u8; 255];
                        match poll_once(radio.rx_single(&mut buf)) {
                            Poll::Pending => R::Pending,
                            Poll::Ready(Ok(RxStatus::Rx(n, _))) => R::Rx(buf[..n].to_vec()),
                            Poll::Ready(Ok(RxStatus::RxTimeout)) => R::RxTimeout,
                            Poll::Ready(Err(e)) => R::Err(format!("{e:?}")),
                        }
                    }
                    AOp::RxContinuous { .. } => {
                        let mut buf = [0u8; 255];
                        match poll_once(radio.rx_continuous(&mut buf)) {
                            Poll::Pending => R::Pending,
                            Poll::Ready(Ok((n, _))) => R::Rx(buf[..n].to_vec()),
                            Poll::Ready(Err(e)) => R::Err(format!("{e:?}")),
                        }
                    }
                    AOp::LowPower => match poll_once(radio.low_power()) {
                        Poll::Pending => R::Pending,
                        Poll::Ready(Ok(())) => R::Ok,
                        Poll::Ready(Err(e)) => R::Err(format!("{e:?}")),
                    },
                }
            })
        };
        let r = match r {
            Ok(v) => v,
            Err(p) => R::Panic(p),
        };
        let op_inter = world.borrow().op_inter;
        if let R::Panic(p) = &r {
            out.failure = Some(fail(idx, "I4", format!("i4/{}", panic_fp(p)), format!("{name} panicked: {p}")));
            break;
        }
        let viols: Vec<Viol> = std::mem::take(world.borrow_mut().chip.viols());
        if let Some(v) = viols.first() {
            out.failure = Some(fail(idx, v.rule, format!("adapter/{}", v.fp), v.detail.clone()));
            break;
        }
        let fault_here = !fault_before && world.borrow().fault_hit.is_some();
        if fault_here {
            if !matches!(r, R::Err(_)) {
                out.failure = Some(fail(idx, "fault-not-swallowed", format!("adapter/fault-swallowed/{name}"), format!("{} failed but {name} returned {r:?}", world.borrow().fault_hit.clone().unwrap_or_default())));
                break;
            }
            // the next fault-free transmission must work (I2, I3, success)
            world.borrow_mut().fault_at = None;
            ops.truncate(idx + 1);
            ops.push(AOp::Tx { ch: 1, len: 5, irq: vec![Ev::Done] });
            recovering = true;
            proto = P::Unknown;
            loss = true;
            out.classes.push("fault-recovery");
            continue;
        }
        let chip_standby = world.borrow().chip.standby();
        let chip_asleep = world.borrow().chip.plainly_asleep();
        let chip_rx = world.borrow().chip.receiving();
        let chip_mode = world.borrow().chip.mode_name();
        // wrong-mode / missing setup: refused without traffic
        let needs_rx = matches!(op, AOp::RxSingle { .. } | AOp::RxContinuous { .. });
        if needs_rx && proto != P::Unknown && !(have_rx_params && matches!(proto, P::RxSingle | P::RxContinuous)) {
            out.classes.push("wrong-mode-call");
            match &r {
                R::Err(_) if op_inter == 0 => continue,
                other => {
                    out.failure = Some(fail(idx, "I1", format!("adapter/i1/{name}"), format!("{name} without a preceding setup_rx (state {proto:?}) returned {other:?} after {op_inter} bus/line interactions")));
                    break;
                }
            }
        }
        match (&r, op) {
            (R::Err(e), AOp::Tx { .. }) if recovering => {
                out.failure = Some(fail(idx, "clean-result", format!("adapter/unexpected-error/tx/{e}"), format!("tx returned {e} although the chip reported [Done]")));
                break;
            }
            (R::Pending, AOp::RxContinuous { .. }) if proto == P::RxContinuous => {
                // the MAC drops rx_continuous inside select: chip keeps receiving
                out.classes.push("cancelled-wait");
                loss = true;
                if !chip_rx {
                    out.failure = Some(fail(idx, "I5", format!("adapter/i5/{name}/reception-not-running"), format!("rx_continuous was dropped while waiting; chip is in {chip_mode}")));
                    break;
                }
            }
            (R::Pending, _) => {
                // blocked on the environment. If the chip has delivered a terminal outcome during this
                // call and no flag is pending any more, the driver cleared it without acting on it.
                let (term, pending) = (world.borrow().terminal_in_op.clone(), world.borrow().chip.irq_line());
                if let (Some(ev), false, false) = (term, pending, recovering) {
                    out.failure = Some(fail(idx, "I4", format!("adapter/i4/{name}/outcome-lost/{ev}"), format!("the chip reported {ev} (flags latched, interrupt line fired) but {name} cleared it and keeps waiting: the operation neither completed nor failed; chip is in {chip_mode}")));
                }
                break;
            }
            (R::Ok, AOp::Tx { ch, .. }) => {
                proto = P::Standby;
                exp_freq = Some(CHANNELS[*ch as usize % 4].0);
                let w = world.borrow();
                if w.chip.tx_count() != tx_before + 1 {
                    drop(w);
                    out.failure = Some(fail(idx, "clean-result", "adapter/tx/nothing-sent".into(), "tx returned Ok but the chip did not transmit".into()));
                    break;
                }
                let (payload, freq, sync_ok, lora_ok) = match &w.chip {
                    Chip::C126(c) => {
                        let t = c.tx_log.last().unwrap();
                        (t.payload.clone(), t.freq_raw, t.sync == [0x34, 0x44], true)
                    }
                    Chip::C127(c) => {
                        let t = c.tx_log.last().unwrap();
                        (t.payload.clone(), t.frf, t.sync == 0x34, t.lora)
                    }
                };
                drop(w);
                let hz = exp_freq.unwrap();
                let step = if case.board.is_126x() { ((hz as u64) << 25) / 32_000_000 } else { ((hz as u64) << 19) / 32_000_000 } as u32;
                if let AOp::Tx { len, .. } = op {
                    if payload != payload_tx(idx, *len) {
                        out.failure = Some(fail(idx, "I3", "adapter/i3/value/tx/payload".into(), format!("sent {} instead of {}", hex(&payload), hex(&payload_tx(idx, *len)))));
                        break;
                    }
                }
                if freq != step && freq != step + 1 {
                    out.failure = Some(fail(idx, "I3", "adapter/i3/value/tx/frequency".into(), format!("sent on PLL word {freq:#x}, requested {hz} Hz")));
                    break;
                }
                if !sync_ok || !lora_ok {
                    out.failure = Some(fail(idx, "I3", "adapter/i3/value/tx/sync-word".into(), "sent with a sync word other than the public LoRaWAN one / not in LoRa mode".into()));
                    break;
                }
                if !chip_standby && !recovering {
                    out.failure = Some(fail(idx, "I5", "adapter/i5/tx/chip-not-standby".into(), format!("after tx the chip is in {chip_mode}")));
                    break;
                }
                if loss {
                    out.nontrivial = true;
                }
            }
            (R::Err(e), AOp::Tx { irq, .. }) if irq.iter().any(|x| x.has_timeout()) => {
                out.classes.push("chip-outcome-error");
                loss = true;
                proto = P::Standby;
                if !chip_standby {
                    out.failure = Some(fail(idx, "I4", format!("adapter/i4/tx/chip-not-standby-after-{e}"), format!("tx failed with {e} and left the chip in {chip_mode}")));
                    break;
                }
            }
            (R::Ok, AOp::SetupRx { single_ms, .. }) => {
                have_rx_params = true;
                proto = if single_ms.is_some() { P::RxSingle } else { P::RxContinuous };
                if chip_asleep {
                    out.failure = Some(fail(idx, "I5", "adapter/i5/setup_rx/chip-asleep".into(), "after setup_rx the chip sleeps".into()));
                    break;
                }
            }
            (R::Rx(bytes), AOp::RxSingle { .. } | AOp::RxContinuous { .. }) => {
                if *bytes != payload_rx(idx) {
                    out.failure = Some(fail(idx, "clean-result", format!("adapter/rx-payload/{name}"), format!("{name} returned {} but the chip received {}", hex(bytes), hex(&payload_rx(idx)))));
                    break;
                }
                if world.borrow().chip.rx_starts() > rx_before && loss {
                    out.nontrivial = true;
                }
            }
            (R::RxTimeout, AOp::RxSingle { .. }) => {
                out.classes.push("chip-outcome-error");
                loss = true;
                if proto == P::RxSingle {
                    proto = P::Standby;
                    if !chip_standby {
                        out.failure = Some(fail(idx, "I4", "adapter/i4/rx_single/chip-not-standby-after-timeout".into(), format!("rx_single timed out and left the chip in {chip_mode}")));
                        break;
                    }
                }
                if world.borrow().chip.rx_starts() > rx_before {
                    out.nontrivial = out.nontrivial || loss;
                }
            }
            (R::Err(e), AOp::RxContinuous { irq } | AOp::RxSingle { irq }) if irq.iter().any(|x| x.has_error()) => {
                out.classes.push("chip-outcome-error");
                loss = true;
                if proto == P::RxSingle {
                    proto = P::Standby;
                    if !chip_standby {
                        out.failure = Some(fail(idx, "I4", format!("adapter/i4/{name}/chip-not-standby-after-{e}"), format!("{name} failed with {e} and left the chip in {chip_mode}")));
                        break;
                    }
                }
            }
            (R::Ok, AOp::LowPower) => {
                proto = P::Sleep;
                loss = true;
                out.classes.push("sleep");
                if !chip_asleep {
                    out.failure = Some(fail(idx, "I5", "adapter/i5/low_power/chip-awake".into(), format!("after low_power the chip is in {chip_mode}")));
                    break;
                }
            }
            (R::Err(e), _) => {
                out.failure = Some(fail(idx, "clean-result", format!("adapter/unexpected-error/{name}/{e}"), format!("{name} returned {e} in a fault-free run (chip reported {:?})", op.irq())));
                break;
            }
            (other, _) => {
                out.failure = Some(fail(idx, "clean-result", format!("adapter/unexpected-result/{name}"), format!("{name} returned {other:?}")));
                break;
            }
        }
    }
    out.interactions = world.borrow().inter;
    out
}

pub fn alphabet() -> Vec<AOp> {
    vec![
        AOp::Tx { ch: 0, len: 12, irq: vec![Ev::Done] },
        AOp::Tx { ch: 2, len: 0, irq: vec![Ev::Timeout] },
        AOp::SetupRx { single_ms: Some(0), ch: 0 },
        AOp::SetupRx { single_ms: Some(25), ch: 1 },
        AOp::SetupRx { single_ms: None, ch: 3 },
        AOp::RxSingle { irq: vec![Ev::Done] },
        AOp::RxSingle { irq: vec![Ev::Timeout] },
        AOp::RxSingle { irq: vec![Ev::Preamble, Ev::CrcError] },
        AOp::RxSingle { irq: vec![Ev::PreambleTimeout] },
        AOp::RxSingle { irq: vec![Ev::HeaderValid, Ev::HeaderValidTimeout] },
        AOp::RxContinuous { irq: vec![Ev::Done] },
        AOp::RxContinuous { irq: vec![] },
        AOp::RxContinuous { irq: vec![Ev::Spurious] },
        AOp::LowPower,
    ]
}

pub fn eval_acase(st: &mut Stats, _env: &Env, case: &ACase, class: &'static str) -> AOut {
    st.eval();
    st.class(class);
    let out = run_acase(case);
    for c in &out.classes {
        st.class(c);
    }
    if out.nontrivial {
        st.nt_hash(hash_value(&case.to_json()));
        if st.want_sample() && st.evaluations % 2053 == 5 {
            st.sample(case.to_json());
        }
    }
    if let Some(f) = &out.failure {
        match tolerated(&_env.kf, case, f) {
            Some(id) => st.excluded(id),
            None => st.fail(f.clone()),
        }
    }
    out
}

/// the adapter drives the same LoRa code: the stale-interrupt-flag finding shows here as well
pub fn tolerated(kf: &KnownFindings, case: &ACase, f: &Failure) -> Option<&'static str> {
    let first = f.case["fault"]["spi_first_byte"].as_u64();
    let kind = f.case["fault"]["kind"].as_str().unwrap_or("");
    if case.fault_at.is_some() && case.board.is_126x() && kind == "spi" && first == Some(0x02) && kf.is_active(super::c14::KF_STALE_IRQ) && f.fingerprint == "adapter/after-fault/unexpected-error/tx/Radio(TransmitTimeout)" {
        return Some(super::c14::KF_STALE_IRQ);
    }
    None
}

pub fn run_part(st: &mut Stats, env: &Env, thorough: bool, ti: usize, nthreads: usize) {
    let alpha = alphabet();
    let depth = if thorough { 5 } else { 4 };
    let total = (alpha.len() as u64).pow(depth as u32);
    for board in BOARDS {
        let mut n = ti as u64;
        while n < total {
            let mut ops = Vec::with_capacity(depth);
            let mut m = n;
            for _ in 0..depth {
                ops.push(alpha[(m % alpha.len() as u64) as usize].clone());
                m /= alpha.len() as u64;
            }
            let base = ACase { board, ops, fault_at: None };
            let out = eval_acase(st, env, &base, "adapter-sequence");
            // fault enumeration on a slice of the adapter sequences: the error must surface
            if out.failure.is_none() && n % (if thorough { 7 } else { 31 }) == 0 {
                for k in 0..out.interactions {
                    let mut c = base.clone();
                    c.fault_at = Some(k);
                    eval_acase(st, env, &c, "adapter-fault-variant");
                }
            }
            n += nthreads as u64;
        }
    }
}

pub fn replay(case: &Value, _kf: &KnownFindings) -> Result<(), Failure> {
    let c = ACase::from_json(case).ok_or_else(|| Failure::new("bad-replay", case.clone(), "cannot parse adapter case"))?;
    match run_acase(&c).failure {
        None => Ok(()),
        Some(f) => match tolerated(_kf, &c, &f) {
            Some(_) => Ok(()),
            None => Err(f),
        },
    }
}
