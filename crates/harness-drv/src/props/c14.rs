//! C14 — the PHY driver and the radio chip never disagree about the radio's state.
//!
//! Stateful model-based testing of `LoRa<RK, DLY>` (and of the `LorawanRadio` adapter, see
//! c14_adapter.rs) on the datasheet-level chip models chip126x / chip127x:
//! exhaustive API sequences, random sequences (proptest, shrinkable), fault enumeration (fail
//! exactly the k-th SPI / BUSY / IRQ / reset / RF-switch interaction) and cancellation of the
//! droppable waits. Monitors: I1..I5 of DESIGN.md.

use crate::chip126x::{Board126, Chip126x};
use crate::chip127x::Chip127x;
use crate::doubles::poll_once;
use crate::world::{Chip, Shared, WDelay, WIv, WSpi, World};
use core::task::Poll;
use lora_phy::mod_params::{Bandwidth, CodingRate, DutyCycleParams, RadioError, RadioMode, SpreadingFactor};
use lora_phy::mod_traits::RadioKind;
use lora_phy::sx126x::{self, Sx1261, Sx1262, Sx126x, TcxoCtrlVoltage};
use lora_phy::sx127x::{self, Sx1272, Sx1276, Sx127x};
use lora_phy::{LoRa, RxMode};
use serde_json::{json, Value};
use verif_core::*;

/// panic fingerprint independent of where the repository copy lives
pub fn panic_fp(text: &str) -> String {
    let fp = panic_fingerprint(text);
    match (fp.rfind(" @ "), fp.find("lora-phy/")) {
        (Some(at), Some(lp)) if lp > at => format!("{} @ {}", &fp[..at], &fp[lp..]),
        _ => fp,
    }
}

// ---------------------------------------------------------------- boards

#[derive(Clone, Copy, Debug, PartialEq, Eq)]
pub enum Board {
    Sx1261,
    Sx1262,
    Sx1262DcdcTcxo,
    Sx1276,
    Sx1272,
}
pub const BOARDS: [Board; 5] = [Board::Sx1261, Board::Sx1262, Board::Sx1262DcdcTcxo, Board::Sx1276, Board::Sx1272];

impl Board {
    pub fn name(self) -> &'static str {
        match self {
            Board::Sx1261 => "sx1261",
            Board::Sx1262 => "sx1262",
            Board::Sx1262DcdcTcxo => "sx1262-dcdc-tcxo",
            Board::Sx1276 => "sx1276",
            Board::Sx1272 => "sx1272-tcxo",
        }
    }
    pub fn from_name(s: &str) -> Option<Board> {
        BOARDS.iter().copied().find(|b| b.name() == s)
    }
    pub fn is_126x(self) -> bool {
        matches!(self, Board::Sx1261 | Board::Sx1262 | Board::Sx1262DcdcTcxo)
    }
}

// ---------------------------------------------------------------- the history language

#[derive(Clone, Copy, Debug, PartialEq, Eq)]
pub enum Ev {
    Done,
    DoneDetected,
    Timeout,
    CrcError,
    HeaderError,
    Preamble,
    Spurious,
    // ---- informational flag set of a locked header (preamble + sync word + valid header)
    HeaderValid,
    // ---- several conditions latched before the host reads the status once. A terminal condition
    // (done, timeout, CRC / header error) takes precedence over the informational flags
    // (preamble detected, sync word / header valid) that are read together with it.
    PreambleTimeout,
    HeaderValidTimeout,
    HeaderErrorTimeout,
    /// packet received and the timeout flag latched too (SX126x datasheet 15.3: the timer is not
    /// stopped by RxDone in implicit-header mode); TX: TxDone and the timeout together
    TimeoutDone,
    /// a clean reception (the chip behaves exactly as for `Done`) of a packet that does not fit the
    /// buffer the caller hands to rx / complete_rx: the packet cannot be handed over, the operation
    /// may only fail (or deliver no more than the buffer holds)
    DoneShortBuf,
}
pub const ALL_EVS: [Ev; 13] = [Ev::Done, Ev::DoneDetected, Ev::Timeout, Ev::CrcError, Ev::HeaderError, Ev::Preamble, Ev::Spurious, Ev::HeaderValid, Ev::PreambleTimeout, Ev::HeaderValidTimeout, Ev::HeaderErrorTimeout, Ev::TimeoutDone, Ev::DoneShortBuf];
impl Ev {
    /// the set contains a failure the operation may report (timeout, CRC error, header error)
    pub fn has_error(self) -> bool {
        matches!(self, Ev::Timeout | Ev::CrcError | Ev::HeaderError | Ev::PreambleTimeout | Ev::HeaderValidTimeout | Ev::HeaderErrorTimeout | Ev::TimeoutDone | Ev::DoneShortBuf)
    }
    /// the set contains a completion (packet received / CAD done / TX done)
    pub fn has_done(self) -> bool {
        matches!(self, Ev::Done | Ev::DoneDetected | Ev::CrcError | Ev::TimeoutDone | Ev::DoneShortBuf)
    }
    /// the set contains a timeout: the chip has left the operation by itself
    pub fn has_timeout(self) -> bool {
        matches!(self, Ev::Timeout | Ev::PreambleTimeout | Ev::HeaderValidTimeout | Ev::HeaderErrorTimeout | Ev::TimeoutDone)
    }
    pub fn name(self) -> &'static str {
        match self {
            Ev::HeaderValid => "header-valid",
            Ev::PreambleTimeout => "preamble+timeout",
            Ev::HeaderValidTimeout => "header-valid+timeout",
            Ev::HeaderErrorTimeout => "header-error+timeout",
            Ev::TimeoutDone => "timeout+done",
            Ev::Done => "done",
            Ev::DoneShortBuf => "done-short-buffer",
            Ev::DoneDetected => "done-detected",
            Ev::Timeout => "timeout",
            Ev::CrcError => "crc-error",
            Ev::HeaderError => "header-error",
            Ev::Preamble => "preamble",
            Ev::Spurious => "spurious",
        }
    }
    pub fn from_name(s: &str) -> Option<Ev> {
        ALL_EVS.into_iter().find(|e| e.name() == s)
    }
}

#[derive(Clone, Copy, Debug, PartialEq, Eq)]
pub enum RxM {
    Single(u16),
    Continuous,
    Duty,
}

#[derive(Clone, Debug, PartialEq)]
pub enum Op {
    Init,
    Sleep { warm: bool },
    PrepTx { ch: u8, len: u8 },
    /// prepare_for_tx with a 256-octet payload: refused (no LoRa packet holds it), nothing is armed
    PrepTxOversize { ch: u8 },
    Tx { irq: Vec<Ev> },
    PrepRx { mode: RxM, ch: u8 },
    StartRx,
    CompleteRx { irq: Vec<Ev> },
    Rx { irq: Vec<Ev> },
    RxSwitch { ch: u8 },
    Listen { ch: u8 },
    PrepCad { ch: u8 },
    Cad { irq: Vec<Ev> },
    SetSync { word: u16 },
    WaitIrq { irq: Vec<Ev> },
}

impl Op {
    pub fn name(&self) -> &'static str {
        match self {
            Op::Init => "init",
            Op::Sleep { .. } => "sleep",
            Op::PrepTx { .. } => "prepare_for_tx",
            Op::PrepTxOversize { .. } => "prepare_for_tx(256 octets)",
            Op::Tx { .. } => "tx",
            Op::PrepRx { .. } => "prepare_for_rx",
            Op::StartRx => "start_rx",
            Op::CompleteRx { .. } => "complete_rx",
            Op::Rx { .. } => "rx",
            Op::RxSwitch { .. } => "rx_switch_channel",
            Op::Listen { .. } => "listen",
            Op::PrepCad { .. } => "prepare_for_cad",
            Op::Cad { .. } => "cad",
            Op::SetSync { .. } => "set_lora_sync_word",
            Op::WaitIrq { .. } => "wait_for_irq",
        }
    }
    fn irq(&self) -> &[Ev] {
        match self {
            Op::Tx { irq } | Op::CompleteRx { irq } | Op::Rx { irq } | Op::Cad { irq } | Op::WaitIrq { irq } => irq,
            _ => &[],
        }
    }
    pub fn to_json(&self) -> Value {
        let irq = |v: &Vec<Ev>| v.iter().map(|e| e.name()).collect::<Vec<_>>();
        match self {
            Op::Init => json!({"op":"init"}),
            Op::Sleep { warm } => json!({"op":"sleep","warm":warm}),
            Op::PrepTx { ch, len } => json!({"op":"prepare_for_tx","ch":ch,"len":len}),
            Op::PrepTxOversize { ch } => json!({"op":"prepare_for_tx_256_octets","ch":ch}),
            Op::Tx { irq: i } => json!({"op":"tx","irq":irq(i)}),
            Op::PrepRx { mode, ch } => match mode {
                RxM::Single(n) => json!({"op":"prepare_for_rx","mode":"single","symbols":n,"ch":ch}),
                RxM::Continuous => json!({"op":"prepare_for_rx","mode":"continuous","ch":ch}),
                RxM::Duty => json!({"op":"prepare_for_rx","mode":"duty-cycle","ch":ch}),
            },
            Op::StartRx => json!({"op":"start_rx"}),
            Op::CompleteRx { irq: i } => json!({"op":"complete_rx","irq":irq(i)}),
            Op::Rx { irq: i } => json!({"op":"rx","irq":irq(i)}),
            Op::RxSwitch { ch } => json!({"op":"rx_switch_channel","ch":ch}),
            Op::Listen { ch } => json!({"op":"listen","ch":ch}),
            Op::PrepCad { ch } => json!({"op":"prepare_for_cad","ch":ch}),
            Op::Cad { irq: i } => json!({"op":"cad","irq":irq(i)}),
            Op::SetSync { word } => json!({"op":"set_lora_sync_word","word":word}),
            Op::WaitIrq { irq: i } => json!({"op":"wait_for_irq","irq":irq(i)}),
        }
    }
    pub fn from_json(v: &Value) -> Option<Op> {
        let irq = || -> Option<Vec<Ev>> { v["irq"].as_array()?.iter().map(|e| Ev::from_name(e.as_str()?)).collect() };
        let ch = || v["ch"].as_u64().map(|x| x as u8);
        Some(match v["op"].as_str()? {
            "init" => Op::Init,
            "sleep" => Op::Sleep { warm: v["warm"].as_bool()? },
            "prepare_for_tx" => Op::PrepTx { ch: ch()?, len: v["len"].as_u64()? as u8 },
            "tx" => Op::Tx { irq: irq()? },
            "prepare_for_rx" => Op::PrepRx {
                mode: match v["mode"].as_str()? {
                    "single" => RxM::Single(v["symbols"].as_u64()? as u16),
                    "continuous" => RxM::Continuous,
                    _ => RxM::Duty,
                },
                ch: ch()?,
            },
            "prepare_for_tx_256_octets" => Op::PrepTxOversize { ch: ch()? },
            "start_rx" => Op::StartRx,
            "complete_rx" => Op::CompleteRx { irq: irq()? },
            "rx" => Op::Rx { irq: irq()? },
            "rx_switch_channel" => Op::RxSwitch { ch: ch()? },
            "listen" => Op::Listen { ch: ch()? },
            "prepare_for_cad" => Op::PrepCad { ch: ch()? },
            "cad" => Op::Cad { irq: irq()? },
            "set_lora_sync_word" => Op::SetSync { word: v["word"].as_u64()? as u16 },
            "wait_for_irq" => Op::WaitIrq { irq: irq()? },
            _ => return None,
        })
    }
}

/// channel table: (frequency, SF, BW) legal on every emulated part
pub const CHANNELS: [(u32, SpreadingFactor, Bandwidth); 4] = [
    (868_100_000, SpreadingFactor::_7, Bandwidth::_125KHz),
    (867_700_000, SpreadingFactor::_12, Bandwidth::_125KHz),
    (923_300_000, SpreadingFactor::_9, Bandwidth::_500KHz),
    (903_900_000, SpreadingFactor::_10, Bandwidth::_250KHz),
];

#[derive(Clone, Copy, Debug, PartialEq, Eq)]
pub enum Recovery {
    Tx,
    Rx,
    /// no recovery sequence: the application goes on with the rest of its calls (fault-free). The protocol
    /// state is unknown from then on (I1/I4/I5 are not judged), the chip monitors I2/I3 stay: whatever goes
    /// on the air or is listened to must be what the last request asked for, fully programmed
    Continue,
}

#[derive(Clone, Debug)]
pub struct Case {
    pub board: Board,
    pub ops: Vec<Op>,
    /// for every op: is an SX126x in RX duty cycle in its sleep phase when the call starts?
    pub duty_sleep_phase: Vec<bool>,
    pub fault_at: Option<u32>,
    /// the same fault described independently of absolute positions:
    /// (step, interaction kind, first MOSI byte, occurrence within the step)
    pub fault_sel: Option<(i32, String, Option<u8>, u32)>,
    pub recovery: Option<Recovery>,
    /// how the `LoRa` object is built: 0 `new(public network)`, 1 `new(private network)`,
    /// 2 `with_syncword(0xAB)`, 3 `with_syncword(0x34)` — the sync word configured there is the one every
    /// later transmission and reception must start with (until `set_lora_sync_word` changes it)
    pub ctor: u8,
}

/// constructor variant derived from the operations, so that enumerated sequences spread over all four
pub fn ctor_of(board: Board, ops: &[Op]) -> u8 {
    let mut h: u32 = 0x811c_9dc5 ^ board.name().len() as u32;
    for o in ops {
        for b in o.to_json().to_string().bytes() {
            h = (h ^ b as u32).wrapping_mul(0x0100_0193);
        }
    }
    ((h >> 7) % 4) as u8
}

pub fn ctor_sync(ctor: u8) -> u16 {
    match ctor {
        1 => 0x1424,
        2 => 0xA4B4,
        _ => 0x3444,
    }
}

impl Case {
    pub fn plain(board: Board, ops: Vec<Op>, phase: bool) -> Case {
        let n = ops.len();
        let ctor = ctor_of(board, &ops);
        Case { board, ops, duty_sleep_phase: vec![phase; n], fault_at: None, fault_sel: None, recovery: None, ctor }
    }
    pub fn to_json(&self) -> Value {
        json!({
            "engine": "lora-api",
            "board": self.board.name(),
            "ops": self.ops.iter().map(|o| o.to_json()).collect::<Vec<_>>(),
            "duty_sleep_phase": self.duty_sleep_phase,
            "fault_at": self.fault_at,
            "fault": self.fault_sel.as_ref().map(|(st, kd, fb, n)| json!({"step": st, "kind": kd, "spi_first_byte": fb, "occurrence": n})),
            "recovery": self.recovery.map(|r| match r { Recovery::Tx => "prepare_for_tx+tx", Recovery::Rx => "prepare_for_rx+rx", Recovery::Continue => "continue" }),
            "constructor": (["new(public)", "new(private)", "with_syncword(0xAB)", "with_syncword(0x34)"][(self.ctor % 4) as usize]),
        })
    }
    pub fn from_json(v: &Value) -> Option<Case> {
        let ops: Vec<Op> = v["ops"].as_array()?.iter().map(Op::from_json).collect::<Option<Vec<_>>>()?;
        let mut ph: Vec<bool> = v["duty_sleep_phase"].as_array().map(|a| a.iter().map(|x| x.as_bool().unwrap_or(false)).collect()).unwrap_or_default();
        ph.resize(ops.len(), false);
        Some(Case {
            board: Board::from_name(v["board"].as_str()?)?,
            ops,
            duty_sleep_phase: ph,
            fault_at: if v["fault"]["step"].is_i64() { None } else { v["fault_at"].as_u64().map(|x| x as u32) },
            fault_sel: if v["fault"]["step"].is_i64() {
                Some((v["fault"]["step"].as_i64()? as i32, v["fault"]["kind"].as_str()?.to_string(), v["fault"]["spi_first_byte"].as_u64().map(|x| x as u8), v["fault"]["occurrence"].as_u64().unwrap_or(0) as u32))
            } else {
                None
            },
            recovery: match v["recovery"].as_str() {
                Some("prepare_for_tx+tx") => Some(Recovery::Tx),
                Some("prepare_for_rx+rx") => Some(Recovery::Rx),
                Some("continue") => Some(Recovery::Continue),
                _ => None,
            },
            ctor: match v["constructor"].as_str() {
                Some("new(private)") => 1,
                Some("with_syncword(0xAB)") => 2,
                Some("with_syncword(0x34)") => 3,
                _ => 0,
            },
        })
    }
}

// ---------------------------------------------------------------- protocol model (independent of the driver)

#[derive(Clone, Copy, Debug, PartialEq, Eq)]
pub enum PMode {
    Unknown,
    Sleep,
    Standby,
    TxReady,
    Rx(RxM),
    Listen,
    CadReady,
}

fn belief_name(m: RadioMode) -> &'static str {
    match m {
        RadioMode::Sleep => "Sleep",
        RadioMode::Standby => "Standby",
        RadioMode::FrequencySynthesis => "FrequencySynthesis",
        RadioMode::Transmit => "Transmit",
        RadioMode::Receive(RxMode::Single(_)) => "Receive(Single)",
        RadioMode::Receive(RxMode::Continuous) => "Receive(Continuous)",
        RadioMode::Receive(RxMode::DutyCycle(_)) => "Receive(DutyCycle)",
        RadioMode::Listen => "Listen",
        RadioMode::ChannelActivityDetection => "ChannelActivityDetection",
    }
}
fn proto_belief(p: PMode) -> Option<&'static str> {
    Some(match p {
        PMode::Unknown => return None,
        PMode::Sleep => "Sleep",
        PMode::Standby => "Standby",
        PMode::TxReady => "Transmit",
        PMode::Rx(RxM::Single(_)) => "Receive(Single)",
        PMode::Rx(RxM::Continuous) => "Receive(Continuous)",
        PMode::Rx(RxM::Duty) => "Receive(DutyCycle)",
        PMode::Listen => "Listen",
        PMode::CadReady => "ChannelActivityDetection",
    })
}

// ---------------------------------------------------------------- results

#[derive(Debug, Clone, PartialEq)]
enum Res {
    Ok,
    OkRx(Vec<u8>),
    OkCad(bool),
    Err(String),
    Pending,
    Panic(String),
}

pub struct RunOut {
    pub failure: Option<Failure>,
    /// bus/line interactions of the fault-free part (for fault enumeration)
    pub interactions: u32,
    pub nontrivial: bool,
    pub classes: Vec<&'static str>,
    pub ended: &'static str,
}

struct Interp<RK: RadioKind> {
    lora: LoRa<RK, WDelay>,
    world: Shared,
    board: Board,
    proto: PMode,
    sync: u16,
    /// a set_lora_sync_word that failed on the bus may or may not have reached the chip
    sync_alt: Option<u16>,
    /// judging the fault-free sequence after an injected fault (weaker requirement: I2, I3, success)
    recovering: bool,
    /// Recovery::Continue: the remaining calls of the sequence after an injected fault
    continuing: bool,
    /// what the last prepare put on the air interface
    exp_freq: Option<u32>,
    exp_payload: Vec<u8>,
    /// what was in force before a call that failed on an injected fault: a call that failed early has replaced
    /// nothing, so a later transmission / reception without another prepare may still use it (Recovery::Continue)
    exp_freq_before_fault: Option<u32>,
    exp_payload_before_fault: Option<Vec<u8>>,
    saw_loss_or_failure: bool,
    nontrivial: bool,
    classes: Vec<&'static str>,
    /// a bare wait_for_irq delivered a chip outcome (timeout / error flag, or a received packet)
    /// that is still latched in the chip because no operation has processed the interrupt yet:
    /// the next tx/rx/complete_rx/cad reports *that* outcome, whatever its own script holds
    carried_error: bool,
    carried_done: bool,
    /// ... and with which the chip ended the reception by itself (done / timeout): the
    /// complete_rx of that reception has to report it
    carried_terminal: Option<String>,
}

const DUTY: DutyCycleParams = DutyCycleParams { rx_time: 640, sleep_time: 6400 };

/// caller's buffer for the `done-short-buffer` outcome (the packets of `rx_payload_for` have 5 octets)
const SHORT_RX_BUF: usize = 3;
fn rx_payload_for(i: usize) -> Vec<u8> {
    vec![0xA0u8.wrapping_add(i as u8), 0x11, 0x22, 0x33, i as u8]
}
fn tx_payload_for(i: usize, len: u8) -> Vec<u8> {
    (0..len).map(|j| 0x40u8.wrapping_add(j).wrapping_mul(3) ^ (i as u8)).collect()
}

fn frf_of(board: Board, hz: u32) -> (u32, u32) {
    // accepted PLL words: floor and nearest of f / step (C13 judges the rounding)
    if board.is_126x() {
        let x = ((hz as u64) << 25) / 32_000_000;
        (x as u32, x as u32 + 1)
    } else {
        let x = ((hz as u64) << 19) / 32_000_000;
        (x as u32, x as u32 + 1)
    }
}

impl<RK: RadioKind> Interp<RK> {
    fn viol(&self, case: &Case, step: Option<usize>, rule: &str, fp: String, detail: String) -> Failure {
        let mut cj = case.to_json();
        cj["failing_step"] = json!(step);
        let w = self.world.borrow();
        if let (Some((op, kind, opcode)), Some((stp, _, _, nth))) = (&w.fault_info, &w.fault_sel_hit) {
            cj["fault"] = json!({"during": op, "step": stp, "kind": kind, "spi_first_byte": opcode, "occurrence": nth});
        }
        Failure::new(rule, cj, detail).with_fp(fp)
    }

    /// executes one API call; the future is dropped if it is still pending after the interrupt
    /// script of the operation is used up
    fn exec(&mut self, op: &Op, idx: usize) -> Res {
        let lora = &mut self.lora;
        let r = catch(move || -> Res {
            fn fin<T>(p: Poll<Result<T, RadioError>>, f: impl FnOnce(T) -> Res) -> Res {
                match p {
                    Poll::Pending => Res::Pending,
                    Poll::Ready(Ok(v)) => f(v),
                    Poll::Ready(Err(e)) => Res::Err(format!("{e:?}")),
                }
            }
            match op {
                Op::Init => fin(poll_once(lora.init()), |_| Res::Ok),
                Op::Sleep { warm } => fin(poll_once(lora.sleep(*warm)), |_| Res::Ok),
                Op::PrepTx { ch, len } => {
                    let (hz, sf, bw) = CHANNELS[*ch as usize % 4];
                    let mp = match lora.create_modulation_params(sf, bw, CodingRate::_4_5, hz) {
                        Ok(m) => m,
                        Err(e) => return Res::Err(format!("create_modulation_params: {e:?}")),
                    };
                    let mut pp = match lora.create_tx_packet_params(8, false, true, false, &mp) {
                        Ok(p) => p,
                        Err(e) => return Res::Err(format!("create_tx_packet_params: {e:?}")),
                    };
                    let buf = tx_payload_for(idx, *len);
                    fin(poll_once(lora.prepare_for_tx(&mp, &mut pp, 14, &buf)), |_| Res::Ok)
                }
                Op::PrepTxOversize { ch } => {
                    let (hz, sf, bw) = CHANNELS[*ch as usize % 4];
                    let mp = match lora.create_modulation_params(sf, bw, CodingRate::_4_5, hz) {
                        Ok(m) => m,
                        Err(e) => return Res::Err(format!("create_modulation_params: {e:?}")),
                    };
                    let mut pp = match lora.create_tx_packet_params(8, false, true, false, &mp) {
                        Ok(p) => p,
                        Err(e) => return Res::Err(format!("create_tx_packet_params: {e:?}")),
                    };
                    fin(poll_once(lora.prepare_for_tx(&mp, &mut pp, 14, &[0x5Au8; 256])), |_| Res::Ok)
                }
                Op::Tx { .. } => fin(poll_once(lora.tx()), |_| Res::Ok),
                Op::PrepRx { mode, ch } => {
                    let (hz, sf, bw) = CHANNELS[*ch as usize % 4];
                    let mp = match lora.create_modulation_params(sf, bw, CodingRate::_4_5, hz) {
                        Ok(m) => m,
                        Err(e) => return Res::Err(format!("create_modulation_params: {e:?}")),
                    };
                    let pp = match lora.create_rx_packet_params(8, false, 255, true, true, &mp) {
                        Ok(p) => p,
                        Err(e) => return Res::Err(format!("create_rx_packet_params: {e:?}")),
                    };
                    let m = match mode {
                        RxM::Single(n) => RxMode::Single(*n),
                        RxM::Continuous => RxMode::Continuous,
                        RxM::Duty => RxMode::DutyCycle(DUTY),
                    };
                    fin(poll_once(lora.prepare_for_rx(m, &mp, &pp)), |_| Res::Ok)
                }
                Op::StartRx => fin(poll_once(lora.start_rx()), |_| Res::Ok),
                Op::CompleteRx { .. } | Op::Rx { .. } => {
                    let (hz, sf, bw) = CHANNELS[0];
                    let mp = match lora.create_modulation_params(sf, bw, CodingRate::_4_5, hz) {
                        Ok(m) => m,
                        Err(e) => return Res::Err(format!("create_modulation_params: {e:?}")),
                    };
                    let pp = match lora.create_rx_packet_params(8, false, 255, true, true, &mp) {
                        Ok(p) => p,
                        Err(e) => return Res::Err(format!("create_rx_packet_params: {e:?}")),
                    };
                    let mut full = [0u8; 255];
                    // `done-short-buffer`: the caller's buffer is shorter than the packet the chip holds
                    let short = op.irq().iter().any(|e| *e == Ev::DoneShortBuf);
                    let buf = if short { &mut full[..SHORT_RX_BUF] } else { &mut full[..] };
                    let p = if matches!(op, Op::Rx { .. }) { poll_once(lora.rx(&pp, buf)) } else { poll_once(lora.complete_rx(&pp, buf)) };
                    match p {
                        Poll::Pending => Res::Pending,
                        Poll::Ready(Ok((len, _))) => Res::OkRx(buf[..(len as usize).min(buf.len())].to_vec()),
                        Poll::Ready(Err(e)) => Res::Err(format!("{e:?}")),
                    }
                }
                Op::RxSwitch { ch } => fin(poll_once(lora.rx_switch_channel(CHANNELS[*ch as usize % 4].0)), |_| Res::Ok),
                Op::Listen { ch } => fin(poll_once(lora.listen(CHANNELS[*ch as usize % 4].0, CHANNELS[*ch as usize % 4].2)), |_| Res::Ok),
                Op::PrepCad { ch } => {
                    let (hz, sf, bw) = CHANNELS[*ch as usize % 4];
                    let mp = match lora.create_modulation_params(sf, bw, CodingRate::_4_5, hz) {
                        Ok(m) => m,
                        Err(e) => return Res::Err(format!("create_modulation_params: {e:?}")),
                    };
                    fin(poll_once(lora.prepare_for_cad(&mp)), |_| Res::Ok)
                }
                Op::Cad { .. } => {
                    let (hz, sf, bw) = CHANNELS[0];
                    let mp = match lora.create_modulation_params(sf, bw, CodingRate::_4_5, hz) {
                        Ok(m) => m,
                        Err(e) => return Res::Err(format!("create_modulation_params: {e:?}")),
                    };
                    fin(poll_once(lora.cad(&mp)), Res::OkCad)
                }
                Op::SetSync { word } => fin(poll_once(lora.set_lora_sync_word(*word)), |_| Res::Ok),
                Op::WaitIrq { .. } => fin(poll_once(lora.wait_for_irq()), |_| Res::Ok),
            }
        });
        match r {
            Ok(v) => v,
            Err(p) => Res::Panic(p),
        }
    }

    fn mode_ok(&self, op: &Op) -> bool {
        match op {
            Op::Tx { .. } => self.proto == PMode::TxReady,
            Op::StartRx | Op::CompleteRx { .. } | Op::Rx { .. } | Op::RxSwitch { .. } => matches!(self.proto, PMode::Rx(_)),
            Op::Cad { .. } => self.proto == PMode::CadReady,
            _ => true,
        }
    }

    /// runs one step including all judges; Err = violation, Ok(false) = the sequence ends here
    fn step(&mut self, case: &Case, idx: usize, op: &Op) -> Result<bool, Failure> {
        let name = op.name();
        {
            let mut w = self.world.borrow_mut();
            w.begin_step(idx as i32);
            w.cur_op = name.to_string();
            w.op_inter = 0;
            w.irq_waits = 0;
            w.blocked = false;
            w.script = op.irq().iter().map(|e| if *e == Ev::DoneShortBuf { Ev::Done.name().to_string() } else { e.name().to_string() }).collect();
            w.rx_payload = rx_payload_for(idx);
            if let Chip::C126(c) = &mut w.chip {
                if let crate::chip126x::Mode126::RxDuty { .. } = c.mode {
                    c.mode = crate::chip126x::Mode126::RxDuty { asleep: *case.duty_sleep_phase.get(idx).unwrap_or(&false) };
                    self.classes.push("op-during-rx-duty-cycle");
                }
            }
        }
        let (tx_before, rx_before) = {
            let w = self.world.borrow();
            (w.chip.tx_count(), w.chip.rx_starts())
        };
        let fault_before = self.world.borrow().fault_hit.is_some();
        let res = self.exec(op, idx);
        let (op_inter, fault_now, leftover) = {
            let w = self.world.borrow();
            (w.op_inter, w.fault_hit.clone(), w.script.len())
        };
        let fault_in_this_op = !fault_before && fault_now.is_some();
        let st = Some(idx);

        // ---- panics: the operation neither completed nor failed cleanly (reported under I4)
        if let Res::Panic(p) = &res {
            return Err(self.viol(case, st, "I4", format!("i4/{}", panic_fp(p)), format!("{name} panicked: {p}")));
        }
        // ---- chip monitors (I2, I3)
        let viols: Vec<crate::chip126x::Viol> = std::mem::take(self.world.borrow_mut().chip.viols());
        if let Some(v) = viols.first() {
            return Err(self.viol(case, st, v.rule, v.fp.clone(), v.detail.clone()));
        }
        // ---- injected fault: the error must surface
        if fault_in_this_op {
            if let Op::SetSync { word } = op {
                self.sync_alt = Some(*word);
            }
            // what the failed call asked for is what a later transmission / reception without another
            // prepare would have to use (Recovery::Continue)
            self.exp_freq_before_fault = self.exp_freq;
            self.exp_payload_before_fault = Some(self.exp_payload.clone());
            match op {
                Op::PrepTx { ch, len } => {
                    self.exp_freq = Some(CHANNELS[*ch as usize % 4].0);
                    self.exp_payload = tx_payload_for(idx, *len);
                }
                Op::PrepRx { ch, .. } | Op::RxSwitch { ch } | Op::Listen { ch } => self.exp_freq = Some(CHANNELS[*ch as usize % 4].0),
                _ => {}
            }
            return match &res {
                Res::Err(_) => Ok(false),
                other => Err(self.viol(case, st, "fault-not-swallowed", format!("fault-swallowed/{name}"), format!("{} failed but {name} returned {other:?}", fault_now.unwrap_or_default()))),
            };
        }
        // ---- I1: wrong-mode calls are refused without any traffic
        if self.proto != PMode::Unknown && !self.mode_ok(op) {
            self.classes.push("wrong-mode-call");
            return match &res {
                Res::Err(e) if e == "InvalidRadioMode" && op_inter == 0 => Ok(true),
                Res::Err(e) if e == "InvalidRadioMode" => Err(self.viol(case, st, "I1", format!("i1/{name}/traffic-before-refusal"), format!("{name} in protocol state {:?} was refused but after {op_inter} bus/line interactions", self.proto))),
                other => Err(self.viol(case, st, "I1", format!("i1/{name}/not-refused"), format!("{name} called in protocol state {:?} (no matching prepare) returned {other:?} after {op_inter} bus/line interactions", self.proto))),
            };
        }
        if let Res::Err(e) = &res {
            if e == "InvalidRadioMode" && self.proto != PMode::Unknown {
                return Err(self.viol(case, st, "I5", format!("i5/{name}/refused-in-right-mode"), format!("{name} refused with InvalidRadioMode although the protocol state is {:?}", self.proto)));
            }
        }
        // ---- blocked on the environment / cancellation
        if res == Res::Pending && !self.recovering {
            // The call is waiting for an interrupt that will never come. If the chip has already
            // delivered a terminal outcome for this operation (during this call, or latched by a
            // bare wait_for_irq before it) and no flag is pending any more, the driver has read and
            // cleared that outcome without acting on it: the operation neither completed nor failed.
            let (term, pending) = {
                let w = self.world.borrow();
                (w.terminal_in_op.clone(), w.chip.irq_line())
            };
            // (what a bare wait_for_irq let in belongs to the reception that complete_rx completes;
            // rx / tx / cad start a new operation)
            let what = term.or_else(|| if matches!(op, Op::CompleteRx { .. }) { self.carried_terminal.clone() } else { None });
            if let (Some(ev), false) = (what, pending) {
                let fpn = ev.clone();
                return Err(self.viol(case, st, "I4", format!("i4/{name}/outcome-lost/{fpn}"), format!("the chip reported {ev} (flags latched, interrupt line fired) but {name} cleared it and keeps waiting: the operation neither completed nor failed; chip is in {}, driver believes {}", self.world.borrow().chip.mode_name(), belief_name(self.lora.verif_mode().0))));
            }
        }
        if res == Res::Pending {
            let cancellable = matches!(op, Op::WaitIrq { .. }) || (matches!(op, Op::Rx { .. } | Op::CompleteRx { .. }) && self.proto == PMode::Rx(RxM::Continuous));
            if !cancellable {
                return Ok(false);
            }
            self.classes.push("cancelled-wait");
            self.saw_loss_or_failure = true;
            // the dropped wait changes nothing: belief and chip as before
        }
        let belief = self.lora.verif_mode().0;
        let chip_standby = self.world.borrow().chip.standby();
        let chip_asleep = self.world.borrow().chip.plainly_asleep();
        let chip_rx = self.world.borrow().chip.receiving();
        let chip_mode = self.world.borrow().chip.mode_name();
        let continuous = self.proto == PMode::Rx(RxM::Continuous);

        // ---- result expectations + protocol model update
        match (&res, op) {
            // the rest of a sequence after an injected fault: the protocol state is unknown, a refusal or a
            // failure of the call is as good as a success; what counts is what the chip was made to do
            // (monitors above, values below)
            (Res::Err(_), _) if self.continuing => {}
            (Res::Err(e), Op::Tx { .. } | Op::Rx { .. } | Op::CompleteRx { .. } | Op::Cad { .. }) => {
                // failed because of a chip outcome (timeout, error flag)
                self.classes.push("chip-outcome-error");
                self.saw_loss_or_failure = true;
                let delivered_error = op.irq().iter().any(|e| e.has_error()) || self.carried_error;
                if !delivered_error {
                    return Err(self.viol(case, st, "clean-result", format!("unexpected-error/{name}/{e}"), format!("{name} returned {e} although the chip reported {:?}", op.irq())));
                }
                if self.recovering && !self.continuing {
                    return Err(self.viol(case, st, "after-fault", format!("{name}-fails-with-{e}"), format!("{name} returned {e}")));
                }
                if continuous {
                    // documented: the radio keeps receiving, the caller decides
                    if !chip_rx || belief_name(belief) != "Receive(Continuous)" {
                        return Err(self.viol(case, st, "I5", format!("i5/{name}/continuous-after-error"), format!("after {e} in continuous mode: chip {chip_mode}, driver believes {}", belief_name(belief))));
                    }
                } else {
                    if !chip_standby {
                        return Err(self.viol(case, st, "I4", format!("i4/{name}/chip-not-standby-after-{e}"), format!("{name} failed with {e} and left the chip in {chip_mode}")));
                    }
                    if belief != RadioMode::Standby {
                        return Err(self.viol(case, st, "I4", format!("i4/{name}/belief-{}-after-{e}", belief_name(belief)), format!("{name} failed with {e}; chip is in standby but the driver believes {}", belief_name(belief))));
                    }
                    self.proto = PMode::Standby;
                }
            }
            // a request the driver has to refuse: nothing is armed, the value in force stays, the radio is
            // left in standby (what the refused call did before it refused) and the driver knows it
            (Res::Err(_), Op::PrepTxOversize { .. }) => {
                self.classes.push("refused-request");
                self.proto = PMode::Standby;
            }
            (Res::Err(_), Op::SetSync { word }) if !self.board.is_126x() && *word & 0x0F0F != 0x0404 => {
                self.classes.push("refused-request");
                self.proto = PMode::Standby;
            }
            (Res::Err(e), _) => {
                return Err(self.viol(case, st, "clean-result", format!("unexpected-error/{name}/{e}"), format!("{name} returned {e} in a fault-free run with legal arguments")));
            }
            (Res::Pending, _) => {}
            (_, Op::Init) => self.proto = PMode::Standby,
            (_, Op::Sleep { .. }) => {
                self.proto = PMode::Sleep;
                self.saw_loss_or_failure = true;
                self.classes.push("sleep");
            }
            (_, Op::PrepTx { ch, len }) => {
                self.proto = PMode::TxReady;
                self.exp_freq = Some(CHANNELS[*ch as usize % 4].0);
                self.exp_payload = tx_payload_for(idx, *len);
            }
            (Res::Ok, Op::PrepTxOversize { .. }) => {
                return Err(self.viol(case, st, "clean-result", format!("oversize-payload-accepted/{name}"), "prepare_for_tx accepted a 256-octet payload".to_string()));
            }
            (_, Op::Tx { .. }) => self.proto = PMode::Standby,
            (_, Op::PrepRx { mode, ch }) => {
                self.proto = PMode::Rx(*mode);
                self.exp_freq = Some(CHANNELS[*ch as usize % 4].0);
            }
            (_, Op::StartRx) => {}
            (Res::OkRx(bytes), Op::Rx { .. } | Op::CompleteRx { .. }) => {
                // (a packet that a bare wait_for_irq let in earlier carries that step's payload)
                if leftover == 0 && !self.carried_done && !self.carried_error && op.irq().iter().any(|e| matches!(e, Ev::Done | Ev::CrcError | Ev::TimeoutDone)) && !op.irq().iter().any(|e| *e == Ev::DoneShortBuf) && *bytes != rx_payload_for(idx) {
                    return Err(self.viol(case, st, "clean-result", format!("rx-payload/{name}"), format!("{name} returned {} but the chip received {}", hex(bytes), hex(&rx_payload_for(idx)))));
                }
            }
            (_, Op::RxSwitch { ch }) => self.exp_freq = Some(CHANNELS[*ch as usize % 4].0),
            (_, Op::Listen { ch }) => {
                self.proto = PMode::Listen;
                self.exp_freq = Some(CHANNELS[*ch as usize % 4].0);
            }
            (_, Op::PrepCad { .. }) => self.proto = PMode::CadReady,
            (_, Op::Cad { .. }) => self.proto = PMode::Standby,
            (_, Op::SetSync { word }) => {
                self.proto = PMode::Standby;
                self.sync = *word;
            }
            _ => {}
        }

        // ---- outcomes a bare wait_for_irq leaves latched for the next operation
        match op {
            Op::WaitIrq { irq } => {
                if let Some(t) = self.world.borrow().terminal_in_op.clone() {
                    self.carried_terminal = Some(t);
                }
                if self.world.borrow().chip.irq_line() {
                    if irq.iter().any(|e| e.has_error()) {
                        self.carried_error = true;
                    }
                    if irq.iter().any(|e| e.has_done()) {
                        self.carried_done = true;
                    }
                }
            }
            // a call that sets up a new operation: what an abandoned operation left latched does not
            // belong to the new one (a flag that leaks into it is the stale-flag defect)
            Op::Init | Op::Sleep { .. } | Op::PrepTx { .. } | Op::PrepTxOversize { .. } | Op::PrepRx { .. } | Op::PrepCad { .. } | Op::Listen { .. } | Op::SetSync { .. } => {
                self.carried_error = false;
                self.carried_done = false;
                self.carried_terminal = None;
            }
            // any other call: forgotten as soon as no interrupt flag is pending any more (the call
            // processed or cleared it)
            _ => {
                if !self.world.borrow().chip.irq_line() {
                    self.carried_error = false;
                    self.carried_done = false;
                    self.carried_terminal = None;
                }
            }
        }

        // ---- I3 on values: what went on air / what the receiver listens to is what was asked for
        {
            let w = self.world.borrow();
            let (tx_now, rx_now) = (w.chip.tx_count(), w.chip.rx_starts());
            if tx_now > tx_before || rx_now > rx_before {
                if self.saw_loss_or_failure {
                    self.nontrivial = true;
                }
                let (freq, sync_ok, payload): (u32, bool, Option<Vec<u8>>) = match &w.chip {
                    Chip::C126(c) => {
                        let s = [*c.regs.get(&0x0740).unwrap_or(&0), *c.regs.get(&0x0741).unwrap_or(&0)];
                        (c.freq_raw, s == self.sync.to_be_bytes() || Some(s) == self.sync_alt.map(|x| x.to_be_bytes()), if tx_now > tx_before { c.tx_log.last().map(|t| t.payload.clone()) } else { None })
                    }
                    Chip::C127(c) => {
                        let leg = |w: u16| {
                            let [hi, lo] = w.to_be_bytes();
                            (hi & 0xF0) | (lo >> 4)
                        };
                        (((c.regs[6] as u32) << 16) | ((c.regs[7] as u32) << 8) | c.regs[8] as u32, c.regs[0x39] == leg(self.sync) || Some(c.regs[0x39]) == self.sync_alt.map(leg), if tx_now > tx_before { c.tx_log.last().map(|t| t.payload.clone()) } else { None })
                    }
                };
                let what = if tx_now > tx_before { "tx" } else { "rx" };
                if !sync_ok && !matches!(op, Op::Listen { .. }) {
                    return Err(self.viol(case, st, "I3", format!("i3/value/{what}/sync-word"), format!("{name} started {what} with a sync word different from the configured {:#06x}", self.sync)));
                }
                if let Some(hz) = self.exp_freq {
                    let (lo, hi) = frf_of(self.board, hz);
                    // the application went on after a call that failed on an injected fault: that call may have
                    // replaced nothing (the earlier request is still in force) or have been interrupted between two
                    // register writes of one value (SX127x: RegFrf is three writes) - the value is not judged then
                    let _ = &self.exp_freq_before_fault;
                    if freq != lo && freq != hi && !self.continuing {
                        return Err(self.viol(case, st, "I3", format!("i3/value/{what}/frequency"), format!("{name} started {what} on PLL word {freq:#x}, requested {hz} Hz = {lo:#x}")));
                    }
                }
                if let Some(p) = payload {
                    let _ = &self.exp_payload_before_fault;
                    if p != self.exp_payload && !self.continuing {
                        return Err(self.viol(case, st, "I3", format!("i3/value/tx/payload"), format!("{name} sent {} instead of {}", hex(&p), hex(&self.exp_payload))));
                    }
                }
            }
        }

        if self.recovering {
            // after an injected bus fault only I2, I3 and success of the next sequence are required
            return Ok(true);
        }
        // ---- I5: belief against chip at the quiescent point
        let b = belief_name(belief);
        match belief {
            RadioMode::Sleep if !chip_asleep => return Err(self.viol(case, st, "I5", format!("i5/{name}/belief-Sleep-chip-awake"), format!("after {name}: driver believes Sleep, chip is in {chip_mode}"))),
            RadioMode::Standby if !chip_standby => return Err(self.viol(case, st, "I5", format!("i5/{name}/belief-Standby-chip-elsewhere"), format!("after {name}: driver believes Standby, chip is in {chip_mode}"))),
            RadioMode::Transmit | RadioMode::Receive(_) | RadioMode::Listen | RadioMode::ChannelActivityDetection if chip_asleep => {
                return Err(self.viol(case, st, "I5", format!("i5/{name}/belief-{b}-chip-asleep"), format!("after {name}: driver believes {b}, chip sleeps")))
            }
            _ => {}
        }
        // the rest of the driver's belief (hook verif_mode(): cold_start, calibrate_image): a driver
        // that neither plans a cold start nor an image calibration believes the chip still holds
        // the calibration of the operating band
        let (_, cold_start, calibrate_image) = self.lora.verif_mode();
        if let Some(false) = self.world.borrow().chip.image_calibrated() {
            if !cold_start && !calibrate_image {
                return Err(self.viol(case, st, "I5", format!("i5/{name}/belief-image-calibrated-chip-lost-it"), format!("after {name}: the driver plans neither a cold start nor an image calibration (cold_start = false, calibrate_image = false), but the chip has lost its configuration and no CalibrateImage has been issued since")));
            }
        }
        let started = matches!((&res, op), (Res::Ok, Op::StartRx | Op::RxSwitch { .. } | Op::Listen { .. })) || (res == Res::Pending && matches!(op, Op::Rx { .. }));
        if started && !chip_rx {
            return Err(self.viol(case, st, "I5", format!("i5/{name}/reception-not-running"), format!("after {name} returned {res:?} the chip is in {chip_mode}, not receiving")));
        }
        if let Some(pb) = proto_belief(self.proto) {
            if pb != b {
                return Err(self.viol(case, st, "I5", format!("i5/{name}/belief-{b}-protocol-{pb}"), format!("after {name}: driver believes {b}, the call history implies {pb}")));
            }
        }
        Ok(true)
    }
}

fn make_world(board: Board) -> Shared {
    match board {
        Board::Sx1261 | Board::Sx1262 => World::new(Chip::C126(Chip126x::new(Board126 { dcdc: false, tcxo: false }))),
        Board::Sx1262DcdcTcxo => World::new(Chip::C126(Chip126x::new(Board126 { dcdc: true, tcxo: true }))),
        Board::Sx1276 => World::new(Chip::C127(Chip127x::new(true))),
        Board::Sx1272 => World::new(Chip::C127(Chip127x::new(false))),
    }
}

pub fn run_case(case: &Case) -> RunOut {
    let world = make_world(case.board);
    world.borrow_mut().fault_at = case.fault_at;
    world.borrow_mut().fault_sel = case.fault_sel.clone();
    let (s, i) = (WSpi(world.clone()), WIv(world.clone()));
    match case.board {
        Board::Sx1261 => interp(Sx126x::new(s, i, sx126x::Config { chip: Sx1261, tcxo_ctrl: None, use_dcdc: false, rx_boost: false }), world, case),
        Board::Sx1262 => interp(Sx126x::new(s, i, sx126x::Config { chip: Sx1262, tcxo_ctrl: None, use_dcdc: false, rx_boost: true }), world, case),
        Board::Sx1262DcdcTcxo => interp(Sx126x::new(s, i, sx126x::Config { chip: Sx1262, tcxo_ctrl: Some(TcxoCtrlVoltage::Ctrl1V7), use_dcdc: true, rx_boost: false }), world, case),
        Board::Sx1276 => interp(Sx127x::new(s, i, sx127x::Config { chip: Sx1276, tcxo_used: false, tx_boost: true, rx_boost: false }), world, case),
        Board::Sx1272 => interp(Sx127x::new(s, i, sx127x::Config { chip: Sx1272, tcxo_used: true, tx_boost: false, rx_boost: true }), world, case),
    }
}

fn interp<RK: RadioKind>(rk: RK, world: Shared, case: &Case) -> RunOut {
    let mut out = RunOut { failure: None, interactions: 0, nontrivial: false, classes: vec![], ended: "completed" };
    let cj = case.to_json();
    // ---- construction (runs init)
    world.borrow_mut().cur_op = "new".into();
    let ctor = case.ctor;
    let built = catch(move || match ctor {
        1 => poll_once(LoRa::new(rk, false, WDelay)),
        2 => poll_once(LoRa::with_syncword(rk, 0xAB, WDelay)),
        3 => poll_once(LoRa::with_syncword(rk, 0x34, WDelay)),
        _ => poll_once(LoRa::new(rk, true, WDelay)),
    });
    let lora = match built {
        Err(p) => {
            out.failure = Some(Failure::new("I4", cj, format!("LoRa::new panicked: {p}")).with_fp(format!("i4/{}", panic_fp(&p))));
            return out;
        }
        Ok(Poll::Pending) => {
            out.ended = "blocked";
            return out;
        }
        Ok(Poll::Ready(Err(e))) => {
            let hit = world.borrow().fault_hit.clone();
            if hit.is_none() {
                out.failure = Some(Failure::new("clean-result", cj, format!("LoRa::new failed with {e:?} without any injected fault")).with_fp(format!("unexpected-error/new/{e:?}")));
            }
            out.ended = "fault-in-constructor";
            out.interactions = world.borrow().inter;
            return out;
        }
        Ok(Poll::Ready(Ok(l))) => l,
    };
    if world.borrow().fault_hit.is_some() {
        let hit = world.borrow().fault_hit.clone().unwrap_or_default();
        out.failure = Some(Failure::new("fault-not-swallowed", cj, format!("{hit} failed but LoRa::new returned Ok")).with_fp("fault-swallowed/new".to_string()));
        return out;
    }
    let viols: Vec<crate::chip126x::Viol> = std::mem::take(world.borrow_mut().chip.viols());
    if let Some(v) = viols.first() {
        out.failure = Some(Failure::new(v.rule, cj, v.detail.clone()).with_fp(v.fp.clone()));
        return out;
    }
    let mut it = Interp { lora, world: world.clone(), board: case.board, proto: PMode::Standby, sync: ctor_sync(case.ctor), sync_alt: None, recovering: false, continuing: false, exp_freq: None, exp_payload: vec![], exp_freq_before_fault: None, exp_payload_before_fault: None, saw_loss_or_failure: false, nontrivial: false, classes: vec![], carried_error: false, carried_done: false, carried_terminal: None };
    let mut faulted = false;
    let mut fault_idx = 0usize;
    for (idx, op) in case.ops.iter().enumerate() {
        fault_idx = idx;
        match it.step(case, idx, op) {
            Err(f) => {
                out.failure = Some(f);
                out.ended = "violation";
                break;
            }
            Ok(true) => {}
            Ok(false) => {
                if world.borrow().fault_hit.is_some() {
                    faulted = true;
                    out.ended = "fault";
                } else {
                    out.ended = "blocked";
                }
                break;
            }
        }
    }
    out.interactions = world.borrow().inter;
    // ---- after an injected bus fault: the next fault-free prepare + tx / prepare + rx must work
    if faulted && out.failure.is_none() {
        it.classes.push("fault-recovery");
        it.proto = PMode::Unknown;
        it.recovering = true;
        it.saw_loss_or_failure = true;
        world.borrow_mut().fault_at = None;
        world.borrow_mut().fault_sel = None;
        let rec: Vec<Op> = match case.recovery {
            Some(Recovery::Tx) => vec![Op::PrepTx { ch: 2, len: 6 }, Op::Tx { irq: vec![Ev::Done] }],
            Some(Recovery::Rx) => vec![Op::PrepRx { mode: RxM::Single(30), ch: 3 }, Op::Rx { irq: vec![Ev::Done] }],
            Some(Recovery::Continue) => {
                it.continuing = true;
                it.classes.push("continues-after-fault");
                case.ops[fault_idx + 1..].to_vec()
            }
            None => vec![],
        };
        let base = if it.continuing { fault_idx + 1 } else { case.ops.len() };
        for (j, op) in rec.iter().enumerate() {
            // an SX126x left in RX duty cycle by the faulted operation: the phase input still applies
            match it.step(case, base + j, op) {
                Err(mut f) => {
                    f.fingerprint = format!("after-fault/{}", f.fingerprint);
                    f.detail = format!("after the injected fault ({}): {}", world.borrow().fault_hit.clone().unwrap_or_default(), f.detail);
                    out.failure = Some(f);
                    out.ended = "violation";
                    break;
                }
                Ok(true) => {}
                Ok(false) if it.continuing => break,
                Ok(false) => {
                    let mut cj = case.to_json();
                    cj["failing_step"] = json!(base + j);
                    out.failure = Some(Failure::new("after-fault", cj, format!("recovery step {} did not complete after {}", op.name(), world.borrow().fault_hit.clone().unwrap_or_default())).with_fp(format!("after-fault/{}-blocked", op.name())));
                    out.ended = "violation";
                    break;
                }
            }
        }
    }
    out.nontrivial = it.nontrivial;
    out.classes = it.classes;
    out
}

// ---------------------------------------------------------------- known findings

pub const KF_CAD: &str = "C14-cad-spurious-irq-unreachable";
pub const KF_DUTY_SWITCH: &str = "C14-dutycycle-rx-switch-channel-no-wake";
pub const KF_DUTY_START: &str = "C14-dutycycle-start-rx-no-wake";
pub const KF_DUTY_COMPLETE: &str = "C14-dutycycle-complete-rx-polls-sleeping-chip";

/// Which active known finding explains this failure of this case: the input must match the
/// finding's trigger AND the fingerprint must be the listed one.
pub const KF_INIT_MODE: &str = "C14-failed-init-keeps-stale-radio-mode";
pub const KF_LORA_MODE: &str = "C14-sx127x-failed-reset-leaves-fsk-mode";
pub const KF_STALE_IRQ: &str = "C14-sx126x-stale-irq-flags-after-failed-clear";

pub fn tolerated(kf: &KnownFindings, case: &Case, f: &Failure) -> Option<&'static str> {
    let step = f.case["failing_step"].as_u64().map(|x| x as usize)?;
    let fp = f.fingerprint.as_str();
    // ---- findings that need an injected bus fault: the trigger is where the fault hit
    if case.fault_at.is_some() || case.fault_sel.is_some() {
        let during = f.case["fault"]["during"].as_str().unwrap_or("");
        let kind = f.case["fault"]["kind"].as_str().unwrap_or("");
        let first = f.case["fault"]["spi_first_byte"].as_u64();
        if !case.board.is_126x() && during == "init" {
            // trigger: init() of an SX127x fails between the reset pulse and the end of init
            if kf.is_active(KF_INIT_MODE) && fp == "after-fault/i2-sleep/prepare_for_tx/fifo-write" {
                return Some(KF_INIT_MODE);
            }
            if kf.is_active(KF_LORA_MODE) && fp == "after-fault/i3/sx127x/missing:lora-mode" {
                return Some(KF_LORA_MODE);
            }
        }
        // trigger: the SPI transfer of ClearIrqStatus (opcode 0x02) of an SX126x fails
        if case.board.is_126x() && kind == "spi" && first == Some(0x02) && kf.is_active(KF_STALE_IRQ) && (fp == "after-fault/unexpected-error/tx/TransmitTimeout" || fp == "after-fault/unexpected-error/rx/ReceiveTimeout") {
            return Some(KF_STALE_IRQ);
        }
        return None;
    }
    // second trigger of the stale-interrupt-flag finding (no fault needed): an earlier
    // wait_for_irq() consumed a timeout interrupt that nobody processed or cleared
    if case.board.is_126x() && kf.is_active(KF_STALE_IRQ) {
        let abandoned = case.ops.iter().take(step).any(|o| matches!(o, Op::WaitIrq { irq } if irq.iter().any(|e| e.has_timeout())));
        if abandoned && ["unexpected-error/rx/ReceiveTimeout", "unexpected-error/complete_rx/ReceiveTimeout", "unexpected-error/tx/TransmitTimeout"].contains(&fp) {
            return Some(KF_STALE_IRQ);
        }
    }
    let op = case.ops.get(step)?;
    let phase_sleep = *case.duty_sleep_phase.get(step).unwrap_or(&false);
    match op {
        // trigger: the first interrupt of a CAD carries no CadDone flag
        Op::Cad { irq } if irq.first().map(|e| !matches!(e, Ev::Done | Ev::DoneDetected)).unwrap_or(false) => {
            if kf.is_active(KF_CAD) && fp == "i4/panic: internal error: entered unreachable code @ lora-phy/src/lib.rs" {
                return Some(KF_CAD);
            }
        }
        // trigger: the call starts while an SX126x in RX duty cycle is in its sleep phase
        Op::RxSwitch { .. } if phase_sleep && kf.is_active(KF_DUTY_SWITCH) && fp == "i2-dutycycle/rx_switch_channel/op80" => return Some(KF_DUTY_SWITCH),
        Op::StartRx if phase_sleep && kf.is_active(KF_DUTY_START) && fp == "i2-dutycycle/start_rx/op9f" => return Some(KF_DUTY_START),
        Op::Rx { .. } if phase_sleep && kf.is_active(KF_DUTY_START) && fp == "i2-dutycycle/rx/op9f" => return Some(KF_DUTY_START),
        Op::CompleteRx { .. } if phase_sleep && kf.is_active(KF_DUTY_COMPLETE) && fp == "i2-dutycycle/complete_rx/op12" => return Some(KF_DUTY_COMPLETE),
        // stale-flag finding, third way it shows: the interrupt line is still asserted by the flag
        // of an abandoned wait_for_irq(), so complete_rx() polls a chip in its duty-cycle sleep phase
        Op::CompleteRx { .. } | Op::Rx { .. }
            if phase_sleep && kf.is_active(KF_STALE_IRQ) && (fp == "i2-dutycycle/complete_rx/op12" || fp == "i2-dutycycle/rx/op12") && case.ops.iter().take(step).any(|o| matches!(o, Op::WaitIrq { irq } if !irq.is_empty())) =>
        {
            return Some(KF_STALE_IRQ)
        }
        _ => {}
    }
    None
}

// ---------------------------------------------------------------- generators

pub fn alphabet(board: Board) -> Vec<Op> {
    let mut a = vec![
        Op::Init,
        Op::Sleep { warm: true },
        Op::Sleep { warm: false },
        Op::PrepTx { ch: 0, len: 4 },
        Op::PrepTxOversize { ch: 1 },
        Op::Tx { irq: vec![Ev::Done] },
        Op::Tx { irq: vec![Ev::Timeout] },
        Op::Tx { irq: vec![Ev::Spurious, Ev::Done] },
        Op::PrepRx { mode: RxM::Single(20), ch: 0 },
        Op::PrepRx { mode: RxM::Continuous, ch: 1 },
        Op::StartRx,
        Op::CompleteRx { irq: vec![Ev::Done] },
        Op::CompleteRx { irq: vec![Ev::Timeout] },
        Op::Rx { irq: vec![Ev::Done] },
        Op::Rx { irq: vec![Ev::Timeout] },
        Op::Rx { irq: vec![Ev::CrcError] },
        Op::Rx { irq: vec![Ev::Preamble, Ev::Done] },
        Op::Rx { irq: vec![Ev::DoneShortBuf] },
        Op::Rx { irq: vec![Ev::Spurious, Ev::Timeout] },
        Op::Rx { irq: vec![] },
        Op::Rx { irq: vec![Ev::Preamble] },
        // several conditions latched in one status read: the terminal one decides
        Op::Rx { irq: vec![Ev::PreambleTimeout] },
        Op::CompleteRx { irq: vec![Ev::HeaderValid, Ev::HeaderValidTimeout] },
        Op::RxSwitch { ch: 2 },
        Op::Listen { ch: 3 },
        Op::PrepCad { ch: 0 },
        Op::Cad { irq: vec![Ev::Done] },
        Op::Cad { irq: vec![Ev::DoneDetected] },
        Op::Cad { irq: vec![Ev::Spurious, Ev::Done] },
        Op::SetSync { word: 0x1424 },
        Op::WaitIrq { irq: vec![] },
        Op::WaitIrq { irq: vec![Ev::Done] },
    ];
    if board.is_126x() {
        a.push(Op::PrepRx { mode: RxM::Duty, ch: 0 });
        a.push(Op::Rx { irq: vec![Ev::HeaderError, Ev::Timeout] });
    }
    a
}

fn has_duty(ops: &[Op]) -> bool {
    ops.iter().any(|o| matches!(o, Op::PrepRx { mode: RxM::Duty, .. }))
}

pub struct Env {
    pub kf: KnownFindings,
}

/// runs one case, books statistics, applies the known-finding tolerance
pub fn eval_case(st: &mut Stats, env: &Env, case: &Case, class: &'static str) -> RunOut {
    st.eval();
    st.class(class);
    let out = run_case(case);
    for c in &out.classes {
        st.class(c);
    }
    st.class(match out.ended {
        "blocked" => "ended-blocked-on-environment",
        "fault" => "ended-at-injected-fault",
        "fault-in-constructor" => "fault-in-constructor",
        "violation" => "ended-violation-or-known",
        _ => "ended-completed",
    });
    if out.nontrivial {
        st.nt_hash(hash_value(&case.to_json()));
        if st.want_sample() && st.evaluations % 4099 == 7 {
            st.sample(case.to_json());
        }
    }
    if let Some(f) = &out.failure {
        match tolerated(&env.kf, case, f) {
            Some(id) => st.excluded(id),
            None => st.fail(f.clone()),
        }
    }
    out
}

fn seq_of(alpha: &[Op], mut n: u64, depth: usize) -> Vec<Op> {
    let a = alpha.len() as u64;
    let mut v = Vec::with_capacity(depth);
    for _ in 0..depth {
        v.push(alpha[(n % a) as usize].clone());
        n /= a;
    }
    v
}

/// Exhaustive enumeration of all API sequences `prefix ++ s` with |s| = depth (every prefix is
/// judged on the way, so shorter sequences are covered too). Sequences that put an SX126x into RX
/// duty cycle are run for both phase inputs.
pub fn exhaustive(st: &mut Stats, env: &Env, board: Board, prefix: &[Op], depth: usize, ti: usize, nthreads: usize) {
    let alpha = alphabet(board);
    let total = (alpha.len() as u64).pow(depth as u32);
    let mut n = ti as u64;
    let class = if prefix.is_empty() { "exhaustive-sequence" } else { "exhaustive-after-prefix" };
    while n < total {
        let mut ops = prefix.to_vec();
        ops.extend(seq_of(&alpha, n, depth));
        let duty = has_duty(&ops);
        eval_case(st, env, &Case::plain(board, ops.clone(), false), class);
        if duty {
            eval_case(st, env, &Case::plain(board, ops, true), class);
        }
        n += nthreads as u64;
    }
}

/// Histories that put the radio into the situations the property is about, used as prefixes of
/// exhaustive suffix enumeration: cold / warm sleep, a timed-out reception and transmission, a
/// cancelled continuous reception, a running RX duty cycle (SX126x).
pub fn prefixes(board: Board) -> Vec<Vec<Op>> {
    let mut v = vec![
        vec![Op::Sleep { warm: false }],
        vec![Op::Sleep { warm: true }],
        vec![Op::PrepRx { mode: RxM::Single(20), ch: 0 }, Op::Rx { irq: vec![Ev::Timeout] }],
        vec![Op::PrepTx { ch: 1, len: 9 }, Op::Tx { irq: vec![Ev::Timeout] }],
        vec![Op::PrepRx { mode: RxM::Continuous, ch: 2 }, Op::Rx { irq: vec![] }],
        vec![Op::SetSync { word: 0x5464 }, Op::Sleep { warm: false }],
    ];
    // a 16-bit sync word that is not the image of a single-byte word (SX127x: a request the driver refuses -
    // the word in force stays), then a configuration loss
    v.push(vec![Op::SetSync { word: 0xAB12 }, Op::Sleep { warm: false }]);
    // a transmission whose preparation is refused (256-octet payload) after one that was prepared on another channel
    v.push(vec![Op::PrepTx { ch: 2, len: 7 }, Op::PrepTxOversize { ch: 3 }]);
    if board.is_126x() {
        v.push(vec![Op::PrepRx { mode: RxM::Duty, ch: 0 }, Op::StartRx]);
    }
    v
}

/// Fault enumeration: for every base sequence (all sequences of `depth`), fail exactly the k-th
/// interaction, for every k, followed by a fault-free prepare+tx and (separately) prepare+rx.
pub fn fault_enumeration(st: &mut Stats, env: &Env, board: Board, prefix: &[Op], depth: usize, stride: u64, ti: usize, nthreads: usize) {
    let alpha = alphabet(board);
    let total = (alpha.len() as u64).pow(depth as u32);
    // interactions of the constructor alone (identical for every sequence): enumerated once
    let ctor = run_case(&Case::plain(board, vec![], false)).interactions;
    if ti == 0 && prefix.is_empty() {
        for k in 0..ctor {
            let mut c = Case::plain(board, vec![], false);
            c.fault_at = Some(k);
            eval_case(st, env, &c, "fault-variant");
        }
    }
    let mut n = (ti as u64) * stride;
    while n < total {
        let mut ops = prefix.to_vec();
        ops.extend(seq_of(&alpha, n, depth));
        n += nthreads as u64 * stride;
        let base = Case::plain(board, ops, false);
        let out = run_case(&base);
        if out.failure.is_some() {
            continue; // judged by the exhaustive generator
        }
        for k in ctor..out.interactions {
            for rec in [Recovery::Tx, Recovery::Rx, Recovery::Continue] {
                let mut c = base.clone();
                c.fault_at = Some(k);
                c.recovery = Some(rec);
                eval_case(st, env, &c, "fault-variant");
            }
        }
    }
}

/// Re-initialisation after activity: for every sequence s of `depth` calls, the history
/// s ++ [init] with a fault at every interaction of that second init() (the interactions of s are
/// skipped: `fault_enumeration` covers them), followed by a fault-free prepare+tx and,
/// separately, prepare+rx. `stride` thins the base sequences.
pub fn fault_enumeration_reinit(st: &mut Stats, env: &Env, board: Board, depth: usize, stride: u64, ti: usize, nthreads: usize) {
    let alpha = alphabet(board);
    let total = (alpha.len() as u64).pow(depth as u32);
    let mut n = (ti as u64) * stride;
    while n < total {
        let before = seq_of(&alpha, n, depth);
        n += nthreads as u64 * stride;
        let first = run_case(&Case::plain(board, before.clone(), false));
        if first.failure.is_some() || first.ended != "completed" {
            continue; // judged by the exhaustive generator / the history cannot continue
        }
        let mut ops = before;
        ops.push(Op::Init);
        let base = Case::plain(board, ops, false);
        let out = run_case(&base);
        if out.failure.is_some() {
            continue;
        }
        for k in first.interactions..out.interactions {
            for rec in [Recovery::Tx, Recovery::Rx] {
                let mut c = base.clone();
                c.fault_at = Some(k);
                c.recovery = Some(rec);
                eval_case(st, env, &c, "fault-in-reinit-after-activity");
            }
        }
    }
}

/// The interrupt outcomes a reception can show: single conditions and sets of flags latched
/// together before the host reads the status once (see `Ev`).
pub fn rx_outcomes(board: Board) -> Vec<Ev> {
    let mut v = vec![Ev::Done, Ev::Timeout, Ev::CrcError, Ev::Preamble, Ev::HeaderValid, Ev::Spurious, Ev::PreambleTimeout, Ev::HeaderValidTimeout, Ev::TimeoutDone, Ev::DoneShortBuf];
    if board.is_126x() {
        v.extend([Ev::HeaderError, Ev::HeaderErrorTimeout]);
    }
    v
}

/// Exhaustive over the interrupt outcomes of the rx-type operations: every script of one or two
/// status reads over `rx_outcomes` (informational sets first and a terminal set in the next read
/// are among them), for rx / start_rx+complete_rx / start_rx+wait_for_irq+complete_rx (the first
/// outcome already latched when complete_rx polls), in Single, Continuous and (SX126x) DutyCycle
/// mode with both phase inputs, each followed by calls that expose a driver whose belief no longer
/// matches the chip (start_rx must be refused after a terminal failure, the next transmission and
/// reception must be set up from standby, sleep). CAD and TX outcome sets likewise.
pub fn outcome_enumeration(st: &mut Stats, env: &Env, board: Board, ti: usize, nthreads: usize) {
    let evs = rx_outcomes(board);
    let mut scripts: Vec<Vec<Ev>> = evs.iter().map(|e| vec![*e]).collect();
    for a in &evs {
        for b in &evs {
            scripts.push(vec![*a, *b]);
        }
    }
    let mut modes = vec![RxM::Single(20), RxM::Continuous];
    if board.is_126x() {
        modes.push(RxM::Duty);
    }
    let follow: Vec<Vec<Op>> = vec![
        vec![],
        vec![Op::StartRx, Op::CompleteRx { irq: vec![Ev::Done] }],
        vec![Op::PrepTx { ch: 1, len: 5 }, Op::Tx { irq: vec![Ev::Done] }],
        vec![Op::PrepRx { mode: RxM::Single(20), ch: 2 }, Op::Rx { irq: vec![Ev::Done] }],
        vec![Op::Sleep { warm: false }, Op::PrepRx { mode: RxM::Single(20), ch: 2 }, Op::Rx { irq: vec![Ev::Timeout] }],
    ];
    let mut k = 0usize;
    let mut run = |st: &mut Stats, ops: Vec<Op>, duty: bool| {
        k += 1;
        if k % nthreads != ti {
            return;
        }
        eval_case(st, env, &Case::plain(board, ops.clone(), false), "interrupt-outcome-sets");
        if duty {
            eval_case(st, env, &Case::plain(board, ops, true), "interrupt-outcome-sets");
        }
    };
    for mode in &modes {
        let duty = *mode == RxM::Duty;
        for sc in &scripts {
            for f in &follow {
                let prep = Op::PrepRx { mode: *mode, ch: 0 };
                let mut a = vec![prep.clone(), Op::Rx { irq: sc.clone() }];
                a.extend(f.iter().cloned());
                run(st, a, duty);
                let mut b = vec![prep.clone(), Op::StartRx, Op::CompleteRx { irq: sc.clone() }];
                b.extend(f.iter().cloned());
                run(st, b, duty);
                // the first outcome is let in by a bare wait_for_irq: it is already latched when
                // complete_rx polls the status for the first time
                let mut c = vec![prep, Op::StartRx, Op::WaitIrq { irq: vec![sc[0]] }, Op::CompleteRx { irq: sc[1..].to_vec() }];
                c.extend(f.iter().cloned());
                // (not with the duty-cycle sleep phase while informational flags of the abandoned
                // wait keep the interrupt line asserted: see the report on that input)
                let informational_pending = !sc[0].has_done() && !sc[0].has_timeout() && sc[0] != Ev::Spurious;
                run(st, c, duty && !informational_pending);
            }
        }
    }
    // CAD: CadDone alone, CadDone+CadDetected, each also after a read without any flag
    for sc in [vec![Ev::Done], vec![Ev::DoneDetected], vec![Ev::Spurious, Ev::Done], vec![Ev::Spurious, Ev::DoneDetected], vec![Ev::Spurious, Ev::Spurious, Ev::DoneDetected]] {
        for f in &follow {
            let mut a = vec![Op::PrepCad { ch: 0 }, Op::Cad { irq: sc.clone() }];
            a.extend(f.iter().cloned());
            run(st, a, false);
        }
    }
    // TX: TxDone, timeout, both latched together
    for sc in [vec![Ev::Done], vec![Ev::Timeout], vec![Ev::TimeoutDone], vec![Ev::Spurious, Ev::TimeoutDone], vec![Ev::Spurious, Ev::Timeout]] {
        for f in &follow {
            let mut a = vec![Op::PrepTx { ch: 0, len: 7 }, Op::Tx { irq: sc.clone() }];
            a.extend(f.iter().cloned());
            run(st, a, false);
        }
    }
}

// ---- random sequences (proptest)

use proptest::prelude::*;

fn ev_script(terminal: Vec<Ev>) -> impl Strategy<Value = Vec<Ev>> {
    (proptest::collection::vec(prop_oneof![Just(Ev::Spurious), Just(Ev::Preamble), Just(Ev::HeaderValid)], 0..=2), proptest::sample::select(terminal), any::<bool>()).prop_map(|(mut pre, t, cut)| {
        if !cut || pre.is_empty() {
            pre.push(t);
        }
        pre
    })
}

fn fragment(is126: bool) -> impl Strategy<Value = Vec<Op>> {
    let rx_terms = if is126 { vec![Ev::Done, Ev::Done, Ev::DoneShortBuf, Ev::Timeout, Ev::CrcError, Ev::HeaderError, Ev::PreambleTimeout, Ev::HeaderValidTimeout, Ev::HeaderErrorTimeout, Ev::TimeoutDone] } else { vec![Ev::Done, Ev::Done, Ev::DoneShortBuf, Ev::Timeout, Ev::CrcError, Ev::PreambleTimeout, Ev::HeaderValidTimeout, Ev::TimeoutDone] };
    let modes: Vec<RxM> = if is126 { vec![RxM::Single(5), RxM::Single(300), RxM::Continuous, RxM::Duty] } else { vec![RxM::Single(5), RxM::Single(300), RxM::Continuous] };
    let rxs = ev_script(rx_terms.clone());
    let rxs2 = ev_script(rx_terms);
    prop_oneof![
        3 => (0u8..4, 0u8..=40, ev_script(if is126 { vec![Ev::Done, Ev::Done, Ev::Timeout, Ev::TimeoutDone] } else { vec![Ev::Done, Ev::Done, Ev::Timeout] })).prop_map(|(ch, len, irq)| vec![Op::PrepTx { ch, len }, Op::Tx { irq }]),
        3 => (proptest::sample::select(modes.clone()), 0u8..4, rxs).prop_map(|(mode, ch, irq)| vec![Op::PrepRx { mode, ch }, Op::Rx { irq }]),
        2 => (proptest::sample::select(modes), 0u8..4, rxs2, any::<bool>()).prop_map(|(mode, ch, irq, sw)| if sw { vec![Op::PrepRx { mode, ch }, Op::StartRx, Op::RxSwitch { ch: ch + 1 }, Op::CompleteRx { irq }] } else { vec![Op::PrepRx { mode, ch }, Op::StartRx, Op::CompleteRx { irq }] }),
        2 => any::<bool>().prop_map(|warm| vec![Op::Sleep { warm }]),
        1 => (0u8..4, ev_script(vec![Ev::Done, Ev::DoneDetected])).prop_map(|(ch, irq)| vec![Op::PrepCad { ch }, Op::Cad { irq }]),
        1 => Just(vec![Op::Init]),
        1 => (0u8..4).prop_map(|ch| vec![Op::Listen { ch }]),
        // SX126x: any 16-bit word is a legal sync word (also those that are not the image 0xY4Z4 of a
        // single-byte word); the SX127x driver refuses words without a single-byte form
        1 => proptest::sample::select(if is126 { vec![0x1424u16, 0x3444, 0x5464, 0xF4F4, 0xAB12, 0x0000, 0xFFFF, 0x1234, 0x4141] } else { vec![0x1424u16, 0x3444, 0x5464, 0xF4F4, 0xAB12] }).prop_map(|word| vec![Op::SetSync { word }]),
        1 => proptest::sample::select(vec![vec![], vec![Ev::Done], vec![Ev::Spurious], vec![Ev::Timeout], vec![Ev::PreambleTimeout], vec![Ev::TimeoutDone]]).prop_map(|irq| vec![Op::WaitIrq { irq }]),
        // lone calls (mostly wrong-mode)
        1 => proptest::sample::select(vec![Op::Tx { irq: vec![Ev::Done] }, Op::StartRx, Op::Rx { irq: vec![Ev::Done] }, Op::CompleteRx { irq: vec![Ev::Done] }, Op::Cad { irq: vec![Ev::Done] }, Op::RxSwitch { ch: 1 }]).prop_map(|o| vec![o]),
    ]
}

pub fn random_case() -> impl Strategy<Value = Case> {
    (0usize..BOARDS.len()).prop_flat_map(|b| {
        let board = BOARDS[b];
        (proptest::collection::vec(fragment(board.is_126x()), 1..=12), proptest::collection::vec(any::<bool>(), 30)).prop_map(move |(frags, phases)| {
            let mut ops: Vec<Op> = frags.into_iter().flatten().collect();
            ops.truncate(30);
            let n = ops.len();
            let ctor = ctor_of(board, &ops);
            Case { board, ops, duty_sleep_phase: phases[..n].to_vec(), fault_at: None, fault_sel: None, recovery: None, ctor }
        })
    })
}

pub fn random_sequences(st: &mut Stats, env: &Env, cases: u32, seed: u64) {
    let found = run_proptest(random_case(), cases, seed, st, |case, st| {
        st.eval();
        st.class("random-sequence");
        let out = run_case(case);
        for c in &out.classes {
            st.class(c);
        }
        if out.nontrivial {
            st.nt_hash(hash_value(&case.to_json()));
            if st.want_sample() {
                st.sample(case.to_json());
            }
        }
        match out.failure {
            Some(f) => match tolerated(&env.kf, case, &f) {
                Some(id) => {
                    st.excluded(id);
                    Ok(())
                }
                None => Err(f),
            },
            None => Ok(()),
        }
    });
    if let Some(f) = found {
        st.fail(f);
    }
}

pub fn replay(case: &Value, kf: &KnownFindings) -> Result<(), Failure> {
    if case["engine"].as_str() == Some("lorawan-adapter") {
        return super::c14_adapter::replay(case, kf);
    }
    let c = Case::from_json(case).ok_or_else(|| Failure::new("bad-replay", case.clone(), "cannot parse C14 case"))?;
    match run_case(&c).failure {
        None => Ok(()),
        Some(f) => match tolerated(kf, &c, &f) {
            Some(_) => Ok(()),
            None => Err(f),
        },
    }
}

pub fn run(ctx: &mut Ctx) {
    ctx.level = "fault_enumeration".into();
    ctx.exhaustive = false;
    let thorough = ctx.tier == Tier::Thorough;
    let env = Env { kf: ctx.kf.clone() };
    let seed = ctx.seed;
    let random_cases: u32 = if thorough { 400_000 } else { 80_000 };
    ctx.parallel(|ti, n, st| {
        for board in BOARDS {
            // all API sequences to depth 3 (quick) / 4 (thorough)
            exhaustive(st, &env, board, &[], if thorough { 4 } else { 3 }, ti, n);
            if !thorough && matches!(board, Board::Sx1262DcdcTcxo | Board::Sx1276) {
                exhaustive(st, &env, board, &[], 4, ti, n);
            }
            // ... and all suffixes after the histories the property is about
            for p in prefixes(board) {
                exhaustive(st, &env, board, &p, if thorough { 4 } else { 3 }, ti, n);
            }
            // a fault at every interaction of every sequence of depth 2 (quick) / 3 (thorough)
            fault_enumeration(st, &env, board, &[], if thorough { 3 } else { 2 }, 1, ti, n);
            for p in prefixes(board) {
                fault_enumeration(st, &env, board, &p, if thorough { 2 } else { 1 }, 1, ti, n);
            }
            // a second init() after every sequence of depth 2 (quick) / 3 (thorough, every 3rd),
            // with a fault at every interaction of that init
            fault_enumeration_reinit(st, &env, board, if thorough { 3 } else { 2 }, if thorough { 3 } else { 1 }, ti, n);
            // every set / two-read sequence of interrupt outcomes for the rx-type operations
            outcome_enumeration(st, &env, board, ti, n);
        }
        super::c14_adapter::run_part(st, &env, thorough, ti, n);
        random_sequences(st, &env, random_cases / n as u32 + 1, seed ^ (ti as u64).wrapping_mul(0x9E37_79B9_7F4A_7C15));
    });
    ctx.rule = "One evaluation = one executed history (LoRa::new + API calls + interrupt outcomes [+ one failed bus/line interaction + recovery sequence]) on a chip model, judged step by step by I1-I5. Generated: (a) every API sequence of depth 3 (quick; depth 4 for two boards) / 4 (thorough) over the alphabet listed in `alphabet`, for 5 boards, both duty-cycle phase inputs; (b) the same suffix enumeration after 6-7 prefixes (cold/warm sleep, timed-out RX and TX, cancelled continuous RX, sync word change + cold sleep, running RX duty cycle); (c) fault enumeration: for every sequence of depth 2 (quick) / 3 (thorough) and every prefix+depth-1 (2) sequence, one variant per bus/line interaction k (SPI transfer, BUSY wait, IRQ wait, reset, RF switch) failing exactly k, each followed by a fault-free prepare_for_tx+tx and, separately, prepare_for_rx+rx; (c') re-initialisation after activity: every sequence of depth 2 (quick) / every third of depth 3 (thorough) followed by init(), one variant per interaction of that init failing, same two recoveries; (c'') interrupt-outcome sets: chip outcomes are SETS of flags latched before one status read (preamble+timeout, header-valid+timeout, header-error+timeout [SX126x], timeout+done, done+CRC error = `crc-error`, preamble+sync+header+done = `done`, CadDone+CadDetected, TxDone+timeout [SX126x]) besides the single conditions; every script of one or two status reads over that alphabet (11 outcomes on SX126x, 9 on SX127x) for rx, start_rx+complete_rx and start_rx+wait_for_irq+complete_rx (first outcome already latched at complete_rx's first poll) in Single, Continuous and DutyCycle mode (both phase inputs), each followed by nothing / start_rx+complete_rx / prepare_for_tx+tx / prepare_for_rx+rx / cold sleep+prepare_for_rx+rx; CAD and TX outcome sets likewise; the random sequences and the adapter alphabet draw the sets too; (d) cancellation: wait_for_irq and rx/complete_rx in continuous mode dropped at every pending point their interrupt script reaches; (e) random sequences to depth 30 (proptest, shrinking); (f) the LorawanRadio adapter: all sequences of depth 4 (quick) / 5 (thorough) over its alphabet plus fault variants. Non-trivial (counted by hash of the case): the history contains a sleep, a failed/timed-out or a cancelled operation, or an injected fault, and a transmission or reception actually starts on the chip afterwards.".into();
    ctx.assumptions = vec![
        "chip126x/chip127x are the trusted base: datasheet-level models (mode machine, register file with reset values, buffer/FIFO, IRQ flags and masks, configuration loss at reset / cold-sleep wake-up) written from the SX1261/2 and SX1276/SX1272 datasheets with hard-coded opcodes and addresses".into(),
        "a failed SPI transfer does not reach the chip; a failed BUSY/IRQ wait or RF-switch call leaves the chip untouched; after an injected fault only I2, I3, 'the error is returned', 'no panic' and success of the next fault-free prepare+tx / prepare+rx are required (not I4/I5)".into(),
        "SX127x accepts a LongRangeMode change when the same RegOpMode write requests sleep mode (behaviour all known drivers rely on)".into(),
        "listen() is an RSSI measurement: at its SetRx only packet type/LoRa mode, frequency and modulation are required; CAD likewise".into(),
        "in RxMode::Continuous an error leaves the radio receiving by documented design (I5 instead of I4)".into(),
        "RX duty cycle only on SX126x; whether the chip is in its sleep phase when an API call starts is a generated input; right after SetRxDutyCycle the chip listens".into(),
        "the interrupt line is level sensitive (as in iv.rs); an interrupt outcome that is impossible in the chip's current mode appears as a spurious edge".into(),
        "flag sets: a terminal condition (RxDone, timeout, CRC error) read together with informational flags (preamble detected, sync word / header valid, header error) decides the outcome; timeout+done may be reported as either (packet delivered or timeout), done+CRC error likewise (as before); SX126x header error alone is informational (the modem keeps receiving), SX127x has no preamble / header-error interrupt in LoRa mode (ValidHeader is its informational flag); not generated: informational flags left latched by a bare wait_for_irq in RX duty cycle combined with the sleep-phase input for the following complete_rx (reported separately)".into(),
        "timeouts the chip cannot produce with the driver's settings (TX timeout with SetTx(0)) are still generated: the property quantifies over them".into(),
        "through LorawanRadio the driver's belief is private: only chip-side monitors (I2, I3), results, refusal of rx without setup (I1) and chip mode after timeouts are judged".into(),
        "not generated: process_irq_event/get_irq_state/get_rx_result/continuous_wave/get_rssi, payloads above 255 bytes, SX127x duty cycle (documented unsupported), dropping futures documented as not cancel-safe (tx, cad, complete_rx outside continuous mode: a blocked one ends the history)".into(),
    ];
    ctx.extra.insert("invariants".into(), json!({
        "I1": "an operation invoked in the wrong protocol state returns InvalidRadioMode with zero bus/line interactions",
        "I2": "no SPI command other than the GetStatus wake-up reaches a sleeping SX126x (also in the sleep phase of RX duty cycle); no FIFO access on a sleeping SX127x; no BUSY wait on a sleeping SX126x",
        "I3": "at SetTx/SetRx/SetRxDutyCycle (RegOpMode TX/RX): packet type/LoRa mode, sync word, regulator/TCXO when configured, buffer bases, modulation, packet and IRQ parameters, frequency (+payload for TX) programmed since the last configuration loss, and sync word / frequency / payload have the requested values",
        "I4": "an operation whose chip-side outcome is terminal (done, timeout, error set latched and signalled on the interrupt line - during the call or by a bare wait_for_irq before complete_rx) completes or fails: it must not clear the flags and keep waiting (outcome-lost); after an operation failed because of a chip outcome the chip is in standby and verif_mode() says Standby; a panic counts as a violation with the panic location as fingerprint",
        "I5": "after every call: (SX126x) cold_start = false and calibrate_image = false => CalibrateImage issued since the chip last lost its configuration; belief Sleep => chip asleep, belief Standby => chip in standby, belief TX/RX/CAD/Listen => chip not asleep, started reception => chip receiving, belief == what the call history implies",
    }));
}
