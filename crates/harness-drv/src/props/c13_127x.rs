//! C13, SX127x half: lora-phy's Sx127x driver versus Semtech's SWL2001 sx127x driver.
//!
//! The two drivers factor register traffic differently (burst vs single writes, shadow copies vs
//! read-back, IQ/errata registers written at parameter time vs at RX/TX start), so both byte
//! streams are executed on a register-file model (reg127.rs) with identical initial contents and
//! the chip-visible outcomes are compared: final register file, FIFO writes, operating-mode
//! sequence. Differences are only tolerated when they match an entry of the explicit allow-list
//! below (a named register, a bit mask, the datasheet/errata-mandated value, a reason); the
//! allow-listed value is itself checked.

use crate::doubles::{block_on, prior_byte, NullDelay, ResetIv};
use crate::reg127::Reg127;
use lora_phy::mod_params::{Bandwidth, CodingRate, ModulationParams, PacketParams, RadioError, RadioMode, SpreadingFactor};
use lora_phy::mod_traits::RadioKind;
use lora_phy::sx127x::{Config, Sx1272, Sx1276, Sx127x};
use lora_phy::RxMode;
use serde_json::{json, Value};
use smtc_modem_cores::sx127x as smtc;
use smtc_modem_cores::sys;
use verif_core::*;

use super::c13_126x::{bw_of, cr_of, legacy_to_word, radio_mode_of, sf_of};

#[derive(Clone, Copy, Debug, PartialEq, Eq)]
pub enum Chip127 {
    Sx1276,
    Sx1272,
}
pub const CHIPS127: [Chip127; 2] = [Chip127::Sx1276, Chip127::Sx1272];
impl Chip127 {
    pub fn name(self) -> &'static str {
        match self {
            Chip127::Sx1276 => "sx1276",
            Chip127::Sx1272 => "sx1272",
        }
    }
    pub fn from_name(s: &str) -> Option<Self> {
        CHIPS127.iter().copied().find(|c| c.name() == s)
    }
    /// bandwidths the chip supports (SX1272: 125/250/500 kHz only)
    pub fn supports_bw(self, hz: u32) -> bool {
        match self {
            Chip127::Sx1276 => true,
            Chip127::Sx1272 => hz >= 125_000,
        }
    }
    /// frequency bands of the part (datasheet electrical specifications)
    pub fn in_band(self, hz: u32) -> bool {
        match self {
            Chip127::Sx1276 => (137_000_000..=175_000_000).contains(&hz) || (410_000_000..=525_000_000).contains(&hz) || (862_000_000..=1_020_000_000).contains(&hz),
            Chip127::Sx1272 => (860_000_000..=1_020_000_000).contains(&hz),
        }
    }
}

#[derive(Clone, Debug, PartialEq)]
pub struct Mp {
    pub sf: u8,
    pub bw_hz: u32,
    pub cr: u8,
    pub ldro: u8,
    pub hz: u32,
}
#[derive(Clone, Debug, PartialEq)]
pub struct Pp {
    pub preamble: u16,
    pub implicit: bool,
    pub len: u8,
    pub crc: bool,
    pub iq: bool,
}

#[derive(Clone, Debug, PartialEq)]
pub enum Sc127 {
    Standby,
    Sleep,
    Freq { hz: u32 },
    Mod { mp: Mp, armed: bool },
    Pkt { pp: Pp },
    Sync { legacy: u8 },
    SyncRefuse { word: u16 },
    BufBase { tx: u8, rx: u8 },
    Payload { pp: Pp },
    TxPower { dbm: i32, tx_prep: bool },
    IrqIdle { mode: String },
    TxFlow { mp: Mp, pp: Pp, legacy: u8 },
    /// symbols = None: continuous
    RxFlow { mp: Mp, pp: Pp, legacy: u8, symbols: Option<u16> },
    CadFlow,
    // ---- steps that only occur in histories on one driver instance (c13_hist.rs)
    /// NRESET pulse through `RadioKind::reset`, then LoRa sleep -> standby (what `LoRa::init`
    /// does before it programs anything); reference: chip reset, fresh driver state, LoRa
    /// packet type, standby
    Reset,
    /// standby -> sleep -> wake -> standby (`warm` is the driver-level hint; the SX127x keeps its
    /// registers in every sleep)
    SleepWake { warm: bool },
    /// `RadioKind::init_lora`: sync word, FIFO bases 0/0, silicon version probe (arms errata 2.1)
    InitLora { legacy: u8 },
}

impl Sc127 {
    pub fn kind(&self) -> &'static str {
        match self {
            Sc127::Standby => "standby",
            Sc127::Sleep => "sleep",
            Sc127::Freq { .. } => "freq",
            Sc127::Mod { .. } => "mod",
            Sc127::Pkt { .. } => "pkt",
            Sc127::Sync { .. } => "sync",
            Sc127::SyncRefuse { .. } => "sync-refuse",
            Sc127::BufBase { .. } => "bufbase",
            Sc127::Payload { .. } => "payload",
            Sc127::TxPower { .. } => "txpower",
            Sc127::IrqIdle { .. } => "irq-idle",
            Sc127::TxFlow { .. } => "tx-flow",
            Sc127::RxFlow { .. } => "rx-flow",
            Sc127::CadFlow => "cad-flow",
            Sc127::Reset => "reset",
            Sc127::SleepWake { .. } => "sleep-wake",
            Sc127::InitLora { .. } => "init-lora",
        }
    }
    pub fn to_json(&self) -> Value {
        match self {
            Sc127::Standby => json!({"op":"standby"}),
            Sc127::Sleep => json!({"op":"sleep"}),
            Sc127::Freq { hz } => json!({"op":"freq","hz":hz}),
            Sc127::Mod { mp, armed } => json!({"op":"mod","mod":mp_json(mp),"errata21_armed":armed}),
            Sc127::Pkt { pp } => json!({"op":"pkt","pkt":pp_json(pp)}),
            Sc127::Sync { legacy } => json!({"op":"sync","legacy":legacy}),
            Sc127::SyncRefuse { word } => json!({"op":"sync-refuse","word":word}),
            Sc127::BufBase { tx, rx } => json!({"op":"bufbase","tx":tx,"rx":rx}),
            Sc127::Payload { pp } => json!({"op":"payload","pkt":pp_json(pp)}),
            Sc127::TxPower { dbm, tx_prep } => json!({"op":"txpower","dbm":dbm,"tx_prep":tx_prep}),
            Sc127::IrqIdle { mode } => json!({"op":"irq-idle","mode":mode}),
            Sc127::TxFlow { mp, pp, legacy } => json!({"op":"tx-flow","mod":mp_json(mp),"pkt":pp_json(pp),"legacy":legacy}),
            Sc127::RxFlow { mp, pp, legacy, symbols } => json!({"op":"rx-flow","mod":mp_json(mp),"pkt":pp_json(pp),"legacy":legacy,"symbols":symbols}),
            Sc127::CadFlow => json!({"op":"cad-flow"}),
            Sc127::Reset => json!({"op":"reset"}),
            Sc127::SleepWake { warm } => json!({"op":"sleep-wake","warm":warm}),
            Sc127::InitLora { legacy } => json!({"op":"init-lora","legacy":legacy}),
        }
    }
    pub fn from_json(o: &Value) -> Option<Sc127> {
        Some(match o["op"].as_str()? {
            "standby" => Sc127::Standby,
            "sleep" => Sc127::Sleep,
            "freq" => Sc127::Freq { hz: o["hz"].as_u64()? as u32 },
            "mod" => Sc127::Mod { mp: mp_from(&o["mod"])?, armed: o["errata21_armed"].as_bool()? },
            "pkt" => Sc127::Pkt { pp: pp_from(&o["pkt"])? },
            "sync" => Sc127::Sync { legacy: o["legacy"].as_u64()? as u8 },
            "sync-refuse" => Sc127::SyncRefuse { word: o["word"].as_u64()? as u16 },
            "bufbase" => Sc127::BufBase { tx: o["tx"].as_u64()? as u8, rx: o["rx"].as_u64()? as u8 },
            "payload" => Sc127::Payload { pp: pp_from(&o["pkt"])? },
            "txpower" => Sc127::TxPower { dbm: o["dbm"].as_i64()? as i32, tx_prep: o["tx_prep"].as_bool()? },
            "irq-idle" => Sc127::IrqIdle { mode: o["mode"].as_str()?.to_string() },
            "tx-flow" => Sc127::TxFlow { mp: mp_from(&o["mod"])?, pp: pp_from(&o["pkt"])?, legacy: o["legacy"].as_u64()? as u8 },
            "rx-flow" => Sc127::RxFlow { mp: mp_from(&o["mod"])?, pp: pp_from(&o["pkt"])?, legacy: o["legacy"].as_u64()? as u8, symbols: o["symbols"].as_u64().map(|x| x as u16) },
            "cad-flow" => Sc127::CadFlow,
            "reset" => Sc127::Reset,
            "sleep-wake" => Sc127::SleepWake { warm: o["warm"].as_bool()? },
            "init-lora" => Sc127::InitLora { legacy: o["legacy"].as_u64()? as u8 },
            _ => return None,
        })
    }
}

fn mp_json(m: &Mp) -> Value {
    json!({"sf":m.sf,"bw_hz":m.bw_hz,"cr_denom":m.cr,"ldro":m.ldro,"hz":m.hz})
}
fn mp_from(v: &Value) -> Option<Mp> {
    Some(Mp { sf: v["sf"].as_u64()? as u8, bw_hz: v["bw_hz"].as_u64()? as u32, cr: v["cr_denom"].as_u64()? as u8, ldro: v["ldro"].as_u64()? as u8, hz: v["hz"].as_u64()? as u32 })
}
fn pp_json(p: &Pp) -> Value {
    json!({"preamble":p.preamble,"implicit":p.implicit,"len":p.len,"crc":p.crc,"iq":p.iq})
}
fn pp_from(v: &Value) -> Option<Pp> {
    Some(Pp { preamble: v["preamble"].as_u64()? as u16, implicit: v["implicit"].as_bool()?, len: v["len"].as_u64()? as u8, crc: v["crc"].as_bool()?, iq: v["iq"].as_bool()? })
}

#[derive(Clone, Debug)]
pub struct Case127 {
    pub chip: Chip127,
    pub tx_boost: bool,
    pub rx_boost: bool,
    pub seed: u64,
    pub sc: Sc127,
}

impl Case127 {
    pub fn to_json(&self) -> Value {
        json!({"family":"sx127x","chip":self.chip.name(),"tx_boost":self.tx_boost,"rx_boost":self.rx_boost,"prior_seed":self.seed,"op":self.sc.to_json()})
    }
    pub fn from_json(v: &Value) -> Option<Case127> {
        Some(Case127 { chip: Chip127::from_name(v["chip"].as_str()?)?, tx_boost: v["tx_boost"].as_bool()?, rx_boost: v["rx_boost"].as_bool()?, seed: v["prior_seed"].as_u64()?, sc: Sc127::from_json(&v["op"])? })
    }
}

fn lp_mp(m: &Mp) -> ModulationParams {
    ModulationParams {
        spreading_factor: sf_of(m.sf as u64).unwrap_or(SpreadingFactor::_7),
        bandwidth: bw_of(m.bw_hz as u64).unwrap_or(Bandwidth::_125KHz),
        coding_rate: cr_of(m.cr as u64).unwrap_or(CodingRate::_4_5),
        low_data_rate_optimize: m.ldro,
        frequency_in_hz: m.hz,
    }
}
fn lp_pp(p: &Pp) -> PacketParams {
    PacketParams { preamble_length: p.preamble, implicit_header: p.implicit, payload_length: p.len, crc_on: p.crc, iq_inverted: p.iq }
}
/// creator route: the parameter objects reach the driver the way every user of the LoRa layer obtains
/// them (RadioKind::create_modulation_params / create_packet_params); the literal is kept where the
/// creator refuses the request or where the requested LDRO setting is a forced one
fn lp_mp_via<RK: RadioKind>(r: &RK, m: &Mp) -> ModulationParams {
    let lit = lp_mp(m);
    match r.create_modulation_params(lit.spreading_factor, lit.bandwidth, lit.coding_rate, lit.frequency_in_hz) {
        Ok(created) if m.ldro <= 1 && super::c13_126x::rule_ldro(m.sf, m.bw_hz) == (m.ldro != 0) => created,
        _ => lit,
    }
}
fn lp_pp_via<RK: RadioKind>(r: &RK, p: &Pp, sf: u8) -> PacketParams {
    let lit = lp_pp(p);
    let mp = ModulationParams {
        spreading_factor: sf_of(sf as u64).unwrap_or(SpreadingFactor::_7),
        bandwidth: Bandwidth::_125KHz,
        coding_rate: CodingRate::_4_5,
        low_data_rate_optimize: 0,
        frequency_in_hz: 868_100_000,
    };
    r.create_packet_params(p.preamble, p.implicit, p.len, p.crc, p.iq, &mp).unwrap_or(lit)
}
fn ref_bw(hz: u32) -> u32 {
    match hz {
        7_810 => sys::sx127x_lora_bw_e_SX127X_LORA_BW_007,
        10_420 => sys::sx127x_lora_bw_e_SX127X_LORA_BW_010,
        15_630 => sys::sx127x_lora_bw_e_SX127X_LORA_BW_015,
        20_830 => sys::sx127x_lora_bw_e_SX127X_LORA_BW_020,
        31_250 => sys::sx127x_lora_bw_e_SX127X_LORA_BW_031,
        41_670 => sys::sx127x_lora_bw_e_SX127X_LORA_BW_041,
        62_500 => sys::sx127x_lora_bw_e_SX127X_LORA_BW_062,
        125_000 => sys::sx127x_lora_bw_e_SX127X_LORA_BW_125,
        250_000 => sys::sx127x_lora_bw_e_SX127X_LORA_BW_250,
        _ => sys::sx127x_lora_bw_e_SX127X_LORA_BW_500,
    }
}
fn ref_sf(sf: u8) -> u32 {
    match sf {
        6 => sys::sx127x_lora_sf_e_SX127X_LORA_SF6,
        7 => sys::sx127x_lora_sf_e_SX127X_LORA_SF7,
        8 => sys::sx127x_lora_sf_e_SX127X_LORA_SF8,
        9 => sys::sx127x_lora_sf_e_SX127X_LORA_SF9,
        10 => sys::sx127x_lora_sf_e_SX127X_LORA_SF10,
        11 => sys::sx127x_lora_sf_e_SX127X_LORA_SF11,
        _ => sys::sx127x_lora_sf_e_SX127X_LORA_SF12,
    }
}
fn ref_cr(d: u8) -> u32 {
    match d {
        5 => sys::sx127x_lora_cr_e_SX127X_LORA_CR_4_5,
        6 => sys::sx127x_lora_cr_e_SX127X_LORA_CR_4_6,
        7 => sys::sx127x_lora_cr_e_SX127X_LORA_CR_4_7,
        _ => sys::sx127x_lora_cr_e_SX127X_LORA_CR_4_8,
    }
}
fn ref_mp(m: &Mp) -> sys::sx127x_lora_mod_params_t {
    sys::sx127x_lora_mod_params_t { sf: ref_sf(m.sf), bw: ref_bw(m.bw_hz), cr: ref_cr(m.cr), ldro: m.ldro }
}
fn ref_pp(p: &Pp, len: u8) -> sys::sx127x_lora_pkt_params_t {
    sys::sx127x_lora_pkt_params_t {
        preamble_len_in_symb: p.preamble,
        header_type: if p.implicit { sys::sx127x_lora_pkt_len_modes_e_SX127X_LORA_PKT_IMPLICIT } else { sys::sx127x_lora_pkt_len_modes_e_SX127X_LORA_PKT_EXPLICIT },
        pld_len_in_bytes: len,
        crc_is_on: p.crc,
        invert_iq_is_on: p.iq,
    }
}

fn payload(seed: u64, len: usize) -> Vec<u8> {
    (0..len as u64).map(|i| prior_byte(seed, 0x5000 + i)).collect()
}

/// lora-phy side of a scenario
fn lp_exec<RK: RadioKind>(r: &mut RK, case: &Case127) -> Result<(), RadioError> {
    match &case.sc {
        Sc127::Standby => block_on(r.set_standby()),
        Sc127::Sleep => {
            block_on(r.set_standby())?;
            block_on(r.set_sleep(false, &mut NullDelay))
        }
        Sc127::Freq { hz } => block_on(r.set_channel(*hz)),
        Sc127::Mod { mp, armed } => {
            if *armed {
                block_on(r.init_lora(legacy_to_word(0x34)))?;
            }
            block_on(r.set_modulation_params(&lp_mp_via(r, mp)))
        }
        Sc127::Pkt { pp } => {
            block_on(r.set_standby())?;
            block_on(r.set_tx_rx_buffer_base_address(0, 0))?;
            block_on(r.set_packet_params(&lp_pp_via(r, pp, 6 + (case.seed % 7) as u8)))
        }
        Sc127::Sync { legacy } => block_on(r.set_lora_sync_word(legacy_to_word(*legacy))),
        Sc127::SyncRefuse { word } => block_on(r.set_lora_sync_word(*word)),
        Sc127::BufBase { tx, rx } => block_on(r.set_tx_rx_buffer_base_address(*tx as usize, *rx as usize)),
        Sc127::Payload { pp } => {
            block_on(r.set_standby())?;
            block_on(r.set_tx_rx_buffer_base_address(0, 0))?;
            block_on(r.set_packet_params(&lp_pp_via(r, pp, 6 + (case.seed % 7) as u8)))?;
            block_on(r.set_payload(&payload(case.seed, pp.len as usize)))
        }
        Sc127::TxPower { dbm, tx_prep } => block_on(r.set_tx_power_and_ramp_time(*dbm, None, *tx_prep)),
        Sc127::IrqIdle { mode } => block_on(r.set_irq_params(radio_mode_of(mode))),
        Sc127::TxFlow { mp, pp, legacy } => {
            block_on(r.init_lora(legacy_to_word(*legacy)))?;
            block_on(r.set_standby())?;
            block_on(r.set_channel(mp.hz))?;
            block_on(r.set_modulation_params(&lp_mp_via(r, mp)))?;
            block_on(r.set_packet_params(&lp_pp_via(r, pp, mp.sf)))?;
            block_on(r.set_payload(&payload(case.seed, pp.len as usize)))?;
            block_on(r.set_irq_params(Some(RadioMode::Transmit)))?;
            block_on(r.do_tx())
        }
        Sc127::RxFlow { mp, pp, legacy, symbols } => {
            let mode = match symbols {
                Some(n) => RxMode::Single(*n),
                None => RxMode::Continuous,
            };
            block_on(r.init_lora(legacy_to_word(*legacy)))?;
            block_on(r.set_standby())?;
            block_on(r.set_channel(mp.hz))?;
            block_on(r.set_modulation_params(&lp_mp_via(r, mp)))?;
            block_on(r.set_packet_params(&lp_pp_via(r, pp, mp.sf)))?;
            block_on(r.set_irq_params(Some(RadioMode::Receive(mode))))?;
            block_on(r.do_rx(mode))
        }
        Sc127::CadFlow => {
            block_on(r.set_irq_params(Some(RadioMode::ChannelActivityDetection)))?;
            let mp = Mp { sf: 7, bw_hz: 125_000, cr: 5, ldro: 0, hz: 868_100_000 };
            block_on(r.do_cad(&lp_mp(&mp)))
        }
        Sc127::Reset => {
            block_on(r.reset(&mut NullDelay))?;
            block_on(r.ensure_ready(RadioMode::Sleep))?;
            block_on(r.set_standby())
        }
        Sc127::SleepWake { warm } => {
            block_on(r.set_standby())?;
            block_on(r.set_sleep(*warm, &mut NullDelay))?;
            block_on(r.ensure_ready(RadioMode::Sleep))?;
            block_on(r.set_standby())
        }
        Sc127::InitLora { legacy } => block_on(r.init_lora(legacy_to_word(*legacy))),
    }
}

/// One tolerated deviation: at register `addr`, the bits in `mask` may differ from the reference
/// outcome; `expect`: Some(v) = lora-phy's bits must then equal v (datasheet / errata value),
/// None = the chip ignores these bits in this scenario (no value to check).
pub struct Allow {
    pub addr: u8,
    pub mask: u8,
    pub expect: Option<u8>,
    pub why: &'static str,
}

/// The reviewed allow-list for one case.
pub fn allow_list(case: &Case127, h: &Hctx) -> Vec<Allow> {
    let mut v: Vec<Allow> = vec![];
    let c76 = case.chip == Chip127::Sx1276;
    // errata registers that only influence the receiver and that the reference programs at SetRx
    let errata_rx_only = |v: &mut Vec<Allow>, mp: &Mp, armed: bool| {
        if !c76 {
            return;
        }
        // SX1276/77/78/79 errata note 2.3 (receiver spurious reception): 500 kHz keeps AutomaticIFOn;
        // 62.5/125/250 kHz clear it and set RegIfFreq2:1 = 0x40 0x00 (narrower bandwidths need a
        // frequency offset too and are only judged in the RX flow)
        if mp.bw_hz == 500_000 {
            v.push(Allow { addr: 0x31, mask: 0x80, expect: Some(0x80), why: "errata 2.3: AutomaticIFOn = 1 at 500 kHz" });
        } else if mp.bw_hz >= 62_500 {
            v.push(Allow { addr: 0x31, mask: 0x80, expect: Some(0x00), why: "errata 2.3: AutomaticIFOn = 0 below 500 kHz" });
            v.push(Allow { addr: 0x2F, mask: 0xFF, expect: Some(0x40), why: "errata 2.3: RegIfFreq2 = 0x40 for 62.5-250 kHz" });
            v.push(Allow { addr: 0x30, mask: 0xFF, expect: Some(0x00), why: "errata 2.3: RegIfFreq1 = 0x00" });
        }
        if armed {
            // errata note 2.1 (sensitivity with 500 kHz bandwidth)
            let hf = (862_000_000..=1_020_000_000).contains(&mp.hz);
            let lf = (410_000_000..=525_000_000).contains(&mp.hz);
            if mp.bw_hz == 500_000 && (hf || lf) {
                v.push(Allow { addr: 0x36, mask: 0xFF, expect: Some(0x02), why: "errata 2.1: RegHighBwOptimize1 = 0x02 at 500 kHz" });
                v.push(Allow { addr: 0x3A, mask: 0xFF, expect: Some(if hf { 0x64 } else { 0x7F }), why: "errata 2.1: RegHighBwOptimize2 = 0x64 (862-1020 MHz) / 0x7F (410-525 MHz)" });
            } else {
                v.push(Allow { addr: 0x36, mask: 0xFF, expect: Some(0x03), why: "errata 2.1: RegHighBwOptimize1 = 0x03 otherwise" });
            }
        }
    };
    let lna = |v: &mut Vec<Allow>| {
        v.push(Allow {
            addr: 0x0C,
            mask: 0xFF,
            expect: Some(if case.rx_boost { 0x23 } else { 0x20 }),
            why: "RegLna: lora-phy runs with AgcAutoOn = 0 and programs LnaGain = G1 (001), LnaBoostHf = 11 when rx_boost else 00; the reference leaves the register alone",
        });
    };
    let iq_deferred = |v: &mut Vec<Allow>, pp: &Pp| {
        // the reference writes the IQ registers at SetTx/SetRx; values per datasheet RegInvertIQ /
        // RegInvertIQ2 (0x1D normal, 0x19 inverted)
        v.push(Allow { addr: 0x33, mask: 0xFF, expect: Some(if pp.iq { 0x66 } else { 0x27 }), why: "RegInvertIQ written with the packet parameters (reference: at SetTx/SetRx)" });
        v.push(Allow { addr: 0x3B, mask: 0xFF, expect: Some(if pp.iq { 0x19 } else { 0x1D }), why: "RegInvertIQ2 = 0x19 inverted / 0x1D normal" });
    };
    match &case.sc {
        Sc127::Mod { mp, armed } => errata_rx_only(&mut v, mp, *armed || h.armed),
        Sc127::Pkt { pp } | Sc127::Payload { pp } => {
            iq_deferred(&mut v, pp);
            v.push(Allow { addr: 0x23, mask: 0xFF, expect: None, why: "RegMaxPayloadLength: the reference pins it to the packet length, lora-phy keeps the reset value; judged in the RX flow" });
            if !pp.implicit && matches!(case.sc, Sc127::Pkt { .. }) {
                v.push(Allow { addr: 0x22, mask: 0xFF, expect: None, why: "RegPayloadLength is written by lora-phy with the payload (TX) and unused in explicit-header RX" });
            }
        }
        Sc127::TxPower { dbm, .. } => {
            if c76 {
                let hi = case.tx_boost && *dbm > 17;
                v.push(Allow { addr: 0x0B, mask: 0xFF, expect: Some(if hi { 0x3B } else { 0x2B }), why: "RegOcp: OcpOn with 100 mA (reset value) or 240 mA in the +20 dBm mode (datasheet 5.4.3); the reference leaves OCP to the BSP" });
            }
            if case.tx_boost || !c76 {
                v.push(Allow { addr: 0x09, mask: 0x70, expect: Some(0x00), why: "RegPaConfig[6:4]: MaxPower is ignored with PA_BOOST (SX1276) / unused (SX1272); lora-phy writes 0, the reference preserves" });
            }
        }
        Sc127::IrqIdle { .. } => {
            v.push(Allow { addr: 0x40, mask: 0xC0, expect: Some(0xC0), why: "RegDioMapping1 DIO0 = 11 (no source) while no operation is armed; the reference maps DIO0 only at SetTx/SetRx/SetCad" });
        }
        Sc127::TxFlow { mp, .. } => {
            errata_rx_only(&mut v, mp, c76);
            v.push(Allow { addr: 0x23, mask: 0xFF, expect: None, why: "RegMaxPayloadLength only filters received packets" });
            v.push(Allow { addr: 0x33, mask: 0x40, expect: None, why: "RegInvertIQ[6] InvertIqRx is irrelevant while transmitting" });
        }
        Sc127::RxFlow { pp, symbols, .. } => {
            lna(&mut v);
            v.push(Allow { addr: 0x40, mask: 0x03, expect: Some(0x01), why: "RegDioMapping1 DIO3 = 01 ValidHeader (lora-phy waits for the header interrupt; the reference leaves DIO3 at 00)" });
            v.push(Allow { addr: 0x33, mask: 0x01, expect: None, why: "RegInvertIQ[0] InvertIqTx is irrelevant while receiving" });
            if pp.implicit {
                v.push(Allow { addr: 0x23, mask: 0xFF, expect: None, why: "RegMaxPayloadLength is not used without a header" });
            } else {
                v.push(Allow { addr: 0x22, mask: 0xFF, expect: None, why: "RegPayloadLength is not used in explicit-header reception" });
            }
            if symbols.is_none() {
                v.push(Allow { addr: 0x1F, mask: 0xFF, expect: Some(0x00), why: "RegSymbTimeoutLsb is not used in continuous reception (lora-phy writes 0, the reference skips the write)" });
                v.push(Allow { addr: 0x1E, mask: 0x03, expect: Some(0x00), why: "SymbTimeout[9:8] is not used in continuous reception" });
            }
        }
        Sc127::CadFlow => lna(&mut v),
        _ => {}
    }
    if h.dio3_vh && matches!(case.sc, Sc127::TxFlow { .. } | Sc127::CadFlow) {
        v.push(Allow { addr: 0x40, mask: 0x03, expect: Some(0x01), why: "RegDioMapping1 DIO3 = 01 (ValidHeader) kept from an earlier reception set-up (lora-phy read-modify-writes the register, the reference rewrites it from its shadow with DIO3 = 00); no header is detected while transmitting or in CAD" });
    }
    v
}

pub enum Verdict {
    Compared,
    Refused,
}

/// Prior register contents: random, except the cells where one driver normalises a field to its
/// reset value (or keeps a shadow copy initialised to the reset value) instead of preserving it.
fn prime(r: &Reg127, case: &Case127) {
    r.seed(case.seed);
    let g = |a: u8| r.get(a);
    let c76 = case.chip == Chip127::Sx1276;
    // LoRa mode; flows start in standby as after LoRa::init, the sleep/standby scenario in sleep
    r.set(0x01, if matches!(case.sc, Sc127::Standby | Sc127::Sleep) { 0x80 } else { 0x81 });
    // the reference keeps a shadow of RegDioMapping1/2 (initial value: reset value 0x00)
    r.set(0x40, 0x00);
    r.set(0x41, 0x00);
    // RegInvertIQ reserved bits 5:1 = 0x13 (lora-phy writes the documented reserved value)
    r.set(0x33, (g(0x33) & 0x41) | 0x26);
    // AgcAutoOn = 0: lora-phy runs with manual LNA gain and writes 0
    r.set(0x26, g(0x26) & !0x04);
    // RegPaRamp upper bits at reset value (lora-phy writes them, the reference preserves them)
    r.set(0x0A, if c76 { g(0x0A) & 0x0F } else { (g(0x0A) & 0x0F) | 0x10 });
    // RegPaDac reserved bits 7:3 = 0x10
    let dac = if c76 { 0x4D } else { 0x5A };
    r.set(dac, (g(dac) & 0x07) | 0x80);
    // RegMaxPayloadLength reset value; RegVersion of the silicon
    r.set(0x23, 0xFF);
    r.set(0x42, if c76 { 0x12 } else { 0x22 });
}

fn dedup(v: &[u8]) -> Vec<u8> {
    let mut o: Vec<u8> = vec![];
    for x in v {
        let y = x & 0x87;
        if o.last() != Some(&y) {
            o.push(y);
        }
    }
    o
}

/// lora-phy driver instance of either chip variant (the RadioKind trait is not object safe)
pub enum Lp127 {
    A(Sx127x<Reg127, ResetIv, Sx1276>),
    B(Sx127x<Reg127, ResetIv, Sx1272>),
}

/// History-dependent context of one step (all false for a fresh driver on a primed chip).
#[derive(Clone, Copy, Default, Debug)]
pub struct Hctx {
    /// lora-phy's errata-2.1 flag is set: `init_lora` saw silicon version 0x12 on this driver
    /// instance at some earlier point (the flag is driver-side state and survives a chip reset)
    pub armed: bool,
    /// RegDioMapping1 DIO3 = 01 (ValidHeader) is left in the chip by an earlier reception set-up:
    /// lora-phy read-modify-writes the register and keeps it, the reference rewrites the whole
    /// register from its shadow copy (DIO3 = 00); outside reception no header can be detected, so
    /// the mapping of DIO3 is without effect
    pub dio3_vh: bool,
    /// the driver instances have executed at least one step: they may know the chip's operating
    /// mode, so a RegOpMode write that does not change the mode is not a chip-visible difference
    /// (the operating-mode sequences are compared as sequences of mode *changes* from the mode the
    /// step starts in; on fresh instances the written sequences themselves are compared)
    pub used: bool,
}

/// One lora-phy driver instance and one reference-driver context, each on its own register-file
/// double. `check127` uses it for exactly one step on a freshly primed chip; the history stage
/// (c13_hist.rs) runs several steps on the same instances.
pub struct Sess127 {
    pub chip: Chip127,
    pub tx_boost: bool,
    pub rx_boost: bool,
    pub ra: Reg127,
    pub rb: Reg127,
    lp: Lp127,
    c: smtc::Context<Reg127>,
    pub hctx: Hctx,
    /// NRESET pulses lora-phy's control-line double has seen
    pub resets: std::rc::Rc<core::cell::Cell<u32>>,
}

fn radio_id(chip: Chip127) -> smtc::sx127x_radio_id_e {
    match chip {
        Chip127::Sx1276 => smtc::sx127x_radio_id_e::SX127X_RADIO_ID_SX1276,
        Chip127::Sx1272 => smtc::sx127x_radio_id_e::SX127X_RADIO_ID_SX1272,
    }
}

impl Sess127 {
    pub fn new(chip: Chip127, tx_boost: bool, rx_boost: bool) -> Self {
        let ra = Reg127::new();
        let rb = Reg127::new();
        let c76 = chip == Chip127::Sx1276;
        let target = ra.clone();
        let iv = ResetIv::new(move || target.chip_reset(c76));
        let resets = iv.resets.clone();
        let lp = match chip {
            Chip127::Sx1276 => Lp127::A(Sx127x::new(ra.clone(), iv, Config { chip: Sx1276, tcxo_used: false, tx_boost, rx_boost })),
            Chip127::Sx1272 => Lp127::B(Sx127x::new(ra.clone(), iv, Config { chip: Sx1272, tcxo_used: false, tx_boost, rx_boost })),
        };
        let c = smtc::Context::new(rb.clone(), radio_id(chip));
        Sess127 { chip, tx_boost, rx_boost, ra, rb, lp, c, hctx: Hctx::default(), resets }
    }

    /// Same prior contents on both chips (see `prime`).
    pub fn prime(&self, case: &Case127) {
        prime(&self.ra, case);
        prime(&self.rb, case);
    }

    /// Make the reference's chip hold exactly what lora-phy's chip holds ("given the same
    /// register state"): called after a step whose outcome was judged, so that what remains
    /// different are allow-listed cells only.
    pub fn reconcile(&self) {
        let a = self.ra.0.borrow();
        let mut b = self.rb.0.borrow_mut();
        b.regs = a.regs;
        b.fifo = a.fifo;
    }

    /// Runs one scenario on both drivers and compares the chip-visible outcomes.
    /// `case.chip / tx_boost / rx_boost` must be the session's.
    pub fn step(&mut self, case: &Case127, cj: &Value) -> Result<Verdict, Failure> {
        assert!(case.chip == self.chip && case.tx_boost == self.tx_boost && case.rx_boost == self.rx_boost, "harness: step for another board configuration");
        let kind = case.sc.kind();
        let chipn = case.chip.name();
        let fail = |rule: &str, fp: String, detail: String| Failure::new(rule, cj.clone(), detail).with_fp(fp);
        let (ra, rb) = (self.ra.clone(), self.rb.clone());
        ra.clear_logs();
        rb.clear_logs();
        let before: [u8; 128] = ra.0.borrow().regs;
        let hctx = self.hctx;
        let resets_before = self.resets.get();

        // ---- lora-phy
        let lpm = &mut self.lp;
        let lp = catch(move || match lpm {
            Lp127::A(r) => lp_exec(r, case),
            Lp127::B(r) => lp_exec(r, case),
        });
        let lp = match lp {
            Ok(r) => r,
            Err(p) => return Err(Failure::panic(cj.clone(), &p)),
        };
        if let Err(e) = &lp {
            let documented = match &case.sc {
                Sc127::SyncRefuse { .. } => *e == RadioError::InvalidSyncWord,
                _ => false,
            };
            let traffic = ra.0.borrow().transactions;
            if !documented {
                return Err(fail("unexpected-refusal", format!("{chipn}/{kind}/refused"), format!("lora-phy returned {e:?} for a legal parameter value after {traffic} transactions")));
            }
            if traffic != 0 {
                return Err(fail("refusal-with-traffic", format!("{chipn}/{kind}/refused-with-traffic"), format!("refused with {e:?} after {traffic} transactions")));
            }
            return Ok(Verdict::Refused);
        }
        if let Sc127::SyncRefuse { word } = &case.sc {
            return Err(fail("sync-word-domain", format!("{chipn}/{kind}/accepted"), format!("sync word {word:#06x} has no single-byte form but was accepted")));
        }
        // driver-side state the later steps of a history depend on
        match &case.sc {
            Sc127::InitLora { .. } | Sc127::TxFlow { .. } | Sc127::RxFlow { .. } | Sc127::Mod { armed: true, .. } => self.hctx.armed = case.chip == Chip127::Sx1276,
            _ => {}
        }
        self.hctx.used = true;
        match &case.sc {
            Sc127::RxFlow { .. } => self.hctx.dio3_vh = true,
            Sc127::Reset => self.hctx.dio3_vh = false,
            _ => {}
        }

        // ---- reference
        if let Sc127::Reset = &case.sc {
            if self.resets.get() == resets_before {
                return Err(fail("reset-line", format!("{chipn}/{kind}/no-nreset-pulse"), "RadioKind::reset did not pulse NRESET through InterfaceVariant::reset".into()));
            }
            // NRESET on the reference's chip (the binding's hal reset is a no-op) and the driver
            // state a re-initialisation starts from: a fresh sx127x_t
            rb.chip_reset(case.chip == Chip127::Sx1276);
            self.c = smtc::Context::new(rb.clone(), radio_id(case.chip));
        }
        let c = &mut self.c;
        c.set_pkt_type(sys::sx127x_pkt_types_e_SX127X_PKT_TYPE_LORA); // reads RegOpMode: already LoRa (except after a reset)
        match &case.sc {
            Sc127::Standby => {
                c.set_standby();
            }
            Sc127::Sleep => {
                c.set_standby();
                c.set_sleep();
            }
            Sc127::Freq { hz } => {
                c.set_rf_freq(*hz);
            }
            Sc127::Mod { mp, armed } => {
                if *armed {
                    c.set_lora_sync_word(0x34);
                    c.write_register(0x0E, &[0, 0]);
                }
                c.set_lora_mod_params(&ref_mp(mp));
            }
            Sc127::Pkt { pp } => {
                c.set_lora_pkt_params(&ref_pp(pp, pp.len));
            }
            Sc127::Sync { legacy } => {
                c.set_lora_sync_word(*legacy);
            }
            Sc127::SyncRefuse { .. } => unreachable!(),
            Sc127::BufBase { tx, rx } => {
                // the reference has no API for non-zero FIFO bases: datasheet registers 0x0E / 0x0F
                c.write_register(0x0E, &[*tx, *rx]);
            }
            Sc127::Payload { pp } => {
                c.set_lora_pkt_params(&ref_pp(pp, pp.len));
                c.write_buffer(0, &payload(case.seed, pp.len as usize));
            }
            Sc127::TxPower { dbm, tx_prep } => {
                // legal range of the selected output (datasheet 5.4.2/5.4.3); requests outside are clamped
                let (p, hi) = match (case.chip, case.tx_boost) {
                    (_, true) => ((*dbm).clamp(2, 20), (*dbm).clamp(2, 20) > 17),
                    (Chip127::Sx1276, false) => ((*dbm).clamp(-4, 14), false),
                    (Chip127::Sx1272, false) => ((*dbm).clamp(-1, 14), false),
                };
                c.set_pa_cfg(&sys::sx127x_pa_cfg_params_t {
                    pa_select: if case.tx_boost { sys::sx127x_pa_select_e_SX127X_PA_SELECT_BOOST } else { sys::sx127x_pa_select_e_SX127X_PA_SELECT_RFO },
                    is_20_dbm_output_on: hi,
                });
                c.set_tx_params(p as i8, if *tx_prep { sys::sx127x_ramp_time_e_SX127X_RAMP_40_US } else { sys::sx127x_ramp_time_e_SX127X_RAMP_250_US });
            }
            Sc127::IrqIdle { .. } => {
                c.set_irq_mask(sys::sx127x_irq_masks_e_SX127X_IRQ_NONE as u16);
            }
            Sc127::TxFlow { mp, pp, legacy } => {
                c.set_lora_sync_word(*legacy);
                c.set_rf_freq(mp.hz);
                c.set_lora_mod_params(&ref_mp(mp));
                c.set_lora_pkt_params(&ref_pp(pp, pp.len));
                c.write_buffer(0, &payload(case.seed, pp.len as usize));
                c.set_irq_mask(sys::sx127x_irq_masks_e_SX127X_IRQ_TX_DONE as u16);
                c.set_tx();
            }
            Sc127::RxFlow { mp, pp, legacy, symbols } => {
                c.set_lora_sync_word(*legacy);
                c.set_rf_freq(mp.hz);
                c.set_lora_mod_params(&ref_mp(mp));
                // explicit header: maximum length 255 (reset value of RegMaxPayloadLength)
                c.set_lora_pkt_params(&ref_pp(pp, if pp.implicit { pp.len } else { 255 }));
                c.set_irq_mask((sys::sx127x_irq_masks_e_SX127X_IRQ_RX_DONE | sys::sx127x_irq_masks_e_SX127X_IRQ_TIMEOUT | sys::sx127x_irq_masks_e_SX127X_IRQ_CRC_ERROR | sys::sx127x_irq_masks_e_SX127X_IRQ_HEADER_VALID) as u16);
                match symbols {
                    // SymbTimeout is a 10-bit field with a minimum of 4 symbols (datasheet RegSymbTimeout)
                    Some(n) => {
                        c.set_lora_sync_timeout((*n).clamp(4, 1023));
                        c.set_rx(0);
                    }
                    None => {
                        c.set_lora_sync_timeout(0);
                        c.set_rx(0x00FF_FFFF);
                    }
                }
            }
            Sc127::CadFlow => {
                c.set_irq_mask((sys::sx127x_irq_masks_e_SX127X_IRQ_CAD_DONE | sys::sx127x_irq_masks_e_SX127X_IRQ_CAD_DETECTED) as u16);
                c.set_cad();
            }
            Sc127::Reset => {
                // set_pkt_type above selected LoRa through sleep; what is left is the wake-up
                c.set_standby();
            }
            Sc127::SleepWake { .. } => {
                c.set_standby();
                c.set_sleep();
                c.set_standby();
            }
            Sc127::InitLora { legacy } => {
                c.set_lora_sync_word(*legacy);
                c.write_register(0x0E, &[0, 0]);
            }
        }

        // ---- compare chip-visible outcomes
        let a = ra.0.borrow();
        let b = rb.0.borrow();
        if let Some(e) = a.protocol_errors.first() {
            return Err(fail("spi-framing", format!("{chipn}/{kind}/framing"), format!("lora-phy: {e}")));
        }
        if let Some(e) = b.protocol_errors.first() {
            return Err(fail("harness", format!("harness/{chipn}/{kind}/reference-framing"), format!("reference: {e}")));
        }
        let allow = allow_list(case, &hctx);
        // RegFrf (0x06..0x08) is judged as one 24-bit word so that a carry does not change the fingerprint
        let frf = |r: &crate::reg127::RegState| ((r.regs[6] as u32) << 16) | ((r.regs[7] as u32) << 8) | r.regs[8] as u32;
        let (fa, fb) = (frf(&a), frf(&b));
        let narrow_rx = matches!((&case.chip, &case.sc), (Chip127::Sx1276, Sc127::RxFlow { mp, .. }) if mp.bw_hz < 62_500);
        // a difference of a class that has its own fingerprint is reported only if nothing else
        // differs, so that the rest of the outcome is still judged for such a case
        let mut deferred: Option<Failure> = None;
        if narrow_rx {
            // SX1276 errata 2.3 for bandwidths below 62.5 kHz: AutomaticIFOn = 0, RegIfFreq2 = 0x48
            // (7.8 kHz) / 0x44, RegIfFreq1 = 0, and the RF frequency offset by one bandwidth.
            let d: Vec<String> = [0x06u8, 0x07, 0x08, 0x2F, 0x30, 0x31]
                .iter()
                .filter(|r| {
                    let m = if **r == 0x31 { 0x80 } else { 0xFF };
                    (a.regs[**r as usize] ^ b.regs[**r as usize]) & m != 0
                })
                .map(|r| format!("{r:#04x}: {:#04x} vs {:#04x}", a.regs[*r as usize], b.regs[*r as usize]))
                .collect();
            if !d.is_empty() {
                deferred = Some(fail("outcome-equal", format!("{chipn}/{kind}/errata-2.3-narrow-bw"), format!("errata 2.3 registers at RX start (lora-phy vs reference): {}", d.join(", "))));
            }
        } else if fa != fb {
            let fp = if fb == fa + 1 { "sx127x/frf-one-below-reference".to_string() } else { format!("{chipn}/{kind}/frf") };
            deferred = Some(fail("outcome-equal", fp, format!("RegFrf: lora-phy {fa:#08x}, reference {fb:#08x} (before the operation: {:#08x})", ((before[6] as u32) << 16) | ((before[7] as u32) << 8) | before[8] as u32)));
        }
        for addr in 1u8..0x80 {
            if addr == 0x12 || (0x06..=0x08).contains(&addr) {
                continue; // RegIrqFlags: status, see irq_clears; RegFrf: above
            }
            if narrow_rx && (addr == 0x2F || addr == 0x30) {
                continue;
            }
            let narrow31 = narrow_rx && addr == 0x31;
            let (mut x, mut y) = (a.regs[addr as usize], b.regs[addr as usize]);
            if addr == 0x01 {
                // RegOpMode[6:3] (AccessSharedReg, LowFrequencyModeOn register-page selectors):
                // lora-phy writes 0, the reference preserves; neither driver touches paged registers
                x &= 0x87;
                y &= 0x87;
            }
            let mut diff = x ^ y;
            if narrow31 {
                diff &= 0x7F;
            }
            if diff == 0 {
                continue;
            }
            for al in allow.iter().filter(|al| al.addr == addr) {
                if diff & al.mask == 0 {
                    continue;
                }
                match al.expect {
                    None => diff &= !al.mask,
                    Some(v) => {
                        if x & al.mask == v {
                            diff &= !al.mask;
                        } else {
                            return Err(fail(
                                "allow-listed-value",
                                format!("{chipn}/{kind}/reg{addr:02x}/allow-listed-value"),
                                format!("register {addr:#04x}: lora-phy {x:#04x}, reference {y:#04x}; allow-list ({}) requires bits {:#04x} = {v:#04x}", al.why, al.mask),
                            ));
                        }
                    }
                }
            }
            if diff != 0 {
                return Err(fail(
                    "outcome-equal",
                    format!("{chipn}/{kind}/reg{addr:02x}"),
                    format!("register {addr:#04x}: lora-phy leaves {x:#04x}, reference {y:#04x} (differing bits {diff:#04x}); prior {:#04x}", before[addr as usize]),
                ));
            }
        }
        if a.fifo_writes != b.fifo_writes {
            return Err(fail("outcome-equal", format!("{chipn}/{kind}/fifo"), format!("FIFO writes differ: lora-phy {} bytes from {:?}, reference {} bytes from {:?}", a.fifo_writes.len(), a.fifo_writes.first(), b.fifo_writes.len(), b.fifo_writes.first())));
        }
        let (ma, mb) = if hctx.used {
            let from = |v: &Vec<u8>| {
                let mut w = vec![before[1]];
                w.extend_from_slice(v);
                dedup(&w)[1..].to_vec()
            };
            (from(&a.opmodes), from(&b.opmodes))
        } else {
            (dedup(&a.opmodes), dedup(&b.opmodes))
        };
        if ma != mb {
            return Err(fail("outcome-equal", format!("{chipn}/{kind}/opmode-sequence"), format!("operating mode sequence: lora-phy {ma:02x?}, reference {mb:02x?}")));
        }
        // IRQ flag clears: the reference clears flags only inside its DIO interrupt handlers.
        // Allow-listed: lora-phy may clear, and then must clear all flags (write 0xFF).
        if let Some(v) = a.irq_clears.iter().find(|v| **v != 0xFF) {
            return Err(fail("allow-listed-value", format!("{chipn}/{kind}/irq-clear"), format!("RegIrqFlags written with {v:#04x}, expected 0xFF (clear all)")));
        }
        if let Some(f) = deferred {
            return Err(f);
        }
        Ok(Verdict::Compared)
    }
}

/// One operation on a fresh driver instance with primed prior register contents.
pub fn check127(case: &Case127) -> Result<Verdict, Failure> {
    let cj = case.to_json();
    let mut s = Sess127::new(case.chip, case.tx_boost, case.rx_boost);
    s.prime(case);
    s.step(case, &cj)
}
