//! Recording SPI double for the SX126x differential comparison (C13).
//!
//! One instance per driver. Every transaction is recorded as the exact MOSI byte stream the chip
//! would see (written bytes; 0x00 clocked during reads - Semtech's NOP). MISO is produced by
//! *absolute position in the transaction* from a tiny command model (hard-coded datasheet
//! opcodes), so two drivers that split a transaction differently ([op] + read 3 versus
//! [op, NOP] + read 2) still receive the same data. Register reads are served from a register
//! map whose unwritten cells hold a deterministic pseudo-random "prior" value; both sides get the
//! same seed, so read-modify-write sequences start from identical chip state.

use crate::doubles::{prior_byte, SpiErr};
use embedded_hal::spi::Operation;
use std::cell::RefCell;
use std::collections::BTreeMap;
use std::rc::Rc;

#[derive(Default)]
pub struct WireState {
    pub seed: u64,
    pub regs: BTreeMap<u16, u8>,
    pub buffer: Vec<u8>,
    /// MOSI stream of every transaction, in order
    pub tx: Vec<Vec<u8>>,
    pub status: u8,
    pub irq: u16,
    pub rx_len: u8,
    pub rx_ptr: u8,
    pub pkt_status: [u8; 3],
    pub rssi: u8,
}

impl WireState {
    pub fn reg(&self, addr: u16) -> u8 {
        match self.regs.get(&addr) {
            Some(v) => *v,
            None => prior_byte(self.seed, addr as u64),
        }
    }
    fn miso(&self, mosi: &[u8], pos: usize) -> u8 {
        let op = mosi[0];
        match op {
            // ReadRegister: op, addr_hi, addr_lo, NOP, data...
            0x1D if pos >= 4 && mosi.len() >= 3 => {
                let addr = u16::from_be_bytes([mosi[1], mosi[2]]);
                self.reg(addr.wrapping_add((pos - 4) as u16))
            }
            // ReadBuffer: op, offset, NOP, data...
            0x1E if pos >= 3 && mosi.len() >= 2 => self.buffer[(mosi[1] as usize + pos - 3) & 0xFF],
            // GetIrqStatus: op, status, irq_hi, irq_lo
            0x12 if pos == 2 => (self.irq >> 8) as u8,
            0x12 if pos == 3 => self.irq as u8,
            // GetRxBufferStatus: op, status, len, start pointer
            0x13 if pos == 2 => self.rx_len,
            0x13 if pos == 3 => self.rx_ptr,
            // GetPacketStatus
            0x14 if (2..=4).contains(&pos) => self.pkt_status[pos - 2],
            // GetRssiInst
            0x15 if pos == 2 => self.rssi,
            // GetDeviceErrors / ClearDeviceErrors: two zero bytes
            0x17 | 0x07 if pos >= 2 => 0,
            _ => self.status,
        }
    }
    fn run(&mut self, operations: &mut [Operation<'_, u8>]) {
        let mut mosi: Vec<u8> = Vec::with_capacity(16);
        for op in operations.iter() {
            match op {
                Operation::Write(b) => mosi.extend_from_slice(b),
                Operation::Read(b) => mosi.extend(std::iter::repeat(0u8).take(b.len())),
                Operation::Transfer(r, w) => {
                    let n = r.len().max(w.len());
                    for i in 0..n {
                        mosi.push(*w.get(i).unwrap_or(&0));
                    }
                }
                Operation::TransferInPlace(b) => mosi.extend_from_slice(b),
                Operation::DelayNs(_) => {}
            }
        }
        if mosi.is_empty() {
            self.tx.push(mosi);
            return;
        }
        // register / buffer writes take effect
        match mosi[0] {
            0x0D if mosi.len() >= 3 => {
                let addr = u16::from_be_bytes([mosi[1], mosi[2]]);
                for (i, b) in mosi[3..].iter().enumerate() {
                    self.regs.insert(addr.wrapping_add(i as u16), *b);
                }
            }
            0x0E if mosi.len() >= 2 => {
                let off = mosi[1] as usize;
                for (i, b) in mosi[2..].iter().enumerate() {
                    self.buffer[(off + i) & 0xFF] = *b;
                }
            }
            _ => {}
        }
        // hand out MISO by absolute position
        let mut pos = 0usize;
        for op in operations.iter_mut() {
            match op {
                Operation::Write(b) => pos += b.len(),
                Operation::Read(b) => {
                    for x in b.iter_mut() {
                        *x = self.miso(&mosi, pos);
                        pos += 1;
                    }
                }
                Operation::Transfer(r, w) => {
                    let n = r.len().max(w.len());
                    for i in 0..n {
                        if i < r.len() {
                            r[i] = self.miso(&mosi, pos + i);
                        }
                    }
                    pos += n;
                }
                Operation::TransferInPlace(b) => {
                    for x in b.iter_mut() {
                        *x = self.miso(&mosi, pos);
                        pos += 1;
                    }
                }
                Operation::DelayNs(_) => {}
            }
        }
        self.tx.push(mosi);
    }
}

#[derive(Clone)]
pub struct Wire126(pub Rc<RefCell<WireState>>);

impl Wire126 {
    pub fn new() -> Self {
        let w = Wire126(Rc::new(RefCell::new(WireState::default())));
        w.reset(0);
        w
    }
    /// Fresh chip-side state with the given prior-content seed.
    pub fn reset(&self, seed: u64) {
        let mut s = self.0.borrow_mut();
        s.seed = seed;
        s.regs.clear();
        s.buffer.clear();
        s.buffer.extend((0..256u64).map(|i| prior_byte(seed, 0x1_0000 + i)));
        s.tx.clear();
        s.status = 0x24; // STBY_RC, "data available"
        s.irq = 0;
        s.rx_len = 0;
        s.rx_ptr = 0;
        s.pkt_status = [0; 3];
        s.rssi = 0;
    }
    pub fn set_reg(&self, addr: u16, v: u8) {
        self.0.borrow_mut().regs.insert(addr, v);
    }
    pub fn take_tx(&self) -> Vec<Vec<u8>> {
        std::mem::take(&mut self.0.borrow_mut().tx)
    }
}

impl embedded_hal::spi::ErrorType for Wire126 {
    type Error = SpiErr;
}

impl embedded_hal::spi::SpiDevice for Wire126 {
    fn transaction(&mut self, operations: &mut [Operation<'_, u8>]) -> Result<(), SpiErr> {
        self.0.borrow_mut().run(operations);
        Ok(())
    }
}

impl embedded_hal_async::spi::SpiDevice<u8> for Wire126 {
    async fn transaction(&mut self, operations: &mut [Operation<'_, u8>]) -> Result<(), SpiErr> {
        self.0.borrow_mut().run(operations);
        Ok(())
    }
}
