//! Test doubles shared by C13 and C14: manual future polling, an infallible delay,
//! a no-op InterfaceVariant and the SPI error type.

use core::future::Future;
use core::pin::pin;
use core::task::{Context, Poll, Waker};
use lora_phy::mod_params::RadioError;
use lora_phy::mod_traits::InterfaceVariant;
use lora_phy::DelayNs;

/// Polls a future exactly once with a no-op waker.
pub fn poll_once<F: Future>(fut: F) -> Poll<F::Output> {
    let mut fut = pin!(fut);
    let mut cx = Context::from_waker(Waker::noop());
    fut.as_mut().poll(&mut cx)
}

/// For doubles that always complete immediately.
pub fn block_on<F: Future>(fut: F) -> F::Output {
    match poll_once(fut) {
        Poll::Ready(v) => v,
        Poll::Pending => panic!("harness: future unexpectedly pending"),
    }
}

#[derive(Debug, Clone, Copy, PartialEq, Eq)]
pub struct SpiErr;
impl embedded_hal::spi::Error for SpiErr {
    fn kind(&self) -> embedded_hal::spi::ErrorKind {
        embedded_hal::spi::ErrorKind::Other
    }
}

pub struct NullDelay;
impl DelayNs for NullDelay {
    async fn delay_ns(&mut self, _ns: u32) {}
}

/// Control lines that never fail and never block (C13: only the SPI bytes matter).
#[allow(dead_code)]
pub struct NullIv;
impl InterfaceVariant for NullIv {
    async fn reset(&mut self, _delay: &mut impl DelayNs) -> Result<(), RadioError> {
        Ok(())
    }
    async fn wait_on_busy(&mut self) -> Result<(), RadioError> {
        Ok(())
    }
    async fn await_irq(&mut self) -> Result<(), RadioError> {
        Ok(())
    }
    async fn enable_rf_switch_rx(&mut self) -> Result<(), RadioError> {
        Ok(())
    }
    async fn enable_rf_switch_tx(&mut self) -> Result<(), RadioError> {
        Ok(())
    }
    async fn disable_rf_switch(&mut self) -> Result<(), RadioError> {
        Ok(())
    }
}

/// Deterministic pseudo-random byte for (seed, index): the "prior register content".
pub fn prior_byte(seed: u64, idx: u64) -> u8 {
    let mut z = seed ^ idx.wrapping_mul(0x9E3779B97F4A7C15) ^ 0xD1B54A32D192ED03;
    z = (z ^ (z >> 30)).wrapping_mul(0xBF58476D1CE4E5B9);
    z = (z ^ (z >> 27)).wrapping_mul(0x94D049BB133111EB);
    (z ^ (z >> 31)) as u8
}

/// Control lines for the C13 history stage: like `NullIv`, but pulsing NRESET performs the chip
/// reset on the SPI double the driver talks to (the closure puts that double's register file /
/// chip state back to its reset defaults) and counts the pulses.
pub struct ResetIv {
    pub on_reset: Box<dyn FnMut()>,
    pub resets: std::rc::Rc<core::cell::Cell<u32>>,
}
impl ResetIv {
    pub fn new(on_reset: impl FnMut() + 'static) -> Self {
        ResetIv { on_reset: Box::new(on_reset), resets: std::rc::Rc::new(core::cell::Cell::new(0)) }
    }
}
impl InterfaceVariant for ResetIv {
    async fn reset(&mut self, _delay: &mut impl DelayNs) -> Result<(), RadioError> {
        (self.on_reset)();
        self.resets.set(self.resets.get() + 1);
        Ok(())
    }
    async fn wait_on_busy(&mut self) -> Result<(), RadioError> {
        Ok(())
    }
    async fn await_irq(&mut self) -> Result<(), RadioError> {
        Ok(())
    }
    async fn enable_rf_switch_rx(&mut self) -> Result<(), RadioError> {
        Ok(())
    }
    async fn enable_rf_switch_tx(&mut self) -> Result<(), RadioError> {
        Ok(())
    }
    async fn disable_rf_switch(&mut self) -> Result<(), RadioError> {
        Ok(())
    }
}
