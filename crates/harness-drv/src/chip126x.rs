//! Datasheet-level model of an SX1261/SX1262 (DS.SX1261-2.W.APP) for C14.
//!
//! Opcodes and register addresses are hard-coded from the datasheet - never taken from the
//! driver's enums, so a wrong enum value is not absorbed by the model. The model executes SPI
//! transactions, keeps the operating-mode machine, the register file with reset values, the
//! 256-byte data buffer, interrupt flags/masks, and the set of configuration items programmed
//! since the last configuration loss (POR, NRESET, wake-up from cold sleep). Monitors record
//! protocol violations (I2: command to a sleeping chip; I3: TX/RX started with missing
//! configuration).

use std::collections::{BTreeMap, BTreeSet};

#[derive(Clone, Copy, Debug, PartialEq, Eq)]
pub enum Mode126 {
    SleepCold,
    SleepWarm,
    StbyRc,
    StbyXosc,
    Fs,
    Tx,
    RxSingle,
    RxCont,
    /// RX duty cycle; `asleep` = currently in the sleep phase of the cycle (a generated input)
    RxDuty { asleep: bool },
    Cad,
}

#[derive(Clone, Debug)]
pub struct Viol {
    pub rule: &'static str,
    pub fp: String,
    pub detail: String,
}

#[derive(Clone, Debug, PartialEq, Eq)]
pub struct TxRec {
    pub freq_raw: u32,
    pub payload: Vec<u8>,
    pub sync: [u8; 2],
}

/// what the board configuration makes necessary (I3: "regulator/TCXO setup when configured")
#[derive(Clone, Copy, Debug, Default)]
pub struct Board126 {
    pub dcdc: bool,
    pub tcxo: bool,
}

pub const IRQ_TX_DONE: u16 = 0x0001;
pub const IRQ_RX_DONE: u16 = 0x0002;
pub const IRQ_PREAMBLE: u16 = 0x0004;
pub const IRQ_SYNC: u16 = 0x0008;
pub const IRQ_HEADER_VALID: u16 = 0x0010;
pub const IRQ_HEADER_ERR: u16 = 0x0020;
pub const IRQ_CRC_ERR: u16 = 0x0040;
pub const IRQ_CAD_DONE: u16 = 0x0080;
pub const IRQ_CAD_DET: u16 = 0x0100;
pub const IRQ_TIMEOUT: u16 = 0x0200;

pub struct Chip126x {
    pub board: Board126,
    pub mode: Mode126,
    pub regs: BTreeMap<u16, u8>,
    pub buffer: [u8; 256],
    pub programmed: BTreeSet<&'static str>,
    pub pkt_type: u8,
    pub irq: u16,
    pub irq_mask: u16,
    pub dio1_mask: u16,
    pub tx_base: u8,
    pub rx_base: u8,
    pub payload_len: u8,
    pub freq_raw: u32,
    pub rx_len: u8,
    pub rx_start: u8,
    pub tx_log: Vec<TxRec>,
    /// number of SetRx / SetRxDutyCycle commands accepted
    pub rx_starts: u32,
    pub viols: Vec<Viol>,
}

fn reset_regs() -> BTreeMap<u16, u8> {
    // reset values of the registers the datasheet documents (Table 12-1)
    let mut m = BTreeMap::new();
    m.insert(0x0740, 0x14);
    m.insert(0x0741, 0x24);
    m.insert(0x08AC, 0x94);
    m.insert(0x0889, 0x01);
    m.insert(0x0736, 0x0D);
    m.insert(0x08D8, 0xC8);
    m.insert(0x08E7, 0x18);
    m.insert(0x0911, 0x05);
    m.insert(0x0912, 0x05);
    m
}

impl Chip126x {
    pub fn new(board: Board126) -> Self {
        Chip126x {
            board,
            mode: Mode126::StbyRc,
            regs: reset_regs(),
            buffer: [0; 256],
            programmed: BTreeSet::new(),
            pkt_type: 0,
            irq: 0,
            irq_mask: 0,
            dio1_mask: 0,
            tx_base: 0,
            rx_base: 0,
            payload_len: 0,
            freq_raw: 0,
            rx_len: 0,
            rx_start: 0,
            tx_log: vec![],
            rx_starts: 0,
            viols: vec![],
        }
    }
    /// POR / NRESET / wake-up from cold sleep: all configuration is lost
    pub fn config_loss(&mut self) {
        let board = self.board;
        let tx_log = std::mem::take(&mut self.tx_log);
        let viols = std::mem::take(&mut self.viols);
        let rx_starts = self.rx_starts;
        *self = Chip126x::new(board);
        self.tx_log = tx_log;
        self.viols = viols;
        self.rx_starts = rx_starts;
    }
    pub fn asleep(&self) -> bool {
        matches!(self.mode, Mode126::SleepCold | Mode126::SleepWarm | Mode126::RxDuty { asleep: true })
    }
    pub fn plainly_asleep(&self) -> bool {
        matches!(self.mode, Mode126::SleepCold | Mode126::SleepWarm)
    }
    pub fn standby(&self) -> bool {
        matches!(self.mode, Mode126::StbyRc | Mode126::StbyXosc)
    }
    pub fn receiving(&self) -> bool {
        matches!(self.mode, Mode126::RxSingle | Mode126::RxCont | Mode126::RxDuty { .. })
    }
    pub fn dio1(&self) -> bool {
        self.irq & self.dio1_mask != 0
    }
    fn raise(&mut self, flags: u16) {
        self.irq |= flags & self.irq_mask;
    }
    fn reg(&self, a: u16) -> u8 {
        *self.regs.get(&a).unwrap_or(&0)
    }
    fn status(&self) -> u8 {
        let m = match self.mode {
            Mode126::StbyRc | Mode126::SleepCold | Mode126::SleepWarm => 2,
            Mode126::StbyXosc => 3,
            Mode126::Fs => 4,
            Mode126::RxSingle | Mode126::RxCont | Mode126::RxDuty { .. } | Mode126::Cad => 5,
            Mode126::Tx => 6,
        };
        (m << 4) | (1 << 1)
    }

    /// I3: everything a transmission / reception depends on has been programmed since the last
    /// configuration loss. `reduced`: RSSI listening and CAD only need packet type, frequency and
    /// modulation.
    fn check_configured(&mut self, what: &'static str, api_op: &str, reduced: bool) {
        let mut need: Vec<&'static str> = if reduced { vec!["packet-type", "frequency", "modulation"] } else { vec!["packet-type", "sync-word", "buffer-base", "modulation", "packet-params", "irq-params", "frequency"] };
        if !reduced && self.board.dcdc {
            need.push("regulator");
        }
        if !reduced && self.board.tcxo {
            need.push("tcxo");
        }
        let missing: Vec<&str> = need.iter().copied().filter(|n| !self.programmed.contains(n)).collect();
        if !missing.is_empty() {
            self.viols.push(Viol { rule: "I3", fp: format!("i3/sx126x/missing:{}", missing.join("+")), detail: format!("{what} during {api_op} although {} not programmed since the last configuration loss", missing.join(", ")) });
        } else if self.pkt_type != 1 {
            self.viols.push(Viol { rule: "I3", fp: "i3/sx126x/packet-type-not-lora".to_string(), detail: format!("{what} during {api_op} with packet type {}", self.pkt_type) });
        }
    }

    /// Executes one SPI transaction. `mosi` = all bytes clocked out (0x00 during reads);
    /// returns the MISO stream of the same length.
    pub fn transaction(&mut self, mosi: &[u8], api_op: &str) -> Vec<u8> {
        let mut miso = vec![0u8; mosi.len()];
        if mosi.is_empty() {
            return miso;
        }
        let op = mosi[0];
        // ---- I2: a sleeping chip only wakes up on NSS; the bytes of that transaction are lost.
        // The documented wake-up is a GetStatus (0xC0).
        if self.asleep() {
            let duty = matches!(self.mode, Mode126::RxDuty { .. });
            if op != 0xC0 {
                let (fp, what) = if duty { ("i2-dutycycle", "the sleep phase of RX duty cycle") } else { ("i2-sleep", "sleep") };
                self.viols.push(Viol { rule: "I2", fp: format!("{fp}/{api_op}/op{op:02x}"), detail: format!("command {op:#04x} sent during {api_op} while the chip is in {what} (no wake-up first); the command is lost") });
            }
            match self.mode {
                Mode126::SleepCold => self.config_loss(),
                _ => self.mode = Mode126::StbyRc,
            }
            return miso;
        }
        let status = self.status();
        for b in miso.iter_mut() {
            *b = status;
        }
        let p = |i: usize| *mosi.get(i).unwrap_or(&0);
        match op {
            0xC0 => {}
            0x84 => {
                self.mode = if p(1) & 0x04 != 0 { Mode126::SleepWarm } else { Mode126::SleepCold };
            }
            0x80 => self.mode = if p(1) & 1 == 1 { Mode126::StbyXosc } else { Mode126::StbyRc },
            0xC1 => self.mode = Mode126::Fs,
            0x83 => {
                self.check_configured("SetTx", api_op, false);
                let base = self.tx_base as usize;
                let payload: Vec<u8> = (0..self.payload_len as usize).map(|i| self.buffer[(base + i) & 0xFF]).collect();
                self.tx_log.push(TxRec { freq_raw: self.freq_raw, payload, sync: [self.reg(0x0740), self.reg(0x0741)] });
                self.mode = Mode126::Tx;
            }
            0x82 => {
                self.check_configured("SetRx", api_op, api_op == "listen");
                self.rx_starts += 1;
                let t = ((p(1) as u32) << 16) | ((p(2) as u32) << 8) | p(3) as u32;
                self.mode = if t == 0xFF_FFFF { Mode126::RxCont } else { Mode126::RxSingle };
            }
            0x94 => {
                self.check_configured("SetRxDutyCycle", api_op, false);
                self.rx_starts += 1;
                self.mode = Mode126::RxDuty { asleep: false };
            }
            0xC5 => {
                self.check_configured("SetCad", api_op, true);
                self.mode = Mode126::Cad;
            }
            0xD1 | 0xD2 => self.mode = Mode126::Tx,
            0x8A => {
                self.pkt_type = p(1);
                self.programmed.insert("packet-type");
            }
            0x86 => {
                self.freq_raw = u32::from_be_bytes([p(1), p(2), p(3), p(4)]);
                self.programmed.insert("frequency");
            }
            0x8B => {
                self.programmed.insert("modulation");
            }
            0x8C => {
                self.payload_len = p(4);
                self.programmed.insert("packet-params");
            }
            0x8F => {
                self.tx_base = p(1);
                self.rx_base = p(2);
                self.programmed.insert("buffer-base");
            }
            0x08 => {
                self.irq_mask = u16::from_be_bytes([p(1), p(2)]);
                self.dio1_mask = u16::from_be_bytes([p(3), p(4)]);
                self.programmed.insert("irq-params");
            }
            0x02 => {
                self.irq &= !u16::from_be_bytes([p(1), p(2)]);
            }
            0x12 => {
                if miso.len() > 2 {
                    miso[2] = (self.irq >> 8) as u8;
                }
                if miso.len() > 3 {
                    miso[3] = self.irq as u8;
                }
            }
            0x13 => {
                if miso.len() > 2 {
                    miso[2] = self.rx_len;
                }
                if miso.len() > 3 {
                    miso[3] = self.rx_start;
                }
            }
            0x14 => {
                for (i, v) in [80u8, 20, 80].iter().enumerate() {
                    if miso.len() > 2 + i {
                        miso[2 + i] = *v;
                    }
                }
            }
            0x15 => {
                if miso.len() > 2 {
                    miso[2] = 160;
                }
            }
            0x0D => {
                let addr = u16::from_be_bytes([p(1), p(2)]);
                for (i, b) in mosi.iter().skip(3).enumerate() {
                    let a = addr.wrapping_add(i as u16);
                    self.regs.insert(a, *b);
                    if a == 0x0740 || a == 0x0741 {
                        self.programmed.insert("sync-word");
                    }
                }
            }
            0x1D => {
                let addr = u16::from_be_bytes([p(1), p(2)]);
                for i in 4..miso.len() {
                    miso[i] = self.reg(addr.wrapping_add((i - 4) as u16));
                }
            }
            0x0E => {
                let off = p(1) as usize;
                for (i, b) in mosi.iter().skip(2).enumerate() {
                    self.buffer[(off + i) & 0xFF] = *b;
                }
            }
            0x1E => {
                let off = p(1) as usize;
                for i in 3..miso.len() {
                    miso[i] = self.buffer[(off + i - 3) & 0xFF];
                }
            }
            0x96 => {
                self.programmed.insert("regulator");
            }
            0x97 => {
                self.programmed.insert("tcxo");
            }
            0x95 => {
                self.programmed.insert("pa-config");
            }
            0x8E => {
                self.programmed.insert("tx-params");
            }
            // SetDio2AsRfSwitch, Calibrate, CalibrateImage, StopTimerOnPreamble, SymbNumTimeout,
            // CadParams, ClearDeviceErrors, GetDeviceErrors, SetRxTxFallbackMode, stats
            0x98 => {
                // CalibrateImage: the image calibration of the operating band is lost with the rest
                // of the configuration (POR/NRESET/cold start calibrate for the default band only)
                self.programmed.insert("image-calibration");
            }
            0x9D | 0x89 | 0x9F | 0xA0 | 0x88 | 0x07 | 0x17 | 0x93 | 0x10 | 0x00 | 0x11 => {}
            other => {
                self.viols.push(Viol { rule: "model", fp: format!("harness/sx126x/unknown-opcode-{other:02x}"), detail: format!("opcode {other:#04x} is not in the datasheet command table") });
            }
        }
        miso
    }

    pub fn nreset(&mut self) {
        self.config_loss();
    }

    /// A chip-side event while the host waits for an interrupt. Returns false if the event is
    /// impossible in the current mode (treated as a spurious DIO edge).
    pub fn event(&mut self, ev: &str, rx_payload: &[u8]) -> bool {
        if let Mode126::RxDuty { .. } = self.mode {
            self.mode = Mode126::RxDuty { asleep: false };
        }
        match (self.mode, ev) {
            (Mode126::Tx, "done") => {
                self.raise(IRQ_TX_DONE);
                self.mode = Mode126::StbyRc;
            }
            (Mode126::Tx, "timeout") => {
                self.raise(IRQ_TIMEOUT);
                self.mode = Mode126::StbyRc;
            }
            (Mode126::Tx, "timeout+done") => {
                self.raise(IRQ_TX_DONE | IRQ_TIMEOUT);
                self.mode = Mode126::StbyRc;
            }
            (Mode126::RxSingle | Mode126::RxCont | Mode126::RxDuty { .. }, "done" | "crc-error" | "timeout+done") => {
                let base = self.rx_base as usize;
                for (i, b) in rx_payload.iter().enumerate() {
                    self.buffer[(base + i) & 0xFF] = *b;
                }
                self.rx_len = rx_payload.len() as u8;
                self.rx_start = self.rx_base;
                // implicit-header payload length register
                self.regs.insert(0x0702, rx_payload.len() as u8);
                let mut f = IRQ_RX_DONE | IRQ_PREAMBLE | IRQ_SYNC | IRQ_HEADER_VALID;
                if ev == "crc-error" {
                    f |= IRQ_CRC_ERR;
                }
                if ev == "timeout+done" && self.mode != Mode126::RxCont {
                    // the RX timer is not stopped by RxDone (datasheet 15.3): both latched
                    f |= IRQ_TIMEOUT;
                }
                self.raise(f);
                if self.mode != Mode126::RxCont {
                    self.mode = Mode126::StbyRc;
                }
            }
            // a timeout that fires after the modem has raised informational flags, all latched
            // before the host reads the status (no timeout in continuous mode)
            (Mode126::RxSingle | Mode126::RxDuty { .. }, "preamble+timeout") => {
                self.raise(IRQ_PREAMBLE | IRQ_TIMEOUT);
                self.mode = Mode126::StbyRc;
            }
            (Mode126::RxSingle | Mode126::RxDuty { .. }, "header-valid+timeout") => {
                self.raise(IRQ_PREAMBLE | IRQ_SYNC | IRQ_HEADER_VALID | IRQ_TIMEOUT);
                self.mode = Mode126::StbyRc;
            }
            (Mode126::RxSingle | Mode126::RxDuty { .. }, "header-error+timeout") => {
                self.raise(IRQ_PREAMBLE | IRQ_SYNC | IRQ_HEADER_ERR | IRQ_TIMEOUT);
                self.mode = Mode126::StbyRc;
            }
            (Mode126::RxSingle | Mode126::RxCont | Mode126::RxDuty { .. }, "header-valid") => {
                self.raise(IRQ_PREAMBLE | IRQ_SYNC | IRQ_HEADER_VALID);
            }
            (Mode126::RxSingle | Mode126::RxDuty { .. }, "timeout") => {
                self.raise(IRQ_TIMEOUT);
                self.mode = Mode126::StbyRc;
            }
            (Mode126::RxSingle | Mode126::RxCont | Mode126::RxDuty { .. }, "header-error") => {
                self.raise(IRQ_PREAMBLE | IRQ_SYNC | IRQ_HEADER_ERR);
            }
            (Mode126::RxSingle | Mode126::RxCont | Mode126::RxDuty { .. }, "preamble") => {
                self.raise(IRQ_PREAMBLE);
            }
            (Mode126::Cad, "done") => {
                self.raise(IRQ_CAD_DONE);
                self.mode = Mode126::StbyRc;
            }
            (Mode126::Cad, "done-detected") => {
                self.raise(IRQ_CAD_DONE | IRQ_CAD_DET);
                self.mode = Mode126::StbyRc;
            }
            _ => return false,
        }
        true
    }
}
