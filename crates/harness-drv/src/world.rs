//! C14: the emulated board. One `World` per sequence holds the chip model, the numbered
//! bus/line interactions (for fault injection), the interrupt script of the running operation and
//! the monitors' findings. `WSpi`, `WIv`, `WDelay` are the doubles handed to lora-phy.

use crate::chip126x::{Chip126x, Viol};
use crate::chip127x::Chip127x;
use crate::doubles::SpiErr;
use core::future::poll_fn;
use core::task::Poll;
use embedded_hal::spi::Operation;
use lora_phy::mod_params::RadioError;
use lora_phy::mod_traits::InterfaceVariant;
use lora_phy::DelayNs;
use std::cell::RefCell;
use std::collections::VecDeque;
use std::rc::Rc;

pub enum Chip {
    C126(Chip126x),
    C127(Chip127x),
}

impl Chip {
    pub fn viols(&mut self) -> &mut Vec<Viol> {
        match self {
            Chip::C126(c) => &mut c.viols,
            Chip::C127(c) => &mut c.viols,
        }
    }
    pub fn plainly_asleep(&self) -> bool {
        match self {
            Chip::C126(c) => c.plainly_asleep(),
            Chip::C127(c) => c.asleep(),
        }
    }
    pub fn standby(&self) -> bool {
        match self {
            Chip::C126(c) => c.standby(),
            Chip::C127(c) => c.standby(),
        }
    }
    pub fn receiving(&self) -> bool {
        match self {
            Chip::C126(c) => c.receiving(),
            Chip::C127(c) => c.receiving(),
        }
    }
    /// SX126x: has CalibrateImage been issued since the last configuration loss? (None: the part
    /// calibrates by itself - SX127x)
    pub fn image_calibrated(&self) -> Option<bool> {
        match self {
            Chip::C126(c) => Some(c.programmed.contains("image-calibration")),
            Chip::C127(_) => None,
        }
    }
    pub fn mode_name(&self) -> String {
        match self {
            Chip::C126(c) => format!("{:?}", c.mode),
            Chip::C127(c) => format!("opmode {:#04x}", c.regs[1]),
        }
    }
    pub fn irq_line(&self) -> bool {
        match self {
            Chip::C126(c) => c.dio1(),
            Chip::C127(c) => c.dio(),
        }
    }
    pub fn rx_starts(&self) -> u32 {
        match self {
            Chip::C126(c) => c.rx_starts,
            Chip::C127(c) => c.rx_starts,
        }
    }
    pub fn tx_count(&self) -> usize {
        match self {
            Chip::C126(c) => c.tx_log.len(),
            Chip::C127(c) => c.tx_log.len(),
        }
    }
}

pub struct World {
    pub chip: Chip,
    /// number of bus/line interactions so far (SPI transactions and InterfaceVariant calls)
    pub inter: u32,
    pub fault_at: Option<u32>,
    pub fault_hit: Option<String>,
    /// (API call, interaction kind, first MOSI byte for SPI) of the failed interaction
    pub fault_info: Option<(String, String, Option<u8>)>,
    /// position-independent description of the failed interaction: (step, kind, first MOSI
    /// byte, how many interactions of that kind/byte preceded it within the step)
    pub fault_sel_hit: Option<(i32, String, Option<u8>, u32)>,
    /// fault selection by description instead of by absolute index (replay files)
    pub fault_sel: Option<(i32, String, Option<u8>, u32)>,
    /// index of the API call being executed (-1: the constructor)
    pub step: i32,
    occ: std::collections::BTreeMap<(String, Option<u8>), u32>,
    /// interrupt outcomes still to be delivered to the running operation
    pub script: VecDeque<String>,
    pub rx_payload: Vec<u8>,
    /// await_irq found nothing to deliver: the operation is blocked on the environment
    pub blocked: bool,
    pub cur_op: String,
    /// interactions during the current API call
    pub op_inter: u32,
    pub irq_waits: u32,
    pub resets: u32,
    /// a terminal outcome (done / timeout / error set) the chip accepted and latched during the
    /// current API call
    pub terminal_in_op: Option<String>,
}

pub type Shared = Rc<RefCell<World>>;

impl World {
    pub fn new(chip: Chip) -> Shared {
        Rc::new(RefCell::new(World { chip, inter: 0, fault_at: None, fault_hit: None, fault_info: None, fault_sel_hit: None, fault_sel: None, step: -1, occ: Default::default(), script: VecDeque::new(), rx_payload: vec![], blocked: false, cur_op: "new".into(), op_inter: 0, irq_waits: 0, resets: 0, terminal_in_op: None }))
    }
    pub fn begin_step(&mut self, step: i32) {
        self.terminal_in_op = None;
        self.step = step;
        self.occ.clear();
    }
    /// Counts one interaction; true = this is the one that must fail.
    fn interaction(&mut self, kind: &str, first: Option<u8>) -> bool {
        let k = self.inter;
        self.inter += 1;
        self.op_inter += 1;
        // an operation needs at most a few hundred bus/line interactions; one that keeps exchanging with
        // the chip (a loop that never awaits the interrupt line) would otherwise never come back
        if self.op_inter > 50_000 {
            self.op_inter = 0;
            panic!("interaction budget exceeded: {} keeps exchanging with the chip and does not return", self.cur_op);
        }
        let key = (kind.to_string(), first);
        let nth = *self.occ.get(&key).unwrap_or(&0);
        self.occ.insert(key, nth + 1);
        let by_sel = match &self.fault_sel {
            Some((st, kd, fb, n)) => *st == self.step && kd == kind && *fb == first && *n == nth && self.fault_hit.is_none(),
            None => false,
        };
        if self.fault_at == Some(k) || by_sel {
            self.fault_hit = Some(format!("{kind} (interaction {k}, during {})", self.cur_op));
            self.fault_info = Some((self.cur_op.clone(), kind.to_string(), first));
            self.fault_sel_hit = Some((self.step, kind.to_string(), first, nth));
            return true;
        }
        false
    }
    fn undo_interaction(&mut self, kind: &str) {
        self.inter -= 1;
        self.op_inter -= 1;
        let key = (kind.to_string(), None);
        if let Some(n) = self.occ.get_mut(&key) {
            *n = n.saturating_sub(1);
        }
    }
}

pub struct WSpi(pub Shared);
impl embedded_hal::spi::ErrorType for WSpi {
    type Error = SpiErr;
}
impl embedded_hal_async::spi::SpiDevice<u8> for WSpi {
    async fn transaction(&mut self, operations: &mut [Operation<'_, u8>]) -> Result<(), SpiErr> {
        let mut guard = self.0.borrow_mut();
        let w = &mut *guard;
        let mut mosi: Vec<u8> = Vec::with_capacity(16);
        for op in operations.iter() {
            match op {
                Operation::Write(b) => mosi.extend_from_slice(b),
                Operation::Read(b) => mosi.extend(std::iter::repeat(0u8).take(b.len())),
                Operation::Transfer(r, wr) => {
                    for i in 0..r.len().max(wr.len()) {
                        mosi.push(*wr.get(i).unwrap_or(&0));
                    }
                }
                Operation::TransferInPlace(b) => mosi.extend_from_slice(b),
                Operation::DelayNs(_) => {}
            }
        }
        if w.interaction("spi", mosi.first().copied()) {
            // the transfer does not reach the chip
            return Err(SpiErr);
        }
        let api = w.cur_op.clone();
        let miso = match &mut w.chip {
            Chip::C126(c) => c.transaction(&mosi, &api),
            Chip::C127(c) => c.transaction(&mosi, &api),
        };
        let mut pos = 0usize;
        for op in operations.iter_mut() {
            match op {
                Operation::Write(b) => pos += b.len(),
                Operation::Read(b) => {
                    for x in b.iter_mut() {
                        *x = miso[pos];
                        pos += 1;
                    }
                }
                Operation::Transfer(r, wr) => {
                    let n = r.len().max(wr.len());
                    for i in 0..r.len() {
                        r[i] = miso[pos + i];
                    }
                    pos += n;
                }
                Operation::TransferInPlace(b) => {
                    for x in b.iter_mut() {
                        *x = miso[pos];
                        pos += 1;
                    }
                }
                Operation::DelayNs(_) => {}
            }
        }
        Ok(())
    }
}

pub struct WIv(pub Shared);
impl InterfaceVariant for WIv {
    async fn reset(&mut self, _delay: &mut impl DelayNs) -> Result<(), RadioError> {
        let mut guard = self.0.borrow_mut();
        let w = &mut *guard;
        if w.interaction("reset", None) {
            return Err(RadioError::Reset);
        }
        w.resets += 1;
        match &mut w.chip {
            Chip::C126(c) => c.nreset(),
            Chip::C127(c) => c.nreset(),
        }
        Ok(())
    }
    async fn wait_on_busy(&mut self) -> Result<(), RadioError> {
        let mut guard = self.0.borrow_mut();
        let w = &mut *guard;
        if w.interaction("busy", None) {
            return Err(RadioError::Busy);
        }
        // BUSY stays high while an SX126x sleeps: waiting on it never ends
        if let Chip::C126(c) = &mut w.chip {
            if c.plainly_asleep() {
                let api = &w.cur_op;
                c.viols.push(Viol { rule: "I2", fp: format!("i2-sleep/{api}/busy-wait"), detail: format!("{api} waits for BUSY to go low while the chip sleeps (BUSY is high in sleep mode): the driver believes the chip is awake") });
                return Err(RadioError::Busy);
            }
        }
        Ok(())
    }
    async fn await_irq(&mut self) -> Result<(), RadioError> {
        let shared = self.0.clone();
        poll_fn(move |_cx| {
            let mut guard = shared.borrow_mut();
            let w = &mut *guard;
            if w.interaction("irq", None) {
                return Poll::Ready(Err(RadioError::Irq));
            }
            w.irq_waits += 1;
            // level-sensitive line: still asserted while unmasked flags are pending
            if w.chip.irq_line() {
                return Poll::Ready(Ok(()));
            }
            match w.script.pop_front() {
                Some(ev) => {
                    let payload = w.rx_payload.clone();
                    let accepted = match &mut w.chip {
                        Chip::C126(c) => c.event(&ev, &payload),
                        Chip::C127(c) => c.event(&ev, &payload),
                    };
                    let terminal = ev.contains("done") || ev.contains("timeout") || ev == "crc-error";
                    if accepted && terminal && w.chip.irq_line() {
                        w.terminal_in_op = Some(ev.clone());
                    }
                    // the line fires (for "spurious" without any flag behind it)
                    Poll::Ready(Ok(()))
                }
                None => {
                    // nothing will ever arrive: blocked on the environment. The interaction is
                    // not consumed (a re-poll would find the same).
                    w.blocked = true;
                    w.undo_interaction("irq");
                    w.irq_waits -= 1;
                    Poll::Pending
                }
            }
        })
        .await
    }
    async fn enable_rf_switch_rx(&mut self) -> Result<(), RadioError> {
        if self.0.borrow_mut().interaction("rfswitch", None) {
            return Err(RadioError::RfSwitchRx);
        }
        Ok(())
    }
    async fn enable_rf_switch_tx(&mut self) -> Result<(), RadioError> {
        if self.0.borrow_mut().interaction("rfswitch", None) {
            return Err(RadioError::RfSwitchTx);
        }
        Ok(())
    }
    async fn disable_rf_switch(&mut self) -> Result<(), RadioError> {
        if self.0.borrow_mut().interaction("rfswitch", None) {
            return Err(RadioError::RfSwitchRx);
        }
        Ok(())
    }
}

pub struct WDelay;
impl DelayNs for WDelay {
    async fn delay_ns(&mut self, _ns: u32) {}
}
