//! AES-128 written from FIPS-197 (no code shared with the `aes` crate).
//! The S-box is computed from its definition (multiplicative inverse in GF(2^8)
//! followed by the affine transformation) and checked by the self-test.

use std::sync::OnceLock;

struct Tables {
    sbox: [u8; 256],
    inv: [u8; 256],
}

fn gmul(mut a: u8, mut b: u8) -> u8 {
    let mut p = 0u8;
    for _ in 0..8 {
        if b & 1 != 0 {
            p ^= a;
        }
        let hi = a & 0x80;
        a <<= 1;
        if hi != 0 {
            a ^= 0x1b;
        }
        b >>= 1;
    }
    p
}

fn tables() -> &'static Tables {
    static T: OnceLock<Tables> = OnceLock::new();
    T.get_or_init(|| {
        let mut sbox = [0u8; 256];
        let mut inv = [0u8; 256];
        for x in 0..256usize {
            // multiplicative inverse (0 -> 0)
            let mut i = 0u8;
            if x != 0 {
                for y in 1..256usize {
                    if gmul(x as u8, y as u8) == 1 {
                        i = y as u8;
                        break;
                    }
                }
            }
            let s = i ^ i.rotate_left(1) ^ i.rotate_left(2) ^ i.rotate_left(3) ^ i.rotate_left(4) ^ 0x63;
            sbox[x] = s;
            inv[s as usize] = x as u8;
        }
        Tables { sbox, inv }
    })
}

#[derive(Clone)]
pub struct Aes128 {
    rk: [[u8; 16]; 11],
}

impl Aes128 {
    pub fn new(key: &[u8; 16]) -> Self {
        let t = tables();
        let mut w = [[0u8; 4]; 44];
        for i in 0..4 {
            w[i].copy_from_slice(&key[4 * i..4 * i + 4]);
        }
        let mut rcon = 1u8;
        for i in 4..44 {
            let mut tmp = w[i - 1];
            if i % 4 == 0 {
                tmp = [t.sbox[tmp[1] as usize] ^ rcon, t.sbox[tmp[2] as usize], t.sbox[tmp[3] as usize], t.sbox[tmp[0] as usize]];
                rcon = gmul(rcon, 2);
            }
            for j in 0..4 {
                w[i][j] = w[i - 4][j] ^ tmp[j];
            }
        }
        let mut rk = [[0u8; 16]; 11];
        for r in 0..11 {
            for c in 0..4 {
                rk[r][4 * c..4 * c + 4].copy_from_slice(&w[4 * r + c]);
            }
        }
        Aes128 { rk }
    }

    fn add(state: &mut [u8; 16], k: &[u8; 16]) {
        for i in 0..16 {
            state[i] ^= k[i];
        }
    }

    pub fn encrypt(&self, block: &[u8; 16]) -> [u8; 16] {
        let t = tables();
        let mut s = *block;
        Self::add(&mut s, &self.rk[0]);
        for r in 1..=10 {
            for b in s.iter_mut() {
                *b = t.sbox[*b as usize];
            }
            // ShiftRows: state is column-major, s[4*c + r]
            let o = s;
            for c in 0..4 {
                for row in 0..4 {
                    s[4 * c + row] = o[4 * ((c + row) % 4) + row];
                }
            }
            if r != 10 {
                for c in 0..4 {
                    let a = [s[4 * c], s[4 * c + 1], s[4 * c + 2], s[4 * c + 3]];
                    s[4 * c] = gmul(a[0], 2) ^ gmul(a[1], 3) ^ a[2] ^ a[3];
                    s[4 * c + 1] = a[0] ^ gmul(a[1], 2) ^ gmul(a[2], 3) ^ a[3];
                    s[4 * c + 2] = a[0] ^ a[1] ^ gmul(a[2], 2) ^ gmul(a[3], 3);
                    s[4 * c + 3] = gmul(a[0], 3) ^ a[1] ^ a[2] ^ gmul(a[3], 2);
                }
            }
            Self::add(&mut s, &self.rk[r]);
        }
        s
    }

    pub fn decrypt(&self, block: &[u8; 16]) -> [u8; 16] {
        let t = tables();
        let mut s = *block;
        Self::add(&mut s, &self.rk[10]);
        for r in (0..10).rev() {
            // InvShiftRows
            let o = s;
            for c in 0..4 {
                for row in 0..4 {
                    s[4 * ((c + row) % 4) + row] = o[4 * c + row];
                }
            }
            for b in s.iter_mut() {
                *b = t.inv[*b as usize];
            }
            Self::add(&mut s, &self.rk[r]);
            if r != 0 {
                for c in 0..4 {
                    let a = [s[4 * c], s[4 * c + 1], s[4 * c + 2], s[4 * c + 3]];
                    s[4 * c] = gmul(a[0], 14) ^ gmul(a[1], 11) ^ gmul(a[2], 13) ^ gmul(a[3], 9);
                    s[4 * c + 1] = gmul(a[0], 9) ^ gmul(a[1], 14) ^ gmul(a[2], 11) ^ gmul(a[3], 13);
                    s[4 * c + 2] = gmul(a[0], 13) ^ gmul(a[1], 9) ^ gmul(a[2], 14) ^ gmul(a[3], 11);
                    s[4 * c + 3] = gmul(a[0], 11) ^ gmul(a[1], 13) ^ gmul(a[2], 9) ^ gmul(a[3], 14);
                }
            }
        }
        s
    }
}

/// RFC 4493 AES-CMAC.
pub fn cmac(key: &Aes128, msg: &[u8]) -> [u8; 16] {
    fn dbl(b: &[u8; 16]) -> [u8; 16] {
        let mut o = [0u8; 16];
        for i in 0..16 {
            o[i] = (b[i] << 1) | if i < 15 { b[i + 1] >> 7 } else { 0 };
        }
        if b[0] & 0x80 != 0 {
            o[15] ^= 0x87;
        }
        o
    }
    let l = key.encrypt(&[0u8; 16]);
    let k1 = dbl(&l);
    let k2 = dbl(&k1);
    let n = if msg.is_empty() { 1 } else { (msg.len() + 15) / 16 };
    let complete = !msg.is_empty() && msg.len() % 16 == 0;
    let mut x = [0u8; 16];
    for i in 0..n - 1 {
        for j in 0..16 {
            x[j] ^= msg[16 * i + j];
        }
        x = key.encrypt(&x);
    }
    let mut last = [0u8; 16];
    let tail = &msg[16 * (n - 1)..];
    if complete {
        for j in 0..16 {
            last[j] = tail[j] ^ k1[j];
        }
    } else {
        last[..tail.len()].copy_from_slice(tail);
        last[tail.len()] = 0x80;
        for j in 0..16 {
            last[j] ^= k2[j];
        }
    }
    for j in 0..16 {
        x[j] ^= last[j];
    }
    key.encrypt(&x)
}

fn hex(s: &str) -> Vec<u8> {
    (0..s.len() / 2).map(|i| u8::from_str_radix(&s[2 * i..2 * i + 2], 16).unwrap()).collect()
}

/// Published vectors: FIPS-197 Appendix B / C.1, RFC 4493 section 4.
pub fn self_test() -> Result<(), String> {
    let k: [u8; 16] = hex("000102030405060708090a0b0c0d0e0f").try_into().unwrap();
    let p: [u8; 16] = hex("00112233445566778899aabbccddeeff").try_into().unwrap();
    let c: [u8; 16] = hex("69c4e0d86a7b0430d8cdb78070b4c55a").try_into().unwrap();
    let a = Aes128::new(&k);
    if a.encrypt(&p) != c {
        return Err("FIPS-197 C.1 encrypt".into());
    }
    if a.decrypt(&c) != p {
        return Err("FIPS-197 C.1 decrypt".into());
    }
    let k: [u8; 16] = hex("2b7e151628aed2a6abf7158809cf4f3c").try_into().unwrap();
    let p: [u8; 16] = hex("3243f6a8885a308d313198a2e0370734").try_into().unwrap();
    let c: [u8; 16] = hex("3925841d02dc09fbdc118597196a0b32").try_into().unwrap();
    let a = Aes128::new(&k);
    if a.encrypt(&p) != c || a.decrypt(&c) != p {
        return Err("FIPS-197 App. B".into());
    }
    let m = hex("6bc1bee22e409f96e93d7e117393172aae2d8a571e03ac9c9eb76fac45af8e5130c81c46a35ce411e5fbc1191a0a52eff69f2445df4f9b17ad2b417be66c3710");
    let exp = [
        (0usize, "bb1d6929e95937287fa37d129b756746"),
        (16, "070a16b46b4d4144f79bdd9dd04a287c"),
        (40, "dfa66747de9ae63030ca32611497c827"),
        (64, "51f0bebf7e3b9d92fc49741779363cfe"),
    ];
    for (n, e) in exp {
        if cmac(&a, &m[..n]).to_vec() != hex(e) {
            return Err(format!("RFC 4493 example len {n}"));
        }
    }
    Ok(())
}
