//! Semtech LoRa modem airtime formula (SX1276 datasheet 4.1.1.7 / AN1200.13) in exact integer
//! arithmetic, and the LDRO rule (symbol time >= 16.38 ms). No dependency on the crate under test.

/// floor(2^sf * 10^6 / bw_hz): the symbol time truncated to the microsecond (documented by the crate).
pub fn t_sym_us(sf: u32, bw_hz: u32) -> u64 {
    ((1u64 << sf) * 1_000_000) / bw_hz as u64
}

/// true mathematical ceiling of a/b for b > 0, any sign of a
pub fn ceil_div(a: i64, b: i64) -> i64 {
    assert!(b > 0);
    let q = a.div_euclid(b);
    if a.rem_euclid(b) != 0 {
        q + 1
    } else {
        q
    }
}

pub fn payload_symbols(sf: u32, cr_denom: u32, ldro: bool, explicit_header: bool, len: u32) -> i64 {
    let sf = sf as i64;
    let de = if ldro { 1 } else { 0 };
    let h = if explicit_header { 0 } else { 1 };
    let num = 8 * len as i64 - 4 * sf + 28 + 16 - 20 * h;
    let den = 4 * (sf - 2 * de);
    let r = ceil_div(num, den) * cr_denom as i64;
    8 + r.max(0)
}

pub fn numerator(sf: u32, explicit_header: bool, len: u32) -> i64 {
    8 * len as i64 - 4 * sf as i64 + 28 + 16 - if explicit_header { 0 } else { 20 }
}

/// time on air in microseconds (u128 so that it can never overflow here)
pub fn time_on_air_us(sf: u32, bw_hz: u32, cr_denom: u32, ldro: bool, preamble: Option<u32>, explicit_header: bool, len: u32) -> u128 {
    let n = payload_symbols(sf, cr_denom, ldro, explicit_header, len) as u128;
    let t = t_sym_us(sf, bw_hz) as u128;
    match preamble {
        None => n * t,
        Some(p) => (4 * p as u128 + 17 + 4 * n) * t / 4,
    }
}

/// LDRO rule: on exactly when the symbol time 2^SF / BW >= 16.38 ms, evaluated exactly:
/// 2^SF / BW >= 1638/100000 s  <=>  2^SF * 100000 >= 1638 * BW
pub fn ldro_rule(sf: u32, bw_hz_nominal_times_1000: u64) -> bool {
    // bandwidth given in milli-hertz so that 7.8125 kHz etc. are exact
    (1u128 << sf) * 100_000u128 * 1000 >= 1638u128 * bw_hz_nominal_times_1000 as u128
}

/// nominal LoRa bandwidths in milli-hertz, index = crate enum order (_7KHz .. _500KHz)
pub const NOMINAL_BW_MILLIHZ: [u64; 10] =
    [7_812_500, 10_416_667, 15_625_000, 20_833_333, 31_250_000, 41_666_667, 62_500_000, 125_000_000, 250_000_000, 500_000_000];
