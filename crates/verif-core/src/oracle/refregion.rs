// placeholder
