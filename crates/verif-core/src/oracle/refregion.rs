//! Regional parameters (RP002-1.0.3) for the nine regions the crate supports, as data derived from
//! the specification's formulas where it gives formulas. Where RP002 revisions differ a cell holds
//! a *set* of admissible values; `None` means "don't care" (never an alarm).

#[derive(Debug, Clone, Copy, PartialEq, Eq, Hash)]
pub enum Reg {
    Eu868,
    Eu433,
    In865,
    As923(u8), // group 1..=4
    Us915,
    Au915,
}

impl Reg {
    pub fn from_name(s: &str) -> Option<Reg> {
        Some(match s {
            "EU868" => Reg::Eu868,
            "EU433" => Reg::Eu433,
            "IN865" => Reg::In865,
            "AS923_1" => Reg::As923(1),
            "AS923_2" => Reg::As923(2),
            "AS923_3" => Reg::As923(3),
            "AS923_4" => Reg::As923(4),
            "US915" => Reg::Us915,
            "AU915" => Reg::Au915,
            _ => return None,
        })
    }
    pub fn fixed(self) -> bool {
        matches!(self, Reg::Us915 | Reg::Au915)
    }

    /// AS923 group frequency offset in Hz (subtracted)
    pub fn as923_offset(self) -> u32 {
        match self {
            Reg::As923(2) => 1_800_000,
            Reg::As923(3) => 6_600_000,
            Reg::As923(4) => 5_900_000,
            _ => 0,
        }
    }

    /// band limits used for "frequency belongs to the region's band" (inclusive)
    pub fn band(self) -> (u32, u32) {
        match self {
            Reg::Eu868 => (863_000_000, 870_000_000),
            Reg::Eu433 => (433_050_000, 434_790_000),
            Reg::In865 => (865_000_000, 867_000_000),
            Reg::As923(4) => (917_000_000, 920_000_000),
            Reg::As923(_) => (915_000_000, 928_000_000),
            Reg::Us915 => (902_000_000, 928_000_000),
            Reg::Au915 => (915_000_000, 928_000_000),
        }
    }

    /// LoRa data rates RP002 defines: (SF, bandwidth Hz). FSK / LR-FHSS / RFU -> None.
    pub fn dr(self, dr: u8) -> Option<(u8, u32)> {
        let k125 = |sf| Some((sf, 125_000));
        match self {
            Reg::Eu868 | Reg::Eu433 | Reg::As923(_) => match dr {
                0..=5 => k125(12 - dr),
                6 => Some((7, 250_000)),
                _ => None,
            },
            Reg::In865 => match dr {
                0..=5 => k125(12 - dr),
                _ => None,
            },
            Reg::Us915 => match dr {
                0..=3 => k125(10 - dr),
                4 => Some((8, 500_000)),
                8..=13 => Some((20 - dr, 500_000)),
                _ => None,
            },
            Reg::Au915 => match dr {
                0..=5 => k125(12 - dr),
                6 => Some((8, 500_000)),
                8..=13 => Some((20 - dr, 500_000)),
                _ => None,
            },
        }
    }

    /// data rates an end-device may use for uplinks
    pub fn is_uplink_dr(self, dr: u8) -> bool {
        self.dr(dr).is_some() && !(self.fixed() && dr >= 8)
    }

    pub fn dr_of(self, sf: u8, bw_hz: u32, uplink: bool) -> Option<u8> {
        (0..16u8).find(|d| self.dr(*d) == Some((sf, bw_hz)) && (!uplink || self.is_uplink_dr(*d)) && (uplink || !self.fixed() || *d >= 8 || self.dr(*d).map(|x| x.1) != Some(500_000) || true))
    }

    /// downlink data rate with these parameters (fixed plans: the 500 kHz DR8..13 family first)
    pub fn downlink_dr_of(self, sf: u8, bw_hz: u32) -> Option<u8> {
        if self.fixed() {
            if let Some(d) = (8..=13u8).find(|d| self.dr(*d) == Some((sf, bw_hz))) {
                return Some(d);
            }
        }
        (0..16u8).find(|d| self.dr(*d) == Some((sf, bw_hz)))
    }

    /// admissible maximum MACPayload sizes M (no repeater, no dwell-time limit); a received PHY
    /// payload fits when len <= M + 5
    pub fn max_payload(self, dr: u8) -> Option<&'static [u8]> {
        match self {
            Reg::Eu868 | Reg::Eu433 => match dr {
                0..=2 => Some(&[59]),
                3 => Some(&[123]),
                4..=6 => Some(&[250]),
                _ => None,
            },
            Reg::In865 => match dr {
                0..=2 => Some(&[59]),
                3 => Some(&[123]),
                4..=5 => Some(&[250]),
                _ => None,
            },
            Reg::As923(_) => match dr {
                0..=1 => Some(&[59]),
                2 => Some(&[59, 123]),
                3 => Some(&[123]),
                4..=6 => Some(&[250]),
                _ => None,
            },
            Reg::Us915 => match dr {
                0 => Some(&[19]),
                1 => Some(&[61]),
                2 => Some(&[133]),
                3 | 4 => Some(&[250]),
                8 => Some(&[61]),
                9 => Some(&[137]),
                10..=13 => Some(&[250]),
                _ => None,
            },
            Reg::Au915 => match dr {
                0..=2 => Some(&[59]),
                3 => Some(&[123]),
                4..=6 => Some(&[250]),
                8 => Some(&[61]),
                9 => Some(&[137]),
                10..=13 => Some(&[250]),
                _ => None,
            },
        }
    }

    pub fn max_rx1_offset(self) -> u8 {
        match self {
            Reg::Eu868 | Reg::Eu433 | Reg::Au915 => 5,
            Reg::In865 | Reg::As923(_) => 7,
            Reg::Us915 => 3,
        }
    }

    /// admissible RX1 data rates for (uplink DR, RX1DROffset); None = don't care.
    pub fn rx1_dr(self, up: u8, off: u8) -> Option<Vec<u8>> {
        if !self.is_uplink_dr(up) || off > self.max_rx1_offset() {
            return None;
        }
        match self {
            Reg::Eu868 | Reg::Eu433 => Some(vec![up.saturating_sub(off)]),
            Reg::Us915 => Some(vec![(10 + up as i32 - off as i32).clamp(8, 13) as u8]),
            Reg::Au915 => Some(vec![(8 + up as i32 - off as i32).clamp(8, 13) as u8]),
            Reg::As923(_) | Reg::In865 => {
                if off <= 5 {
                    Some(vec![up.saturating_sub(off)])
                } else {
                    // effective offsets -1 / -2: the result is capped at DR5 in older RP002 revisions
                    // and at DR7 in newer ones; DR6/DR7 may be RFU/FSK. Any LoRa data rate the region
                    // defines between min(up+k,5) and 7 is admissible.
                    let k = off - 5;
                    let raw = up + k;
                    let mut v: Vec<u8> = vec![raw.min(5)];
                    for d in [raw.min(7), raw.min(6)] {
                        if self.dr(d).is_some() && !v.contains(&d) {
                            v.push(d);
                        }
                    }
                    // whatever the cap, a region-defined LoRa rate is required; when the tabulated
                    // rate is FSK/RFU the crate may fall back: accept every defined rate >= min
                    let lo = *v.iter().min().unwrap();
                    for d in lo..=7 {
                        if self.dr(d).is_some() && !v.contains(&d) && raw > 5 {
                            v.push(d);
                        }
                    }
                    if raw > 5 {
                        // fallback of an unimplemented rate to the RX2 data rate is also tolerated
                        let r2 = self.rx2_default().1;
                        if !v.contains(&r2) {
                            v.push(r2);
                        }
                    }
                    Some(v)
                }
            }
        }
    }

    /// (frequency Hz, data rate)
    pub fn rx2_default(self) -> (u32, u8) {
        match self {
            Reg::Eu868 => (869_525_000, 0),
            Reg::Eu433 => (434_665_000, 0),
            Reg::In865 => (866_550_000, 2),
            Reg::As923(_) => (923_200_000 - self.as923_offset(), 2),
            Reg::Us915 | Reg::Au915 => (923_300_000, 8),
        }
    }

    /// EIRP in dBm of TXPower index `idx` (None: index not defined for the region)
    pub fn tx_power_eirp(self, idx: u8) -> Option<i32> {
        let max_idx = match self {
            Reg::Eu868 | Reg::As923(_) => 7,
            Reg::Eu433 => 5,
            Reg::In865 => 10,
            Reg::Us915 | Reg::Au915 => 14,
        };
        if idx > max_idx {
            return None;
        }
        Some(self.max_eirp_floor() - 2 * idx as i32)
    }

    /// regional default MaxEIRP, rounded down to an integer dBm (EU433: 12.15 dBm)
    pub fn max_eirp_floor(self) -> i32 {
        match self {
            Reg::Eu868 | Reg::As923(_) => 16,
            Reg::Eu433 => 12,
            Reg::In865 | Reg::Us915 | Reg::Au915 => 30,
        }
    }

    pub fn valid_chmask_cntl(self) -> &'static [u8] {
        if self.fixed() {
            &[0, 1, 2, 3, 4, 5, 6, 7]
        } else {
            &[0, 6]
        }
    }

    // ---- dynamic plans
    pub fn default_channels(self) -> Vec<u32> {
        match self {
            Reg::Eu868 => vec![868_100_000, 868_300_000, 868_500_000],
            Reg::Eu433 => vec![433_175_000, 433_375_000, 433_575_000],
            Reg::In865 => vec![865_062_500, 865_402_500, 865_985_000],
            Reg::As923(_) => vec![923_200_000 - self.as923_offset(), 923_400_000 - self.as923_offset()],
            _ => vec![],
        }
    }

    // ---- fixed plans
    pub fn uplink_freq(self, ch: usize) -> Option<u32> {
        match self {
            Reg::Us915 if ch < 64 => Some(902_300_000 + 200_000 * ch as u32),
            Reg::Us915 if ch < 72 => Some(903_000_000 + 1_600_000 * (ch as u32 - 64)),
            Reg::Au915 if ch < 64 => Some(915_200_000 + 200_000 * ch as u32),
            Reg::Au915 if ch < 72 => Some(915_900_000 + 1_600_000 * (ch as u32 - 64)),
            _ => None,
        }
    }
    pub fn channel_of_uplink_freq(self, f: u32) -> Option<usize> {
        (0..72).find(|c| self.uplink_freq(*c) == Some(f))
    }
    pub fn downlink_freq(self, ch: usize) -> Option<u32> {
        if self.fixed() && ch < 72 {
            Some(923_300_000 + 600_000 * (ch as u32 % 8))
        } else {
            None
        }
    }
    /// admissible join data rates on a fixed-plan channel
    pub fn fixed_join_drs(self, ch: usize) -> Vec<u8> {
        match (self, ch < 64) {
            (Reg::Us915, true) => vec![0],
            (Reg::Us915, false) => vec![4],
            (Reg::Au915, true) => vec![0, 2],
            (Reg::Au915, false) => vec![6],
            _ => vec![],
        }
    }
}
