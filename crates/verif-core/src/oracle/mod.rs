pub mod aes;
pub mod airtime;
pub mod refcodec;
pub mod refregion;

pub fn self_test() -> Result<(), String> {
    aes::self_test()?;
    refcodec::self_test()?;
    Ok(())
}
