//! Independent LoRaWAN 1.0.x frame codec written from the L2 specification.
//! Shares no code with the `lorawan` crate.

use super::aes::{cmac, Aes128};

#[derive(Debug, Clone, Copy, PartialEq, Eq, Hash)]
pub enum FType {
    UnconfUp,
    UnconfDown,
    ConfUp,
    ConfDown,
}

impl FType {
    pub const ALL: [FType; 4] = [FType::UnconfUp, FType::UnconfDown, FType::ConfUp, FType::ConfDown];
    pub fn mtype(self) -> u8 {
        match self {
            FType::UnconfUp => 2,
            FType::UnconfDown => 3,
            FType::ConfUp => 4,
            FType::ConfDown => 5,
        }
    }
    pub fn from_mtype(m: u8) -> Option<FType> {
        match m {
            2 => Some(FType::UnconfUp),
            3 => Some(FType::UnconfDown),
            4 => Some(FType::ConfUp),
            5 => Some(FType::ConfDown),
            _ => None,
        }
    }
    pub fn uplink(self) -> bool {
        matches!(self, FType::UnconfUp | FType::ConfUp)
    }
    pub fn confirmed(self) -> bool {
        matches!(self, FType::ConfUp | FType::ConfDown)
    }
    pub fn name(self) -> &'static str {
        match self {
            FType::UnconfUp => "UnconfirmedUp",
            FType::UnconfDown => "UnconfirmedDown",
            FType::ConfUp => "ConfirmedUp",
            FType::ConfDown => "ConfirmedDown",
        }
    }
    pub fn from_name(s: &str) -> Option<FType> {
        FType::ALL.into_iter().find(|f| f.name() == s)
    }
}

#[derive(Debug, Clone, PartialEq, Eq, Hash)]
pub enum RefPayload {
    None,
    Data { port: u8, data: Vec<u8> },
    Mac(Vec<u8>),
}

#[derive(Debug, Clone, PartialEq, Eq, Hash)]
pub struct DataDesc {
    pub ftype: FType,
    pub dev_addr: u32,
    pub adr: bool,
    pub adr_ack_req: bool,
    pub ack: bool,
    pub f_pending: bool,
    pub fcnt: u32,
    pub fopts: Vec<u8>,
    pub payload: RefPayload,
}

#[derive(Debug, Clone, Copy, PartialEq, Eq)]
pub enum Refusal {
    FOptsTooLong,
    FOptsWithPort0,
    MissingKey,
    /// Data on port 0 is not expressible with the builder; kept for completeness.
    DataOnPort0,
}

/// direction bit used in B0 / A_i: 0 uplink, 1 downlink
fn dir_of_mhdr(mhdr: u8) -> u8 {
    (mhdr >> 5) & 1
}

pub fn b0(dir: u8, dev_addr_wire: &[u8], fcnt32: u32, len: usize) -> [u8; 16] {
    let mut b = [0u8; 16];
    b[0] = 0x49;
    b[5] = dir;
    b[6..10].copy_from_slice(dev_addr_wire);
    b[10..14].copy_from_slice(&fcnt32.to_le_bytes());
    b[15] = len as u8;
    b
}

/// MIC over `msg` (= MHDR | FHDR | FPort | FRMPayload, no MIC), direction taken from MHDR.
pub fn data_mic(nwk: &[u8; 16], msg: &[u8], fcnt32: u32) -> [u8; 4] {
    let dir = dir_of_mhdr(msg[0]);
    let mut m = b0(dir, &msg[1..5], fcnt32, msg.len()).to_vec();
    m.extend_from_slice(msg);
    let t = cmac(&Aes128::new(nwk), &m);
    [t[0], t[1], t[2], t[3]]
}

/// FRMPayload keystream XOR (its own inverse).
pub fn crypt_payload(key: &[u8; 16], dir: u8, dev_addr_wire: &[u8], fcnt32: u32, data: &mut [u8]) {
    let aes = Aes128::new(key);
    for (i, chunk) in data.chunks_mut(16).enumerate() {
        let mut a = [0u8; 16];
        a[0] = 0x01;
        a[5] = dir;
        a[6..10].copy_from_slice(dev_addr_wire);
        a[10..14].copy_from_slice(&fcnt32.to_le_bytes());
        a[15] = (i + 1) as u8;
        let s = aes.encrypt(&a);
        for (j, b) in chunk.iter_mut().enumerate() {
            *b ^= s[j];
        }
    }
}

pub fn refusal(d: &DataDesc, have_app_key: bool) -> Vec<Refusal> {
    let mut r = vec![];
    if d.fopts.len() > 15 {
        r.push(Refusal::FOptsTooLong);
    }
    match &d.payload {
        RefPayload::Mac(_) if !d.fopts.is_empty() => r.push(Refusal::FOptsWithPort0),
        RefPayload::Data { port, .. } => {
            if *port == 0 {
                r.push(Refusal::DataOnPort0);
            }
            if !have_app_key {
                r.push(Refusal::MissingKey);
            }
        }
        _ => {}
    }
    r
}

/// Encodes a legal description. Panics on an illegal one (call `refusal` first).
pub fn encode_data(d: &DataDesc, nwk: &[u8; 16], app: Option<&[u8; 16]>) -> Vec<u8> {
    assert!(d.fopts.len() <= 15);
    let up = d.ftype.uplink();
    let mut out = vec![(d.ftype.mtype() << 5)];
    out.extend_from_slice(&d.dev_addr.to_le_bytes());
    let mut fctrl = d.fopts.len() as u8;
    if d.adr {
        fctrl |= 0x80;
    }
    if d.adr_ack_req && up {
        fctrl |= 0x40;
    }
    if d.ack {
        fctrl |= 0x20;
    }
    if d.f_pending && !up {
        fctrl |= 0x10;
    }
    out.push(fctrl);
    out.extend_from_slice(&(d.fcnt as u16).to_le_bytes());
    out.extend_from_slice(&d.fopts);
    let dir = if up { 0 } else { 1 };
    let addr = d.dev_addr.to_le_bytes();
    match &d.payload {
        RefPayload::None => {}
        RefPayload::Data { port, data } => {
            out.push(*port);
            let mut p = data.clone();
            crypt_payload(app.expect("app key"), dir, &addr, d.fcnt, &mut p);
            out.extend_from_slice(&p);
        }
        RefPayload::Mac(cmds) => {
            out.push(0);
            let mut p = cmds.clone();
            crypt_payload(nwk, dir, &addr, d.fcnt, &mut p);
            out.extend_from_slice(&p);
        }
    }
    let mic = data_mic(nwk, &out, d.fcnt);
    out.extend_from_slice(&mic);
    out
}

#[derive(Debug, Clone, Copy, PartialEq, Eq)]
pub enum StructErr {
    TooShort,
    MajorVersion,
    NotData,
    TruncatedFhdr,
    BadLength,
    WrongType,
    UnsupportedType,
}

#[derive(Debug, Clone, PartialEq, Eq)]
pub struct DataView {
    pub ftype: FType,
    pub dev_addr: u32,
    pub fctrl: u8,
    pub fcnt16: u16,
    pub fopts: Vec<u8>,
    pub fport: Option<u8>,
    /// still encrypted
    pub frm: Vec<u8>,
    pub frm_start: usize,
    pub mic: [u8; 4],
}

impl DataView {
    pub fn adr(&self) -> bool {
        self.fctrl & 0x80 != 0
    }
    pub fn adr_ack_req(&self) -> bool {
        self.ftype.uplink() && self.fctrl & 0x40 != 0
    }
    pub fn ack(&self) -> bool {
        self.fctrl & 0x20 != 0
    }
    pub fn f_pending(&self) -> bool {
        !self.ftype.uplink() && self.fctrl & 0x10 != 0
    }
    pub fn dir(&self) -> u8 {
        if self.ftype.uplink() {
            0
        } else {
            1
        }
    }
    /// plaintext FRMPayload under the spec's key selection. None when the needed key is absent.
    pub fn plaintext(&self, nwk: Option<&[u8; 16]>, app: Option<&[u8; 16]>, fcnt32: u32) -> Option<Vec<u8>> {
        let mut p = self.frm.clone();
        if p.is_empty() {
            return Some(p);
        }
        let key = if self.fport == Some(0) || self.fport.is_none() { nwk } else { app }?;
        crypt_payload(key, self.dir(), &self.dev_addr.to_le_bytes(), fcnt32, &mut p);
        Some(p)
    }
}

/// Structural decode of a data frame (spec section 4): MHDR(1) FHDR(7..22) [FPort [FRMPayload]] MIC(4).
pub fn decode_data(b: &[u8]) -> Result<DataView, StructErr> {
    if b.len() < 12 {
        return Err(StructErr::TooShort);
    }
    if b[0] & 3 != 0 {
        return Err(StructErr::MajorVersion);
    }
    let ftype = FType::from_mtype(b[0] >> 5).ok_or(StructErr::NotData)?;
    let fol = (b[5] & 0x0f) as usize;
    let mic_at = b.len() - 4;
    if 8 + fol > mic_at {
        return Err(StructErr::TruncatedFhdr);
    }
    let after = 8 + fol;
    let (fport, frm_start) = if after < mic_at { (Some(b[after]), after + 1) } else { (None, after) };
    Ok(DataView {
        ftype,
        dev_addr: u32::from_le_bytes([b[1], b[2], b[3], b[4]]),
        fctrl: b[5],
        fcnt16: u16::from_le_bytes([b[6], b[7]]),
        fopts: b[8..8 + fol].to_vec(),
        fport,
        frm: b[frm_start..mic_at].to_vec(),
        frm_start,
        mic: [b[mic_at], b[mic_at + 1], b[mic_at + 2], b[mic_at + 3]],
    })
}

pub fn data_mic_ok(b: &[u8], nwk: &[u8; 16], fcnt32: u32) -> bool {
    let n = b.len();
    data_mic(nwk, &b[..n - 4], fcnt32) == b[n - 4..]
}

// ---------------- join ----------------

#[derive(Debug, Clone, PartialEq, Eq)]
pub struct JoinReqDesc {
    pub join_eui: u64,
    pub dev_eui: u64,
    pub dev_nonce: u16,
}

pub fn encode_join_request(d: &JoinReqDesc, app_key: &[u8; 16]) -> Vec<u8> {
    let mut out = vec![0x00];
    out.extend_from_slice(&d.join_eui.to_le_bytes());
    out.extend_from_slice(&d.dev_eui.to_le_bytes());
    out.extend_from_slice(&d.dev_nonce.to_le_bytes());
    let t = cmac(&Aes128::new(app_key), &out);
    out.extend_from_slice(&t[..4]);
    out
}

pub fn decode_join_request(b: &[u8]) -> Result<(JoinReqDesc, [u8; 4]), StructErr> {
    if b.is_empty() {
        return Err(StructErr::TooShort);
    }
    if b[0] & 3 != 0 {
        return Err(StructErr::MajorVersion);
    }
    if b[0] >> 5 != 0 {
        return Err(StructErr::WrongType);
    }
    if b.len() != 23 {
        return Err(StructErr::BadLength);
    }
    Ok((
        JoinReqDesc {
            join_eui: u64::from_le_bytes(b[1..9].try_into().unwrap()),
            dev_eui: u64::from_le_bytes(b[9..17].try_into().unwrap()),
            dev_nonce: u16::from_le_bytes([b[17], b[18]]),
        },
        [b[19], b[20], b[21], b[22]],
    ))
}

pub fn join_request_mic_ok(b: &[u8], app_key: &[u8; 16]) -> bool {
    b.len() == 23 && cmac(&Aes128::new(app_key), &b[..19])[..4] == b[19..]
}

#[derive(Debug, Clone, PartialEq, Eq, Hash)]
pub enum RefCfList {
    /// five raw 24-bit frequency values (units of 100 Hz)
    Type0([u32; 5]),
    /// nine mask bytes (ChMask0..ChMask4 LE = 10 bytes in the spec; the crate keeps 9: 72 channels)
    Type1([u8; 9]),
    /// raw 16 bytes with an arbitrary type octet
    Raw([u8; 16]),
}

#[derive(Debug, Clone, PartialEq, Eq, Hash)]
pub struct JoinAcceptDesc {
    pub join_nonce: u32,
    pub net_id: u32,
    pub dev_addr: u32,
    pub dl_settings: u8,
    pub rx_delay: u8,
    pub cflist: Option<RefCfList>,
}

impl JoinAcceptDesc {
    pub fn cflist_bytes(&self) -> Option<[u8; 16]> {
        self.cflist.as_ref().map(|c| match c {
            RefCfList::Type0(f) => {
                let mut o = [0u8; 16];
                for (i, v) in f.iter().enumerate() {
                    o[3 * i..3 * i + 3].copy_from_slice(&v.to_le_bytes()[..3]);
                }
                o[15] = 0;
                o
            }
            RefCfList::Type1(m) => {
                let mut o = [0u8; 16];
                o[..9].copy_from_slice(m);
                o[15] = 1;
                o
            }
            RefCfList::Raw(r) => *r,
        })
    }
    /// clear-text MHDR | payload | MIC
    pub fn plain(&self, app_key: &[u8; 16]) -> Vec<u8> {
        let mut out = vec![0x20];
        out.extend_from_slice(&self.join_nonce.to_le_bytes()[..3]);
        out.extend_from_slice(&self.net_id.to_le_bytes()[..3]);
        out.extend_from_slice(&self.dev_addr.to_le_bytes());
        out.push(self.dl_settings);
        out.push(self.rx_delay);
        if let Some(c) = self.cflist_bytes() {
            out.extend_from_slice(&c);
        }
        let t = cmac(&Aes128::new(app_key), &out);
        out.extend_from_slice(&t[..4]);
        out
    }
}

/// The frame as sent over the air: aes128_decrypt(AppKey, payload | MIC), MHDR in clear.
pub fn encode_join_accept(d: &JoinAcceptDesc, app_key: &[u8; 16]) -> Vec<u8> {
    let mut out = d.plain(app_key);
    let aes = Aes128::new(app_key);
    for c in out[1..].chunks_mut(16) {
        let blk: [u8; 16] = c.try_into().unwrap();
        c.copy_from_slice(&aes.decrypt(&blk));
    }
    out
}

/// Device-side: returns the clear frame (MHDR | fields | MIC) of an over-the-air JoinAccept.
pub fn join_accept_clear(b: &[u8], app_key: &[u8; 16]) -> Result<Vec<u8>, StructErr> {
    if b.is_empty() {
        return Err(StructErr::TooShort);
    }
    if b[0] & 3 != 0 {
        return Err(StructErr::MajorVersion);
    }
    if b[0] >> 5 != 1 {
        return Err(StructErr::WrongType);
    }
    if b.len() != 17 && b.len() != 33 {
        return Err(StructErr::BadLength);
    }
    let aes = Aes128::new(app_key);
    let mut out = b.to_vec();
    for c in out[1..].chunks_mut(16) {
        let blk: [u8; 16] = c.try_into().unwrap();
        c.copy_from_slice(&aes.encrypt(&blk));
    }
    Ok(out)
}

pub fn join_accept_clear_mic_ok(clear: &[u8], app_key: &[u8; 16]) -> bool {
    let n = clear.len();
    cmac(&Aes128::new(app_key), &clear[..n - 4])[..4] == clear[n - 4..]
}

pub fn decode_join_accept_clear(clear: &[u8]) -> JoinAcceptDesc {
    let u24 = |s: &[u8]| u32::from_le_bytes([s[0], s[1], s[2], 0]);
    let cflist = if clear.len() == 33 {
        let c: [u8; 16] = clear[13..29].try_into().unwrap();
        Some(match c[15] {
            0 => RefCfList::Type0([u24(&c[0..3]), u24(&c[3..6]), u24(&c[6..9]), u24(&c[9..12]), u24(&c[12..15])]),
            1 => RefCfList::Type1(c[..9].try_into().unwrap()),
            _ => RefCfList::Raw(c),
        })
    } else {
        None
    };
    JoinAcceptDesc {
        join_nonce: u24(&clear[1..4]),
        net_id: u24(&clear[4..7]),
        dev_addr: u32::from_le_bytes(clear[7..11].try_into().unwrap()),
        dl_settings: clear[11],
        rx_delay: clear[12],
        cflist,
    }
}

/// LoRaWAN 1.0.x session key derivation. kind: 1 = NwkSKey, 2 = AppSKey.
pub fn derive_skey(app_key: &[u8; 16], kind: u8, join_nonce: u32, net_id: u32, dev_nonce: u16) -> [u8; 16] {
    let mut b = [0u8; 16];
    b[0] = kind;
    b[1..4].copy_from_slice(&join_nonce.to_le_bytes()[..3]);
    b[4..7].copy_from_slice(&net_id.to_le_bytes()[..3]);
    b[7..9].copy_from_slice(&dev_nonce.to_le_bytes());
    Aes128::new(app_key).encrypt(&b)
}

// ---------------- MAC command framing (LoRaWAN 1.0.x CID -> payload length) ----------------

/// commands sent by the network (downlink)
pub fn down_len(cid: u8) -> Option<usize> {
    Some(match cid {
        0x02 => 2,
        0x03 => 4,
        0x04 => 1,
        0x05 => 4,
        0x06 => 0,
        0x07 => 5,
        0x08 => 1,
        0x09 => 1,
        0x0A => 4,
        0x0D => 5,
        _ => return None,
    })
}

/// commands sent by the device (uplink)
pub fn up_len(cid: u8) -> Option<usize> {
    Some(match cid {
        0x02 => 0,
        0x03 => 1,
        0x04 => 0,
        0x05 => 1,
        0x06 => 2,
        0x07 => 1,
        0x08 => 0,
        0x09 => 0,
        0x0A => 1,
        0x0D => 0,
        _ => return None,
    })
}

/// Splits a MAC command stream: whole commands, then Ok(()) at clean end or Err(offset) at the
/// first unknown CID / truncated command.
pub fn split_cmds(stream: &[u8], uplink: bool) -> (Vec<(u8, Vec<u8>)>, Result<(), usize>) {
    let mut out = vec![];
    let mut i = 0;
    while i < stream.len() {
        let cid = stream[i];
        let l = if uplink { up_len(cid) } else { down_len(cid) };
        match l {
            Some(l) if i + 1 + l <= stream.len() => {
                out.push((cid, stream[i + 1..i + 1 + l].to_vec()));
                i += 1 + l;
            }
            _ => return (out, Err(i)),
        }
    }
    (out, Ok(()))
}

fn hx(s: &str) -> Vec<u8> {
    (0..s.len() / 2).map(|i| u8::from_str_radix(&s[2 * i..2 * i + 2], 16).unwrap()).collect()
}

/// Vectors from the LoRaWAN ecosystem that were NOT produced by this file:
/// the uplink documented in the repository README/doctest (DevAddr 01020304, FCnt 1, "hello").
pub fn self_test() -> Result<(), String> {
    let frame = hx("400403020180010001a694642615d6c3b582");
    let nwk = [2u8; 16];
    let app = [1u8; 16];
    let v = decode_data(&frame).map_err(|e| format!("{e:?}"))?;
    if !data_mic_ok(&frame, &nwk, 1) {
        return Err("doc vector MIC".into());
    }
    if v.plaintext(Some(&nwk), Some(&app), 1).as_deref() != Some(&b"hello"[..]) {
        return Err("doc vector plaintext".into());
    }
    let d = DataDesc {
        ftype: FType::UnconfUp,
        dev_addr: 0x01020304,
        adr: true,
        adr_ack_req: false,
        ack: false,
        f_pending: false,
        fcnt: 1,
        fopts: vec![],
        payload: RefPayload::Data { port: 1, data: b"hello".to_vec() },
    };
    if encode_data(&d, &nwk, Some(&app)) != frame {
        return Err("doc vector encode".into());
    }
    Ok(())
}
