//! Non-termination monitor for properties whose statement includes "terminates".
//!
//! A check brackets each generated case with `begin(tag, bytes)` / `end()`. A monitor thread looks at
//! the bracket of every worker twice a second; a case that has been open for longer than the limit
//! (20 s; such cases normally take microseconds) is a violation found by generated input: the monitor
//! writes the replay file and the evidence itself (the workers are stuck inside the code under test),
//! prints the VIOLATION line and ends the process with exit code 1. In replay mode the same monitor
//! turns a stuck replay into a reported violation of the replayed file.

use crate::engine::{fnv64, hex, out_dir, verif_dir};
use serde_json::{json, Value};
use std::sync::atomic::{AtomicU64, Ordering};
use std::sync::{Arc, Mutex, OnceLock};
use std::time::{Duration, Instant};

pub struct Slot {
    /// milliseconds since process start + 1 at which the open case began; 0 = no case open
    since: AtomicU64,
    what: Mutex<(&'static str, Vec<u8>)>,
}

static SLOTS: Mutex<Vec<Arc<Slot>>> = Mutex::new(Vec::new());
static T0: OnceLock<Instant> = OnceLock::new();
static GUARDED: AtomicU64 = AtomicU64::new(0);

thread_local! {
    static MY: Arc<Slot> = {
        let s = Arc::new(Slot { since: AtomicU64::new(0), what: Mutex::new(("", Vec::new())) });
        SLOTS.lock().unwrap().push(s.clone());
        s
    };
}

fn now_ms() -> u64 {
    T0.get_or_init(Instant::now).elapsed().as_millis() as u64 + 1
}

/// Opens a case on the calling thread.
pub fn begin(tag: &'static str, data: &[u8]) {
    MY.with(|s| {
        {
            let mut w = s.what.lock().unwrap();
            w.0 = tag;
            w.1.clear();
            w.1.extend_from_slice(data);
        }
        s.since.store(now_ms(), Ordering::Release);
    });
    GUARDED.fetch_add(1, Ordering::Relaxed);
}

/// Closes the case opened by `begin` on the calling thread.
pub fn end() {
    MY.with(|s| s.since.store(0, Ordering::Release));
}

pub const LIMIT_S: u64 = 20;

/// Starts the monitor. `replay_of`: the file being replayed (replay mode), else None.
pub fn start_monitor(property: &str, tier: &str, seed: u64, level: &str, replay_of: Option<String>) {
    let property = property.to_string();
    let tier = tier.to_string();
    let level = level.to_string();
    let _ = now_ms();
    std::thread::spawn(move || loop {
        std::thread::sleep(Duration::from_millis(500));
        let slots: Vec<Arc<Slot>> = SLOTS.lock().unwrap().clone();
        for s in slots {
            let since = s.since.load(Ordering::Acquire);
            if since == 0 || now_ms().saturating_sub(since) < LIMIT_S * 1000 {
                continue;
            }
            let (tag, data) = {
                let w = s.what.lock().unwrap();
                (w.0, w.1.clone())
            };
            let case = json!({"kind": tag, "data": hex(&data)});
            let fp = format!("non-termination/{tag}");
            let detail = format!("the case did not return within {LIMIT_S} s (cases of this kind take microseconds): input {}", hex(&data));
            if let Some(path) = &replay_of {
                println!("VIOLATION property={property} replay={path}");
                println!("  rule=terminates fingerprint={fp}");
                println!("  detail: {detail}");
                std::process::exit(1);
            }
            let h = fnv64(format!("{fp}|{case}").as_bytes());
            let rel = format!("replays/{property}/found/{h:016x}.json");
            let _ = std::fs::create_dir_all(out_dir().join("replays").join(&property).join("found"));
            let doc = json!({"property": property, "seed": seed, "found_in_tier": tier, "case": case, "failure": {"rule": "terminates", "fingerprint": fp, "detail": detail}});
            let _ = std::fs::write(out_dir().join(&rel), serde_json::to_string_pretty(&doc).unwrap());
            let shown = if out_dir() != verif_dir() { out_dir().join(&rel).display().to_string() } else { rel };
            println!("VIOLATION property={property} replay={shown}");
            println!("  rule=terminates fingerprint={fp}");
            println!("  detail: {detail}");
            let n = GUARDED.load(Ordering::Relaxed);
            let ev = json!({
                "property_id": property, "tier": tier, "seed": seed, "level": level,
                "coverage": {"evaluations": n, "distinct_nontrivial": n.min(1), "exhaustive": false,
                    "rule": "run ended by the non-termination monitor: the counts are the number of guarded cases started before the stuck one (the workers' own classification never completed); non-trivial: the stuck case itself",
                    "samples": [doc["case"].clone()], "classes": {}, "excluded_known": {}},
                "assumptions": [format!("a guarded case open for more than {LIMIT_S} s does not terminate")],
                "wall_s": (now_ms() as f64) / 1000.0, "violations": 1,
            });
            let _ = std::fs::create_dir_all(out_dir().join("evidence"));
            let _ = std::fs::write(out_dir().join("evidence").join(format!("{property}.json")), serde_json::to_string_pretty(&ev).unwrap());
            println!("{property}: tier={tier} seed={seed} evaluations={n} violations=1 (non-termination monitor)");
            std::process::exit(1);
        }
    });
}

pub fn _unused(_: &Value) {}
