//! Non-termination monitor for properties whose statement includes "terminates".
//!
//! A check brackets each generated case with `begin(tag, bytes)` (or `begin_with(tag, closure)`) / `end()`.
//! A monitor thread looks at the bracket of every worker twice a second; a case that has been open for
//! longer than the limit (20 s of wall-clock time AND 10 s of CPU time consumed by the worker thread
//! while the monitor watched that very case; such cases normally take micro- to milliseconds, so the
//! verdict does not depend on how busy the machine is) does not terminate. Where the property's statement
//! includes termination (C03 "terminating", C04 "nor loops forever", C09 "channel selection always
//! terminates") that is a violation found by generated input: the monitor writes the replay file and the
//! evidence itself (the workers are stuck inside the code under test), prints the VIOLATION line and ends
//! the process with exit code 1. For every other property the stuck run is reported as inconclusive
//! (exit 2) at once instead of after the process-level watchdog. In replay mode the same monitor
//! reports a stuck replay of the replayed file.

use crate::engine::{fnv64, hex, out_dir, verif_dir};
use serde_json::{json, Value};
use std::sync::atomic::{AtomicU64, Ordering};
use std::sync::{Arc, Mutex, OnceLock};
use std::time::{Duration, Instant};

type Lazy = Box<dyn FnOnce() -> Vec<u8> + Send>;

pub struct Slot {
    /// milliseconds since process start + 1 at which the open case began; 0 = no case open
    since: AtomicU64,
    what: Mutex<(&'static str, Vec<u8>, Option<Lazy>)>,
    /// kernel thread id of the worker (0: unknown, CPU time not available)
    tid: u64,
}

fn my_tid() -> u64 {
    std::fs::read_link("/proc/thread-self").ok().and_then(|p| p.file_name().and_then(|n| n.to_str().and_then(|s| s.parse().ok()))).unwrap_or(0)
}

/// CPU time (user + system) consumed so far by a thread of this process, in milliseconds
fn thread_cpu_ms(tid: u64) -> Option<u64> {
    if tid == 0 {
        return None;
    }
    let stat = std::fs::read_to_string(format!("/proc/self/task/{tid}/stat")).ok()?;
    let rest = &stat[stat.rfind(')')? + 1..];
    let f: Vec<&str> = rest.split_whitespace().collect();
    // after "pid (comm)": state is f[0]; utime and stime are the 14th and 15th fields of the line
    let (u, st): (u64, u64) = (f.get(11)?.parse().ok()?, f.get(12)?.parse().ok()?);
    Some((u + st) * 10) // USER_HZ = 100 on Linux
}

static SLOTS: Mutex<Vec<Arc<Slot>>> = Mutex::new(Vec::new());
static T0: OnceLock<Instant> = OnceLock::new();
static GUARDED: AtomicU64 = AtomicU64::new(0);

thread_local! {
    static MY: Arc<Slot> = {
        let s = Arc::new(Slot { since: AtomicU64::new(0), what: Mutex::new(("", Vec::new(), None)), tid: my_tid() });
        SLOTS.lock().unwrap().push(s.clone());
        s
    };
}

fn now_ms() -> u64 {
    T0.get_or_init(Instant::now).elapsed().as_millis() as u64 + 1
}

/// Opens a case on the calling thread.
pub fn begin(tag: &'static str, data: &[u8]) {
    MY.with(|s| {
        {
            let mut w = s.what.lock().unwrap();
            w.0 = tag;
            w.1.clear();
            w.1.extend_from_slice(data);
            w.2 = None;
        }
        s.since.store(now_ms(), Ordering::Release);
    });
    GUARDED.fetch_add(1, Ordering::Relaxed);
}

/// Opens a case on the calling thread; the description of the case is only rendered when the monitor needs it.
pub fn begin_with(tag: &'static str, render: impl FnOnce() -> Vec<u8> + Send + 'static) {
    MY.with(|s| {
        {
            let mut w = s.what.lock().unwrap();
            w.0 = tag;
            w.1.clear();
            w.2 = Some(Box::new(render));
        }
        s.since.store(now_ms(), Ordering::Release);
    });
    GUARDED.fetch_add(1, Ordering::Relaxed);
}

/// Closes the case opened by `begin` on the calling thread.
pub fn end() {
    MY.with(|s| s.since.store(0, Ordering::Release));
}

/// RAII form of the bracket: the case is closed when the guard is dropped.
pub struct Guard(());
impl Drop for Guard {
    fn drop(&mut self) {
        end();
    }
}
pub fn guard_with(tag: &'static str, render: impl FnOnce() -> Vec<u8> + Send + 'static) -> Guard {
    begin_with(tag, render);
    Guard(())
}

pub const LIMIT_S: u64 = 20;
pub const CPU_LIMIT_S: u64 = 10;
/// properties whose statement includes termination
const TERMINATION_IS_STATED: [&str; 3] = ["C03", "C04", "C09"];

/// Starts the monitor. `replay_of`: the file being replayed (replay mode), else None.
pub fn start_monitor(property: &str, tier: &str, seed: u64, level: &str, replay_of: Option<String>) {
    let property = property.to_string();
    let tier = tier.to_string();
    let level = level.to_string();
    let _ = now_ms();
    std::thread::spawn(move || {
      // per watched slot: (the `since` stamp of the case being watched, CPU time of its thread when first seen)
      let mut watch: std::collections::HashMap<usize, (u64, Option<u64>)> = std::collections::HashMap::new();
      loop {
        std::thread::sleep(Duration::from_millis(500));
        let slots: Vec<Arc<Slot>> = SLOTS.lock().unwrap().clone();
        for (si, s) in slots.into_iter().enumerate() {
            let since = s.since.load(Ordering::Acquire);
            if since == 0 {
                watch.remove(&si);
                continue;
            }
            let cpu_now = thread_cpu_ms(s.tid);
            let first = match watch.get(&si) {
                Some((st, c)) if *st == since => *c,
                _ => {
                    watch.insert(si, (since, cpu_now));
                    continue;
                }
            };
            if now_ms().saturating_sub(since) < LIMIT_S * 1000 {
                continue;
            }
            // the thread must have burnt CPU on this very case while it was watched (a machine that is merely
            // busy, or a stopped process, does not make a case "non-terminating"); without /proc the
            // wall-clock limit is tripled instead
            match (first, cpu_now) {
                (Some(a), Some(b)) => {
                    if b.saturating_sub(a) < CPU_LIMIT_S * 1000 {
                        continue;
                    }
                }
                _ => {
                    if now_ms().saturating_sub(since) < 3 * LIMIT_S * 1000 {
                        continue;
                    }
                }
            }
            let (tag, data) = {
                let mut w = s.what.lock().unwrap();
                let lazy = w.2.take();
                if let Some(f) = lazy {
                    w.1 = f();
                }
                (w.0, w.1.clone())
            };
            // a case rendered as a JSON document (histories) is the replay case itself; raw inputs are wrapped
            let as_doc: Option<Value> = if tag == "history" { serde_json::from_slice(&data).ok() } else { None };
            let case = as_doc.clone().unwrap_or_else(|| json!({"kind": tag, "data": hex(&data)}));
            let fp = format!("non-termination/{tag}");
            let shown_input = if as_doc.is_some() { String::from_utf8_lossy(&data).chars().take(1500).collect::<String>() } else { hex(&data) };
            let detail = format!("the case did not return within {LIMIT_S} s and {CPU_LIMIT_S} s of CPU time (cases of this kind take micro- to milliseconds): input {shown_input}");
            if !TERMINATION_IS_STATED.contains(&property.as_str()) {
                println!("INCONCLUSIVE: {property}: a generated case does not return ({fp}); termination is judged by C04 / C09, this run is abandoned");
                println!("  detail: {detail}");
                std::process::exit(2);
            }
            if let Some(path) = &replay_of {
                println!("VIOLATION property={property} replay={path}");
                println!("  rule=terminates fingerprint={fp}");
                println!("  detail: {detail}");
                std::process::exit(1);
            }
            let h = fnv64(format!("{fp}|{case}").as_bytes());
            let rel = format!("replays/{property}/found/{h:016x}.json");
            let _ = std::fs::create_dir_all(out_dir().join("replays").join(&property).join("found"));
            let doc = json!({"property": property, "seed": seed, "found_in_tier": tier, "case": case, "failure": {"rule": "terminates", "fingerprint": fp, "detail": detail}});
            let _ = std::fs::write(out_dir().join(&rel), serde_json::to_string_pretty(&doc).unwrap());
            let shown = if out_dir() != verif_dir() { out_dir().join(&rel).display().to_string() } else { rel };
            println!("VIOLATION property={property} replay={shown}");
            println!("  rule=terminates fingerprint={fp}");
            println!("  detail: {detail}");
            let n = GUARDED.load(Ordering::Relaxed);
            let ev = json!({
                "property_id": property, "tier": tier, "seed": seed, "level": level,
                "coverage": {"evaluations": n, "distinct_nontrivial": n.min(1), "exhaustive": false,
                    "rule": "run ended by the non-termination monitor: the counts are the number of guarded cases started before the stuck one (the workers' own classification never completed); non-trivial: the stuck case itself",
                    "samples": [doc["case"].clone()], "classes": {}, "excluded_known": {}},
                "assumptions": [format!("a guarded case open for more than {LIMIT_S} s whose thread consumed more than {CPU_LIMIT_S} s of CPU time meanwhile does not terminate")],
                "wall_s": (now_ms() as f64) / 1000.0, "violations": 1,
            });
            let _ = std::fs::create_dir_all(out_dir().join("evidence"));
            let _ = std::fs::write(out_dir().join("evidence").join(format!("{property}.json")), serde_json::to_string_pretty(&ev).unwrap());
            println!("{property}: tier={tier} seed={seed} evaluations={n} violations=1 (non-termination monitor)");
            std::process::exit(1);
        }
      }
    });
}

pub fn _unused(_: &Value) {}
