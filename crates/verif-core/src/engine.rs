//! Shared machinery: seeds and tiers, statistics/evidence, failures -> replay files,
//! known findings, panic capture, proptest runner wrapper, deterministic PRNG.

use serde_json::{json, Value};
use std::collections::{BTreeMap, HashSet};
use std::panic::{self, AssertUnwindSafe};
use std::path::PathBuf;
use std::sync::Mutex;
use std::time::Instant;

#[derive(Debug, Clone, Copy, PartialEq, Eq)]
pub enum Tier {
    Quick,
    Thorough,
}

impl Tier {
    pub fn name(self) -> &'static str {
        match self {
            Tier::Quick => "quick",
            Tier::Thorough => "thorough",
        }
    }
    pub fn pick<T>(self, quick: T, thorough: T) -> T {
        match self {
            Tier::Quick => quick,
            Tier::Thorough => thorough,
        }
    }
}

pub fn verif_dir() -> PathBuf {
    PathBuf::from(std::env::var("VERIF_DIR").unwrap_or_else(|_| "/verif".into()))
}

/// Where evidence and newly found replays are written (differs from verif_dir() only in
/// scratch-repository experiments).
pub fn out_dir() -> PathBuf {
    std::env::var("VERIF_OUT").map(PathBuf::from).unwrap_or_else(|_| verif_dir())
}

// ---------------------------------------------------------------- PRNG

/// SplitMix64: deterministic, seedable, used for content attached to enumerated shapes and as the
/// fair continuation of scripted device RNGs.
#[derive(Debug, Clone)]
pub struct SplitMix(pub u64);

impl SplitMix {
    pub fn new(seed: u64) -> Self {
        SplitMix(seed)
    }
    pub fn next_u64(&mut self) -> u64 {
        self.0 = self.0.wrapping_add(0x9E3779B97F4A7C15);
        let mut z = self.0;
        z = (z ^ (z >> 30)).wrapping_mul(0xBF58476D1CE4E5B9);
        z = (z ^ (z >> 27)).wrapping_mul(0x94D049BB133111EB);
        z ^ (z >> 31)
    }
    pub fn next_u32(&mut self) -> u32 {
        (self.next_u64() >> 32) as u32
    }
    pub fn below(&mut self, n: u64) -> u64 {
        if n == 0 {
            0
        } else {
            ((self.next_u64() as u128 * n as u128) >> 64) as u64
        }
    }
    pub fn range(&mut self, lo: i64, hi_incl: i64) -> i64 {
        lo + self.below((hi_incl - lo + 1) as u64) as i64
    }
    pub fn bool(&mut self) -> bool {
        self.next_u64() & 1 == 1
    }
    pub fn bytes(&mut self, n: usize) -> Vec<u8> {
        (0..n).map(|_| self.next_u64() as u8).collect()
    }
    pub fn key(&mut self) -> [u8; 16] {
        let mut k = [0u8; 16];
        for b in k.iter_mut() {
            *b = self.next_u64() as u8;
        }
        k
    }
    pub fn pick<'a, T>(&mut self, xs: &'a [T]) -> &'a T {
        &xs[self.below(xs.len() as u64) as usize]
    }
    pub fn fork(&mut self) -> SplitMix {
        SplitMix(self.next_u64())
    }
}

pub fn fnv64(data: &[u8]) -> u64 {
    let mut h = 0xcbf29ce484222325u64;
    for b in data {
        h ^= *b as u64;
        h = h.wrapping_mul(0x100000001b3);
    }
    h
}

pub fn hash_value(v: &Value) -> u64 {
    fnv64(v.to_string().as_bytes())
}

pub fn hex(b: &[u8]) -> String {
    b.iter().map(|x| format!("{x:02x}")).collect()
}

pub fn unhex(s: &str) -> Vec<u8> {
    (0..s.len() / 2).map(|i| u8::from_str_radix(&s[2 * i..2 * i + 2], 16).unwrap_or(0)).collect()
}

// ---------------------------------------------------------------- panic capture

static PANIC_INFO: Mutex<Option<String>> = Mutex::new(None);
thread_local! {
    static CAPTURING: std::cell::Cell<bool> = const { std::cell::Cell::new(false) };
    static LAST_PANIC: std::cell::RefCell<Option<String>> = const { std::cell::RefCell::new(None) };
}

/// Installs a panic hook that stays silent while a `catch` is active on the current thread
/// and records "message @ file:line".
pub fn install_panic_hook() {
    let default = panic::take_hook();
    panic::set_hook(Box::new(move |info| {
        let capturing = CAPTURING.with(|c| c.get());
        let msg = if let Some(s) = info.payload().downcast_ref::<&str>() {
            s.to_string()
        } else if let Some(s) = info.payload().downcast_ref::<String>() {
            s.clone()
        } else {
            "<non-string panic>".to_string()
        };
        let loc = info.location().map(|l| format!("{}:{}", l.file(), l.line())).unwrap_or_default();
        let text = format!("{msg} @ {loc}");
        if capturing {
            LAST_PANIC.with(|p| *p.borrow_mut() = Some(text));
        } else {
            *PANIC_INFO.lock().unwrap() = Some(text);
            default(info);
        }
    }));
}

/// Runs `f`, converting a panic into Err("message @ file:line").
pub fn catch<T>(f: impl FnOnce() -> T) -> Result<T, String> {
    let prev = CAPTURING.with(|c| c.replace(true));
    let r = panic::catch_unwind(AssertUnwindSafe(f));
    CAPTURING.with(|c| c.set(prev));
    match r {
        Ok(v) => Ok(v),
        Err(_) => Err(LAST_PANIC.with(|p| p.borrow_mut().take()).unwrap_or_else(|| "panic".into())),
    }
}

/// Strips line numbers and absolute prefixes so that a fingerprint survives unrelated edits.
pub fn panic_fingerprint(text: &str) -> String {
    let (msg, loc) = match text.rsplit_once(" @ ") {
        Some((m, l)) => (m, l),
        None => (text, ""),
    };
    let file = loc.rsplit_once(':').map(|(f, _)| f).unwrap_or(loc);
    // keep the path from the crate directory on, whatever checkout the build used
    let file = ["lorawan-encoding/", "lorawan-device/", "lorawan-macros/", "lora-modulation/", "lora-phy/", "harness-", "verif-core/"].iter().filter_map(|k| file.find(k).map(|i| &file[i..])).max_by_key(|s| s.len()).unwrap_or(file);
    format!("panic: {msg} @ {file}")
}

// ---------------------------------------------------------------- failures / stats

#[derive(Debug, Clone)]
pub struct Failure {
    /// oracle rule id, e.g. "bytes-equal", "no-panic"
    pub rule: String,
    /// how the failure shows (rule + stable detail, or panic message + file)
    pub fingerprint: String,
    /// the exact input, replayable
    pub case: Value,
    /// human-readable explanation (expected / got)
    pub detail: String,
}

impl Failure {
    pub fn new(rule: &str, case: Value, detail: impl Into<String>) -> Self {
        Failure { rule: rule.into(), fingerprint: rule.into(), case, detail: detail.into() }
    }
    pub fn with_fp(mut self, fp: impl Into<String>) -> Self {
        self.fingerprint = fp.into();
        self
    }
    pub fn panic(case: Value, text: &str) -> Self {
        Failure { rule: "no-panic".into(), fingerprint: panic_fingerprint(text), case, detail: text.into() }
    }
}

#[derive(Debug, Default, Clone)]
pub struct Stats {
    pub evaluations: u64,
    /// non-trivial cases that are distinct by construction (exhaustive enumerations)
    pub nt_counted: u64,
    /// hashes of non-trivial cases from random generation
    pub nt_hashes: HashSet<u64>,
    pub classes: BTreeMap<String, u64>,
    pub excluded_known: BTreeMap<String, u64>,
    pub samples: Vec<Value>,
    pub failures: Vec<Failure>,
    pub notes: Vec<String>,
}

pub const MAX_SAMPLES: usize = 8;
pub const MAX_FAILURES: usize = 16;

impl Stats {
    pub fn new() -> Self {
        Self::default()
    }
    pub fn eval(&mut self) {
        self.evaluations += 1;
    }
    pub fn class(&mut self, name: &str) {
        *self.classes.entry(name.to_string()).or_insert(0) += 1;
    }
    pub fn class_n(&mut self, name: &str, n: u64) {
        *self.classes.entry(name.to_string()).or_insert(0) += n;
    }
    pub fn nt_distinct(&mut self) {
        self.nt_counted += 1;
    }
    pub fn nt_hash(&mut self, h: u64) {
        self.nt_hashes.insert(h);
    }
    pub fn excluded(&mut self, id: &str) {
        *self.excluded_known.entry(id.to_string()).or_insert(0) += 1;
    }
    pub fn want_sample(&self) -> bool {
        self.samples.len() < MAX_SAMPLES
    }
    pub fn sample(&mut self, v: Value) {
        if self.samples.len() < MAX_SAMPLES {
            self.samples.push(v);
        }
    }
    pub fn fail(&mut self, f: Failure) {
        if self.failures.len() < MAX_FAILURES && !self.failures.iter().any(|g| g.fingerprint == f.fingerprint) {
            self.failures.push(f);
        }
    }
    pub fn failed(&self) -> bool {
        !self.failures.is_empty()
    }
    pub fn merge(&mut self, o: Stats) {
        self.evaluations += o.evaluations;
        self.nt_counted += o.nt_counted;
        self.nt_hashes.extend(o.nt_hashes);
        for (k, v) in o.classes {
            *self.classes.entry(k).or_insert(0) += v;
        }
        for (k, v) in o.excluded_known {
            *self.excluded_known.entry(k).or_insert(0) += v;
        }
        for s in o.samples {
            self.sample(s);
        }
        for f in o.failures {
            self.fail(f);
        }
        self.notes.extend(o.notes);
    }
    pub fn nontrivial(&self) -> u64 {
        self.nt_counted + self.nt_hashes.len() as u64
    }
}

// ---------------------------------------------------------------- known findings

#[derive(Debug, Clone)]
pub struct KnownFinding {
    pub property: String,
    pub id: String,
    pub status: String,
    pub what: String,
    pub replay: Option<String>,
    pub raw: Value,
}

#[derive(Debug, Clone, Default)]
pub struct KnownFindings {
    pub all: Vec<KnownFinding>,
    /// open findings whose saved replay still fails with the listed fingerprint
    pub active: HashSet<String>,
}

impl KnownFindings {
    pub fn load() -> Self {
        let p = verif_dir().join("known_findings.json");
        let mut all = vec![];
        if let Ok(t) = std::fs::read_to_string(&p) {
            if let Ok(Value::Array(a)) = serde_json::from_str::<Value>(&t) {
                for e in a {
                    all.push(KnownFinding {
                        property: e["property"].as_str().unwrap_or("").into(),
                        id: e["id"].as_str().unwrap_or("").into(),
                        status: e["status"].as_str().unwrap_or("").into(),
                        what: e["what"].as_str().unwrap_or("").into(),
                        replay: e["replay"].as_str().map(|s| s.to_string()),
                        raw: e.clone(),
                    });
                }
            }
        }
        let mut frags: Vec<PathBuf> = std::fs::read_dir(verif_dir().join("known_findings.d"))
            .map(|it| it.filter_map(|e| e.ok()).map(|e| e.path()).filter(|p| p.extension().map(|x| x == "json").unwrap_or(false)).collect())
            .unwrap_or_default();
        frags.sort();
        for p in frags {
            if let Ok(t) = std::fs::read_to_string(&p) {
                if let Ok(Value::Array(a)) = serde_json::from_str::<Value>(&t) {
                    for e in a {
                        all.push(KnownFinding {
                            property: e["property"].as_str().unwrap_or("").into(),
                            id: e["id"].as_str().unwrap_or("").into(),
                            status: e["status"].as_str().unwrap_or("").into(),
                            what: e["what"].as_str().unwrap_or("").into(),
                            replay: e["replay"].as_str().map(|s| s.to_string()),
                            raw: e.clone(),
                        });
                    }
                }
            }
        }
        KnownFindings { all, active: HashSet::new() }
    }
    pub fn for_property(&self, prop: &str) -> Vec<KnownFinding> {
        self.all.iter().filter(|k| k.property == prop).cloned().collect()
    }
    /// A failure may be attributed to finding `id` only while this is true.
    pub fn is_active(&self, id: &str) -> bool {
        self.active.contains(id)
    }
}

// ---------------------------------------------------------------- context

pub struct Ctx {
    pub property: String,
    pub tier: Tier,
    pub seed: u64,
    pub level: String,
    pub rule: String,
    pub exhaustive: bool,
    pub assumptions: Vec<String>,
    pub stats: Stats,
    pub kf: KnownFindings,
    pub start: Instant,
    pub threads: usize,
    pub extra: BTreeMap<String, Value>,
}

impl Ctx {
    pub fn new(property: &str, tier: Tier, seed: u64) -> Self {
        Ctx {
            property: property.into(),
            tier,
            seed,
            level: "exploration".into(),
            rule: String::new(),
            exhaustive: false,
            assumptions: vec![],
            stats: Stats::new(),
            kf: KnownFindings::load(),
            start: Instant::now(),
            threads: std::env::var("VERIF_THREADS").ok().and_then(|s| s.parse().ok()).unwrap_or_else(|| {
                std::thread::available_parallelism().map(|n| n.get()).unwrap_or(4)
            }),
            extra: BTreeMap::new(),
        }
    }

    pub fn rng(&self, stream: u64) -> SplitMix {
        let mut s = SplitMix::new(self.seed ^ fnv64(self.property.as_bytes()) ^ stream.wrapping_mul(0xA24BAED4963EE407));
        s.next_u64();
        s
    }

    /// Runs `work(thread_index, n_threads, &mut Stats)` on all cores and merges.
    pub fn parallel<F>(&mut self, work: F)
    where
        F: Fn(usize, usize, &mut Stats) + Sync,
    {
        let n = self.threads.max(1);
        let results: Vec<Stats> = std::thread::scope(|s| {
            let hs: Vec<_> = (0..n)
                .map(|i| {
                    let w = &work;
                    s.spawn(move || {
                        let mut st = Stats::new();
                        w(i, n, &mut st);
                        st
                    })
                })
                .collect();
            hs.into_iter().map(|h| h.join().expect("worker thread panicked outside catch")).collect()
        });
        for r in results {
            self.stats.merge(r);
        }
    }

    /// Writes a replay file for a failure and returns its path (relative to /verif).
    pub fn write_replay(&self, f: &Failure) -> String {
        let h = fnv64(format!("{}|{}", f.fingerprint, f.case).as_bytes());
        let dir = out_dir().join("replays").join(&self.property).join("found");
        let _ = std::fs::create_dir_all(&dir);
        let rel = format!("replays/{}/found/{:016x}.json", self.property, h);
        let doc = json!({
            "property": self.property,
            "seed": self.seed,
            "found_in_tier": self.tier.name(),
            "case": f.case,
            "failure": {"rule": f.rule, "fingerprint": f.fingerprint, "detail": f.detail},
        });
        let _ = std::fs::write(out_dir().join(&rel), serde_json::to_string_pretty(&doc).unwrap());
        if out_dir() != verif_dir() {
            return out_dir().join(&rel).display().to_string();
        }
        rel
    }

    /// Finishes the run: prints KNOWN-FINDING / VIOLATION lines, writes evidence, returns exit code.
    pub fn finish(&mut self) -> i32 {
        let wall = self.start.elapsed().as_secs_f64();
        for k in self.kf.for_property(&self.property) {
            if k.status == "open" && self.kf.is_active(&k.id) {
                println!("KNOWN-FINDING: property={} {} ({})", self.property, k.what, k.id);
            }
        }
        let mut viol = 0;
        let mut harness_errors = 0;
        let failures = self.stats.failures.clone();
        for f in &failures {
            if f.rule == "harness" {
                // the harness could not drive the code (e.g. it cannot construct its fixtures any
                // more): inconclusive, never a violation
                println!("INCONCLUSIVE property={} harness error: {}", self.property, f.detail.chars().take(400).collect::<String>());
                harness_errors += 1;
                continue;
            }
            let path = self.write_replay(f);
            println!("VIOLATION property={} replay={}", self.property, path);
            println!("  rule={} fingerprint={}", f.rule, f.fingerprint);
            println!("  detail: {}", f.detail.chars().take(600).collect::<String>());
            viol += 1;
        }
        let nt = self.stats.nontrivial();
        let mut cov = serde_json::Map::new();
        cov.insert("evaluations".into(), json!(self.stats.evaluations));
        cov.insert("distinct_nontrivial".into(), json!(nt));
        cov.insert("rule".into(), json!(self.rule));
        cov.insert("samples".into(), json!(self.stats.samples));
        cov.insert("exhaustive".into(), json!(self.exhaustive));
        cov.insert("classes".into(), json!(self.stats.classes));
        cov.insert("excluded_known".into(), json!(self.stats.excluded_known));
        if !self.stats.notes.is_empty() {
            cov.insert("notes".into(), json!(self.stats.notes));
        }
        for (k, v) in &self.extra {
            cov.insert(k.clone(), v.clone());
        }
        let ev = json!({
            "property_id": self.property,
            "tier": self.tier.name(),
            "seed": self.seed,
            "level": self.level,
            "coverage": Value::Object(cov),
            "assumptions": self.assumptions,
            "wall_s": (wall * 1000.0).round() / 1000.0,
            "violations": viol,
        });
        let dir = out_dir().join("evidence");
        let _ = std::fs::create_dir_all(&dir);
        let p = dir.join(format!("{}.json", self.property));
        std::fs::write(&p, serde_json::to_string_pretty(&ev).unwrap()).expect("write evidence");
        println!(
            "{}: tier={} seed={} evaluations={} distinct_nontrivial={} excluded_known={:?} violations={} wall={:.1}s",
            self.property,
            self.tier.name(),
            self.seed,
            self.stats.evaluations,
            nt,
            self.stats.excluded_known,
            viol,
            wall
        );
        if viol > 0 {
            1
        } else if harness_errors > 0 {
            2
        } else {
            0
        }
    }
}

// ---------------------------------------------------------------- proptest wrapper

use proptest::strategy::{Strategy, ValueTree};
use proptest::test_runner::{Config, RngAlgorithm, RngSeed, TestCaseError, TestError, TestRng, TestRunner};

pub fn pt_config(cases: u32, seed: u64) -> Config {
    Config {
        cases,
        failure_persistence: None,
        rng_seed: RngSeed::Fixed(seed),
        rng_algorithm: RngAlgorithm::ChaCha,
        max_shrink_iters: 4000,
        max_global_rejects: 1 << 20,
        ..Config::default()
    }
}

/// Runs `cases` generated values through `check`. `check` returns Err(Failure) on a property
/// violation. Statistics are only recorded for first-time runs (not for shrink re-runs).
/// Returns the shrunk failure, if any.
pub fn run_proptest<S, F>(strategy: S, cases: u32, seed: u64, stats: &mut Stats, mut check: F) -> Option<Failure>
where
    S: Strategy,
    S::Value: std::fmt::Debug,
    F: FnMut(&S::Value, &mut Stats) -> Result<(), Failure>,
{
    let mut runner = TestRunner::new(pt_config(cases, seed));
    let mut scratch = Stats::new();
    for _ in 0..cases {
        let tree = match strategy.new_tree(&mut runner) {
            Ok(t) => t,
            Err(e) => {
                stats.notes.push(format!("generator error: {e}"));
                return None;
            }
        };
        let v = tree.current();
        let r = catch(|| check(&v, stats));
        let first = match r {
            Ok(Ok(())) => continue,
            Ok(Err(f)) => f,
            Err(p) => Failure::panic(json!({"debug": format!("{v:?}")}), &p).with_fp(format!("harness-{}", panic_fingerprint(&p))),
        };
        // shrink: keep the smallest value that fails with the same fingerprint
        let mut tree = tree;
        let mut best = first.clone();
        let mut iters = 0;
        loop {
            if iters > 4000 {
                break;
            }
            if !tree.simplify() {
                break;
            }
            loop {
                iters += 1;
                let v = tree.current();
                let r = catch(|| check(&v, &mut scratch));
                let fails = match r {
                    Ok(Err(f)) if f.fingerprint == first.fingerprint => Some(f),
                    _ => None,
                };
                match fails {
                    Some(f) => {
                        best = f;
                        break;
                    }
                    None => {
                        if !tree.complicate() || iters > 4000 {
                            break;
                        }
                    }
                }
            }
        }
        // final re-check that `best` is what current holds is not needed: best carries its own case
        return Some(best);
    }
    None
}

/// Standalone deterministic proptest RNG for generating single values outside a runner.
pub fn pt_rng(seed: u64) -> TestRng {
    let mut s = [0u8; 32];
    s[..8].copy_from_slice(&seed.to_le_bytes());
    TestRng::from_seed(RngAlgorithm::ChaCha, &s)
}

#[allow(dead_code)]
fn _unused(_: TestCaseError, _: TestError<()>) {}

// ---------------------------------------------------------------- CLI helpers

pub struct Args {
    pub property: String,
    pub tier: Tier,
    pub seed: u64,
    pub replay: Option<String>,
}

pub fn parse_args() -> Args {
    let a: Vec<String> = std::env::args().collect();
    let mut property = String::new();
    let mut tier = match std::env::var("VERIF_TIER").as_deref() {
        Ok("thorough") => Tier::Thorough,
        _ => Tier::Quick,
    };
    let mut replay = None;
    let mut i = 1;
    while i < a.len() {
        match a[i].as_str() {
            "--tier" => {
                i += 1;
                tier = if a.get(i).map(|s| s.as_str()) == Some("thorough") { Tier::Thorough } else { Tier::Quick };
            }
            "--replay" => {
                i += 1;
                replay = a.get(i).cloned();
            }
            s => property = s.to_string(),
        }
        i += 1;
    }
    let seed = std::env::var("VERIF_SEED").ok().and_then(|s| s.trim().parse::<i128>().ok()).map(|v| v as u64).unwrap_or(20260924);
    Args { property, tier, seed, replay }
}

/// Loads a replay document; accepts either {case: ..} wrappers or bare cases.
pub fn load_case(path: &str) -> Result<Value, String> {
    let p = if std::path::Path::new(path).is_absolute() { PathBuf::from(path) } else { verif_dir().join(path) };
    let t = std::fs::read_to_string(&p).map_err(|e| format!("{}: {e}", p.display()))?;
    let v: Value = serde_json::from_str(&t).map_err(|e| format!("{}: {e}", p.display()))?;
    Ok(if v.get("case").is_some() { v["case"].clone() } else { v })
}

/// All regression inputs of a property: replays/<Cxx>/regress/*.json and replays/<Cxx>/known/*.json
pub fn list_replays(prop: &str, sub: &str) -> Vec<String> {
    let d = verif_dir().join("replays").join(prop).join(sub);
    let mut v: Vec<String> = std::fs::read_dir(d)
        .map(|it| it.filter_map(|e| e.ok()).map(|e| e.path()).filter(|p| p.extension().map(|x| x == "json").unwrap_or(false)).map(|p| p.display().to_string()).collect())
        .unwrap_or_default();
    v.sort();
    v
}

// ---------------------------------------------------------------- generic driver

pub type RunFn = fn(&mut Ctx);
pub type ReplayFn = fn(&Value, &KnownFindings) -> Result<(), Failure>;

pub struct Prop {
    pub id: &'static str,
    pub run: RunFn,
    pub replay: ReplayFn,
}

/// Generic driver shared by all properties:
///  1. `--replay F`: re-execute one saved case through the oracle (strict: nothing tolerated).
///  2. otherwise: decide which open known findings are still active (their saved replay still
///     fails with the listed fingerprint), replay every regression input, then run the search.
pub fn dispatch(args: &Args, table: Vec<Prop>) -> i32 {
    let Some(p) = table.into_iter().find(|p| p.id == args.property) else {
        eprintln!("unknown property {}", args.property);
        return 2;
    };
    if let Some(path) = &args.replay {
        crate::hang::start_monitor(p.id, args.tier.name(), args.seed, "exploration", Some(path.clone()));
        let case = match load_case(path) {
            Ok(c) => c,
            Err(e) => {
                eprintln!("{e}");
                return 2;
            }
        };
        let none = KnownFindings::default();
        return match catch(|| (p.replay)(&case, &none)) {
            Ok(Ok(())) => {
                println!("replay {path}: property held");
                0
            }
            Ok(Err(f)) => {
                println!("VIOLATION property={} replay={}", p.id, path);
                println!("  rule={} fingerprint={}", f.rule, f.fingerprint);
                println!("  detail: {}", f.detail);
                1
            }
            Err(pm) => {
                println!("VIOLATION property={} replay={}", p.id, path);
                println!("  harness panic: {pm}");
                1
            }
        };
    }
    let mut ctx = Ctx::new(p.id, args.tier, args.seed);
    crate::hang::start_monitor(p.id, args.tier.name(), args.seed, &ctx.level, None);
    // known findings: active iff open and the saved input still fails with the listed fingerprint
    let none = KnownFindings::default();
    for k in ctx.kf.for_property(p.id) {
        let Some(rp) = &k.replay else { continue };
        let case = match load_case(rp) {
            Ok(c) => c,
            Err(e) => {
                eprintln!("known finding {}: {e}", k.id);
                return 2;
            }
        };
        let want_fp = k.raw["fingerprint"].as_str().unwrap_or("").to_string();
        let r = catch(|| (p.replay)(&case, &none));
        let failing = match r {
            Ok(Ok(())) => None,
            Ok(Err(f)) => Some(f),
            Err(pm) => Some(Failure::panic(case.clone(), &pm)),
        };
        match (k.status.as_str(), failing) {
            ("open", Some(f)) if f.fingerprint == want_fp => {
                ctx.kf.active.insert(k.id.clone());
            }
            ("open", Some(f)) => {
                // fails, but differently from what is listed: report it
                ctx.stats.fail(f);
            }
            ("open", None) => {}
            (_, Some(f)) => {
                // a fixed finding has come back
                ctx.stats.fail(f);
            }
            (_, None) => {}
        }
    }
    for rp in list_replays(p.id, "regress") {
        if let Ok(case) = load_case(&rp) {
            ctx.stats.class("regression-replays");
            let kf = ctx.kf.clone();
            match catch(|| (p.replay)(&case, &kf)) {
                Ok(Ok(())) => {}
                Ok(Err(f)) => ctx.stats.fail(f),
                Err(pm) => ctx.stats.fail(Failure::panic(case.clone(), &pm)),
            }
        }
    }
    // coverage-guided stage (libFuzzer), run by ./check before this binary in the thorough tier of
    // some properties: its statistics go into the evidence, a saved crashing input is re-judged here
    // by the in-process oracle (strict) so that it gets a normal replay file and VIOLATION line
    if let Ok(j) = std::env::var("VERIF_FUZZ_JSON") {
        if let Ok(v) = serde_json::from_str::<Value>(&j) {
            ctx.stats.evaluations += v["executed_units"].as_u64().unwrap_or(0);
            ctx.stats.class_n("libfuzzer-executions", v["executed_units"].as_u64().unwrap_or(0));
            ctx.extra.insert("libfuzzer".into(), v);
        }
    }
    if let Ok(path) = std::env::var("VERIF_FUZZ_CRASH") {
        if let Ok(bytes) = std::fs::read(&path) {
            let case = json!({"kind": "fuzz_raw", "data": hex(&bytes)});
            let none = KnownFindings::default();
            match catch(|| (p.replay)(&case, &none)) {
                Ok(Ok(())) => ctx.stats.notes.push(format!("libFuzzer artifact {path} did not reproduce with the in-process oracle")),
                Ok(Err(f)) => ctx.stats.fail(f),
                Err(pm) => ctx.stats.fail(Failure::panic(case.clone(), &pm)),
            }
        }
    }
    (p.run)(&mut ctx);
    ctx.finish()
}
