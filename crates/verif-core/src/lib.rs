pub mod engine;
pub mod hang;
pub mod oracle;
pub use engine::*;
pub use serde_json;
pub use proptest;
