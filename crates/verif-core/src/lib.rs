pub mod engine;
pub mod oracle;
pub use engine::*;
pub use serde_json;
pub use proptest;
