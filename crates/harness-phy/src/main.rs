fn main(){}
