#![allow(dead_code)] // datasheet constants are kept complete even where no property reads them yet
use verif_core::*;

mod drive;
mod props;

fn main() {
    install_panic_hook();
    let args = parse_args();
    if let Err(e) = oracle::self_test() {
        eprintln!("oracle self-test failed: {e}");
        std::process::exit(2);
    }
    let code = dispatch(&args, props::table());
    std::process::exit(code);
}
