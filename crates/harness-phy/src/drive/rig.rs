//! Construction of the drivers under test on top of the chip models.

use super::chip126x::Chip126x;
use super::chip127x::{Chip127x, Kind};
use super::lr11xx::Lr11xx;
use super::{Iv, Spi};
use lora_phy::lr1110::{self, Lr1110};
use lora_phy::sx126x::{self, Sx126x, Sx126xVariant};
use lora_phy::sx127x::{self, Sx1272, Sx1276, Sx127x};
use std::cell::RefCell;
use std::rc::Rc;

pub type C126 = Rc<RefCell<Chip126x>>;
pub type C127 = Rc<RefCell<Chip127x>>;
pub type CLr = Rc<RefCell<Lr11xx>>;

pub fn new126() -> C126 {
    Rc::new(RefCell::new(Chip126x::new()))
}
pub fn new127(kind: Kind) -> C127 {
    Rc::new(RefCell::new(Chip127x::new(kind)))
}
pub fn new_lr() -> CLr {
    Rc::new(RefCell::new(Lr11xx::new()))
}

pub type R126<C> = Sx126x<Spi<Chip126x>, Iv, C>;
pub type R1276 = Sx127x<Spi<Chip127x>, Iv, Sx1276>;
pub type R1272 = Sx127x<Spi<Chip127x>, Iv, Sx1272>;
pub type RLr = Lr1110<Spi<Lr11xx>, Iv>;

pub fn sx126x<C: Sx126xVariant>(chip: &C126, variant: C, rx_boost: bool) -> (R126<C>, Iv) {
    let iv = Iv::new();
    let cfg = sx126x::Config { chip: variant, tcxo_ctrl: None, use_dcdc: false, rx_boost };
    (Sx126x::new(Spi::new(chip.clone()), iv.clone(), cfg), iv)
}

/// Board options as a bit set: bit 0 rx_boost, bit 1 tx_boost (SX127x) / DC-DC regulator (SX126x), bit 2 TCXO.
pub fn sx126x_board<C: Sx126xVariant>(chip: &C126, variant: C, board: u8) -> (R126<C>, Iv) {
    let iv = Iv::new();
    let cfg = sx126x::Config { chip: variant, tcxo_ctrl: if board & 4 != 0 { Some(sx126x::TcxoCtrlVoltage::Ctrl1V7) } else { None }, use_dcdc: board & 2 != 0, rx_boost: board & 1 != 0 };
    (Sx126x::new(Spi::new(chip.clone()), iv.clone(), cfg), iv)
}
pub fn sx1276_board(chip: &C127, board: u8) -> (R1276, Iv) {
    let iv = Iv::new();
    let cfg = sx127x::Config { chip: Sx1276, tcxo_used: board & 4 != 0, tx_boost: board & 2 != 0, rx_boost: board & 1 != 0 };
    (Sx127x::new(Spi::new(chip.clone()), iv.clone(), cfg), iv)
}
pub fn sx1272_board(chip: &C127, board: u8) -> (R1272, Iv) {
    let iv = Iv::new();
    let cfg = sx127x::Config { chip: Sx1272, tcxo_used: board & 4 != 0, tx_boost: board & 2 != 0, rx_boost: board & 1 != 0 };
    (Sx127x::new(Spi::new(chip.clone()), iv.clone(), cfg), iv)
}

pub fn sx1276(chip: &C127, tx_boost: bool, rx_boost: bool) -> (R1276, Iv) {
    let iv = Iv::new();
    let cfg = sx127x::Config { chip: Sx1276, tcxo_used: false, tx_boost, rx_boost };
    (Sx127x::new(Spi::new(chip.clone()), iv.clone(), cfg), iv)
}

pub fn sx1272(chip: &C127, tx_boost: bool, rx_boost: bool) -> (R1272, Iv) {
    let iv = Iv::new();
    let cfg = sx127x::Config { chip: Sx1272, tcxo_used: false, tx_boost, rx_boost };
    (Sx127x::new(Spi::new(chip.clone()), iv.clone(), cfg), iv)
}

/// LR1110 board options as a bit set: bit 0 rx_boost, bit 1 DC-DC, bit 2 TCXO, bit 3 high-power PA, bit 4 DIOs as RF switch
pub fn lr1110_board(chip: &CLr, board: u8) -> (RLr, Iv) {
    let iv = Iv::new();
    let cfg = lr1110::Config {
        pa_selection: if board & 8 != 0 { lr1110::PaSelection::Hp } else { lr1110::PaSelection::Lp },
        dio_as_rf_switch: if board & 16 != 0 { Some(Default::default()) } else { None },
        tcxo_ctrl: if board & 4 != 0 { Some(lr1110::TcxoCtrlVoltage::Ctrl1V8) } else { None },
        use_dcdc: board & 2 != 0,
        rx_boost: board & 1 != 0,
    };
    (Lr1110::new(Spi::new(chip.clone()), iv.clone(), cfg), iv)
}

pub fn lr1110(chip: &CLr) -> (RLr, Iv) {
    let iv = Iv::new();
    let cfg = lr1110::Config { pa_selection: lr1110::PaSelection::Lp, dio_as_rf_switch: None, tcxo_ctrl: None, use_dcdc: false, rx_boost: false };
    (Lr1110::new(Spi::new(chip.clone()), iv.clone(), cfg), iv)
}
