//! Doubles shared by the PHY properties: a hand-rolled executor, the control-line double
//! (`InterfaceVariant`), a delay that returns immediately, and the SPI glue that turns an
//! `embedded-hal-async` transaction into one MOSI/MISO byte exchange executed by a chip model.
//!
//! Nothing here takes expected values from lora-phy: opcodes and register addresses inside the chip
//! models are transcribed from the SX1261/2 (DS.SX1261-2.W.APP rev 2.x), SX1276/7/8/9 (rev 7) and
//! SX1272/73 (rev 4) datasheets and from the LR11xx user manual.

pub mod chip126x;
pub mod chip127x;
pub mod lr11xx;
pub mod rig;

use embedded_hal_async::delay::DelayNs;
use embedded_hal_async::spi::{ErrorType, Operation, SpiDevice};
use lora_phy::mod_params::RadioError;
use lora_phy::mod_traits::InterfaceVariant;
use std::cell::{Cell, RefCell};
use std::future::Future;
use std::rc::Rc;
use std::task::{Context, Poll, Waker};

/// Polls a future to completion. Every double completes immediately, so `Pending` from a driver
/// future means the harness itself is wrong: that is a panic with a recognisable message, which
/// the properties report as an inconclusive harness failure, never as a violation of the code.
pub fn block_on<F: Future>(f: F) -> F::Output {
    // every driven future gets a budget of SPI exchanges unless an outer guard is armed already (a loop
    // that polls the chip without awaiting the interrupt line would otherwise never come back)
    if XFER_BUDGET.with(|b| b.get()).is_none() {
        return with_xfer_budget(50_000, || block_on_inner(f));
    }
    block_on_inner(f)
}

fn block_on_inner<F: Future>(f: F) -> F::Output {
    let mut f = std::pin::pin!(f);
    let mut cx = Context::from_waker(Waker::noop());
    for _ in 0..8 {
        if let Poll::Ready(v) = f.as_mut().poll(&mut cx) {
            return v;
        }
    }
    panic!("HARNESS-BUG: a driver future stayed Pending although every double completes immediately");
}

/// Delay that elapses immediately.
pub struct Delay;
impl DelayNs for Delay {
    async fn delay_ns(&mut self, _ns: u32) {}
}

/// Control lines: never busy, reset is a no-op, RF switch ignored. `await_irq` returns at once; to
/// keep a driver loop that waits for an interrupt which the scripted chip never raises from
/// spinning forever it fails with `RadioError::Irq` after `IRQ_WAIT_BUDGET` waits per case.
#[derive(Clone)]
pub struct Iv {
    pub waits: Rc<Cell<u32>>,
    /// what pulling the NRESET line does to the chip double (None: nothing, as the stateless checks use it)
    pub on_reset: Rc<RefCell<Option<Rc<dyn Fn()>>>>,
}
pub const IRQ_WAIT_BUDGET: u32 = 16;

impl Iv {
    pub fn new() -> Self {
        Iv { waits: Rc::new(Cell::new(0)), on_reset: Rc::new(RefCell::new(None)) }
    }
    /// connects the reset line to a chip double
    pub fn wire_reset(&self, f: Rc<dyn Fn()>) {
        *self.on_reset.borrow_mut() = Some(f);
    }
}

impl InterfaceVariant for Iv {
    async fn reset(&mut self, _delay: &mut impl DelayNs) -> Result<(), RadioError> {
        let f = self.on_reset.borrow().clone();
        if let Some(f) = f {
            f();
        }
        Ok(())
    }
    async fn wait_on_busy(&mut self) -> Result<(), RadioError> {
        Ok(())
    }
    async fn await_irq(&mut self) -> Result<(), RadioError> {
        let n = self.waits.get() + 1;
        self.waits.set(n);
        if n > IRQ_WAIT_BUDGET {
            Err(RadioError::Irq)
        } else {
            Ok(())
        }
    }
    async fn enable_rf_switch_rx(&mut self) -> Result<(), RadioError> {
        Ok(())
    }
    async fn enable_rf_switch_tx(&mut self) -> Result<(), RadioError> {
        Ok(())
    }
    async fn disable_rf_switch(&mut self) -> Result<(), RadioError> {
        Ok(())
    }
}

#[derive(Debug)]
pub enum SpiErr {
    /// an injected bus fault: the transfer was cut after some octets had been clocked (`with_spi_cut`)
    Cut,
}
impl embedded_hal::spi::Error for SpiErr {
    fn kind(&self) -> embedded_hal::spi::ErrorKind {
        embedded_hal::spi::ErrorKind::Other
    }
}

/// Which command put the chip on the air.
#[derive(Debug, Clone, Copy, PartialEq, Eq)]
pub enum AirKind {
    Tx,
    Rx,
    Cad,
    TxCw,
}

/// The configuration a chip double HOLDS, as far as the PHY properties decode it. On the command-driven
/// chips (SX126x, LR11xx) a field is `None` when it has not been programmed since the last power-on /
/// reset / wake-up from a sleep without retention: the chip is then back in its power-on state (GFSK
/// packet engine, no documented RF frequency / LoRa parameters), which is nobody's request. On the
/// register-driven SX127x the fields are the register contents, i.e. the documented reset values after NRESET.
#[derive(Debug, Clone, Default, PartialEq)]
pub struct Held {
    /// LoRa packet engine selected (SX126x/LR11xx SetPacketType(LoRa); SX127x LongRangeMode bit)
    pub lora_mode: bool,
    /// SetRfFrequency word (SX126x: PLL steps; LR11xx: Hz) / RegFrf (all three bytes written)
    pub freq_word: Option<u32>,
    /// raw LoRa SetModulationParams arguments SF, BW, CR, LDRO (SX126x, LR11xx)
    pub modp: Option<[u8; 4]>,
    /// raw LowDataRateOptimize byte / bit
    pub ldro: Option<u8>,
    pub pkt_implicit: Option<bool>,
    pub pkt_len: Option<u8>,
    /// SX126x SetPaConfig / SetTxParams arguments
    pub pa126: Option<[u8; 4]>,
    pub txp126: Option<[u8; 2]>,
    /// SX127x (RegPaConfig, RegPaDac), both written
    pub pa127: Option<(u8, u8)>,
    /// decoded symbol-count timeouts in effect: (where, symbols)
    pub symb: Vec<(&'static str, u32)>,
}

/// The held configuration at the moment SetTx / SetRx / SetCad / SetTxContinuousWave (SX127x: RegOpMode
/// TX / RXSINGLE / RXCONTINUOUS / CAD) was commanded.
#[derive(Debug, Clone, PartialEq)]
pub struct Air {
    pub kind: AirKind,
    pub held: Held,
}

/// A chip model executes one NSS-low..NSS-high exchange: `mosi[i]` is clocked in while `miso[i]`
/// is clocked out.
pub trait ChipModel {
    fn exchange(&mut self, mosi: &[u8], miso: &mut [u8]);
}

/// Longest exchange any driver performs: 3 header bytes + 256 data bytes (+ slack).
pub const MAX_XFER: usize = 288;

/// SPI device double: owns a shared handle to the chip model.
pub struct Spi<C: ChipModel> {
    pub chip: Rc<RefCell<C>>,
}

impl<C: ChipModel> Spi<C> {
    pub fn new(chip: Rc<RefCell<C>>) -> Self {
        Spi { chip }
    }
}

impl<C: ChipModel> ErrorType for Spi<C> {
    type Error = SpiErr;
}

thread_local! {
    /// SPI exchanges left for the guarded call in progress on this thread (None: no guard armed)
    static XFER_BUDGET: Cell<Option<u32>> = const { Cell::new(None) };
}
/// text of the panic that ends a guarded call which keeps exchanging with the chip without ever returning
pub const XFER_HANG_MSG: &str = "SPI exchange budget exceeded: the call keeps polling the chip and does not return";
/// Runs `f` with a budget of SPI exchanges (a fetch needs a few dozen): a driver or adapter loop that never
/// awaits the interrupt line cannot be bounded by `IRQ_WAIT_BUDGET`; it ends in a panic carrying `XFER_HANG_MSG`.
pub fn with_xfer_budget<T>(budget: u32, f: impl FnOnce() -> T) -> T {
    struct Disarm;
    impl Drop for Disarm {
        fn drop(&mut self) {
            XFER_BUDGET.with(|b| b.set(None));
        }
    }
    XFER_BUDGET.with(|b| b.set(Some(budget)));
    let _d = Disarm;
    f()
}

thread_local! {
    /// injected bus fault: (exchanges still to pass untouched, octets of the failing exchange that reach the chip)
    static SPI_CUT: Cell<Option<(u32, usize)>> = const { Cell::new(None) };
    /// exchanges counted while a cut is armed (to size the enumeration)
    static SPI_SEEN: Cell<u32> = const { Cell::new(0) };
}
/// Runs `f` with one interrupted SPI exchange: exchange number `after` (0-based, counted from now) is cut after
/// `octets` octets have been clocked — those reach the chip model (a FIFO pointer advances, a command byte alone
/// does nothing) — and the transaction returns an error. Returns f's result and the number of exchanges seen.
pub fn with_spi_cut<T>(after: u32, octets: usize, f: impl FnOnce() -> T) -> (T, u32) {
    struct Disarm;
    impl Drop for Disarm {
        fn drop(&mut self) {
            SPI_CUT.with(|b| b.set(None));
        }
    }
    SPI_CUT.with(|b| b.set(Some((after, octets))));
    SPI_SEEN.with(|b| b.set(0));
    let _d = Disarm;
    let r = f();
    (r, SPI_SEEN.with(|b| b.get()))
}

impl<C: ChipModel> SpiDevice<u8> for Spi<C> {
    async fn transaction(&mut self, operations: &mut [Operation<'_, u8>]) -> Result<(), SpiErr> {
        XFER_BUDGET.with(|b| {
            if let Some(n) = b.get() {
                if n == 0 {
                    b.set(None);
                    panic!("{}", XFER_HANG_MSG);
                }
                b.set(Some(n - 1));
            }
        });
        let mut mosi = [0u8; MAX_XFER];
        let mut miso = [0u8; MAX_XFER];
        let mut n = 0usize;
        for op in operations.iter() {
            match op {
                Operation::Write(w) => {
                    assert!(n + w.len() <= MAX_XFER, "HARNESS-BUG: SPI exchange longer than MAX_XFER");
                    mosi[n..n + w.len()].copy_from_slice(w);
                    n += w.len();
                }
                Operation::Read(r) => {
                    assert!(n + r.len() <= MAX_XFER, "HARNESS-BUG: SPI exchange longer than MAX_XFER");
                    n += r.len(); // NOP (0x00) on MOSI
                }
                Operation::Transfer(r, w) => {
                    let l = r.len().max(w.len());
                    assert!(n + l <= MAX_XFER, "HARNESS-BUG: SPI exchange longer than MAX_XFER");
                    mosi[n..n + w.len()].copy_from_slice(w);
                    n += l;
                }
                Operation::TransferInPlace(b) => {
                    assert!(n + b.len() <= MAX_XFER, "HARNESS-BUG: SPI exchange longer than MAX_XFER");
                    mosi[n..n + b.len()].copy_from_slice(b);
                    n += b.len();
                }
                Operation::DelayNs(_) => {}
            }
        }
        SPI_SEEN.with(|b| b.set(b.get().wrapping_add(1)));
        if let Some((after, octets)) = SPI_CUT.with(|b| b.get()) {
            if after == 0 {
                SPI_CUT.with(|b| b.set(None));
                let k = octets.min(n);
                self.chip.borrow_mut().exchange(&mosi[..k], &mut miso[..k]);
                return Err(SpiErr::Cut);
            }
            SPI_CUT.with(|b| b.set(Some((after - 1, octets))));
        }
        self.chip.borrow_mut().exchange(&mosi[..n], &mut miso[..n]);
        let mut p = 0usize;
        for op in operations.iter_mut() {
            match op {
                Operation::Write(w) => p += w.len(),
                Operation::Read(r) => {
                    let l = r.len();
                    r.copy_from_slice(&miso[p..p + l]);
                    p += l;
                }
                Operation::Transfer(r, w) => {
                    let l = r.len().max(w.len());
                    let rl = r.len();
                    r.copy_from_slice(&miso[p..p + rl]);
                    p += l;
                }
                Operation::TransferInPlace(b) => {
                    let l = b.len();
                    b.copy_from_slice(&miso[p..p + l]);
                    p += l;
                }
                Operation::DelayNs(_) => {}
            }
        }
        Ok(())
    }
}

/// Strips everything in front of the crate directory from a captured panic text
/// ("msg @ /some/root/lora-phy/src/x.rs:12") and drops the line number, so that the fingerprint is
/// the same for /repo and for a scratch copy of the repository.
pub fn panic_fp(text: &str) -> String {
    let (msg, loc) = match text.rsplit_once(" @ ") {
        Some((m, l)) => (m, l),
        None => (text, ""),
    };
    let file = loc.rsplit_once(':').map(|(f, _)| f).unwrap_or(loc);
    let mut rel = file;
    for root in ["lora-phy/", "lora-modulation/", "lorawan-device/", "lorawan-encoding/", "harness-phy/"] {
        if let Some(i) = file.find(root) {
            rel = &file[i..];
            break;
        }
    }
    // numbers inside the message (indices, lengths) vary with the input, not with the root cause
    let mut norm = String::with_capacity(msg.len());
    let mut in_num = false;
    for ch in msg.chars() {
        if ch.is_ascii_digit() {
            if !in_num {
                norm.push('#');
            }
            in_num = true;
        } else {
            in_num = false;
            norm.push(ch);
        }
    }
    format!("panic: {norm} @ {rel}")
}

/// A panic caught around driver code -> Failure with a location-independent fingerprint. A panic
/// raised by the harness itself is marked so that nobody mistakes it for a finding in the code.
pub fn panic_failure(case: serde_json::Value, text: &str) -> verif_core::Failure {
    let fp = panic_fp(text);
    let rule = if text.contains("HARNESS-BUG") || fp.contains("harness-phy/") { "harness-bug" } else { "no-panic" };
    verif_core::Failure::new(rule, case, text.to_string()).with_fp(fp)
}
